"""C12 — Join merges all inputs: nothing lost or duplicated, per-input order kept, closes after all inputs.
Tie: H lock-step with k inputs (0..4), interleaved sends, closes and receives.
Direct oracle additionally on: wide fan-in (k up to 65), bursts (moves made back to back, without waiting for
quiescence) against a full output buffer, and Join called with a spread slice that the caller overwrites right away."""
import json, os, re, subprocess
import vlib, lockstep as ls

# k up to which `oracle lockstep` is asked (its state set grows with the number of copiers); wider scripts and scripts
# with burst moves (which PoolRun.parseMove does not know) go through the direct oracle only
MODEL_MAX_K = 8
MID_K = [5, 6, 7, 8]
WIDE_K = [17, 18, 20, 23, 31, 32, 33, 40, 47, 48, 49]
WIDE_K_THOROUGH = WIDE_K + [16, 24, 63, 64, 65]
MODES = ["pure", "reuse", "reuse", "reusenil", "dup", "bg"]   # how the harness treats the slice it spreads into Join (join_test.go)


HOW = {"dup": " (the first input was passed twice: Join(ctx, in0, in0, …))",
       "bg": " (an unrelated Join on a still open input was alive during the run)",
       "reuse": " (Join was called as Join(ctx, s...) and the caller then overwrote s with other channels)",
       "reusenil": " (Join was called as Join(ctx, s...) and the caller then overwrote s with nil channels)"}


def cfg_line(k, caps, mode):
    return "stage=Join k=%d cap=0 caps=%s%s" % (k, ",".join(map(str, caps)), "" if mode == "pure" else " mode=" + mode)


def gen_script(rng, maxlen=8):
    k = rng.randrange(0, 5)
    n = rng.randrange(0, maxlen + 1) if k else 0
    xs = rng.sample(range(1, 60), n)
    caps = [rng.choice([0, 1, 2]) for _ in range(k)]
    cfg = cfg_line(k, caps, rng.choice(MODES))
    seqs = [[] for _ in range(k)]
    for x in xs:
        seqs[rng.randrange(k)].append(x)
    sends = [["s%d:%d" % (j, x) for x in seqs[j]] + ["c%d" % j] for j in range(k)]
    recvs = ["r0"] * rng.randrange(0, n + 2)
    body = ls.interleave(rng, sends + [recvs])
    return cfg + " | " + " ".join(body + ["r0"] * (n + 3) + ["z"])


def gen_wide(rng, ks=WIDE_K):
    """wide fan-in: many inputs, most of them carrying one or two elements"""
    k = rng.choice(ks)
    caps = [rng.choice([0, 1, 2]) for _ in range(k)]
    lens = [rng.choice([0, 1, 1, 1, 2, 2, 3]) for _ in range(k)]
    xs = rng.sample(range(1, 1000), sum(lens))
    sends, p = [], 0
    for j in range(k):
        sends.append(["s%d:%d" % (j, x) for x in xs[p:p + lens[j]]] + ["c%d" % j])
        p += lens[j]
    n = len(xs)
    recvs = ["r0"] * rng.randrange(0, n + 2)
    body = ls.interleave(rng, sends + [recvs])
    return cfg_line(k, caps, rng.choice(MODES)) + " | " + " ".join(body + ["r0"] * (n + 3) + ["z"])


def gen_verywide(rng):
    """127 … 300 unbuffered inputs, a handful of elements, offered on the LAST inputs first: every input is listened to from
    the start, whatever its position in the argument list (direct oracle only: k is far beyond the model driver's reach)"""
    k = rng.choice([127, 128, 129, 130, 200, 257, 300])
    js = rng.sample(range(k - 8, k), 3) + rng.sample(range(0, k - 8), 2)
    xs = rng.sample(range(1, 1000), len(js))
    body = []
    for j, x in zip(js, xs):
        body += ["s%d:%d" % (j, x), "r0"]
    closes = ["c%d" % j for j in range(k)]
    return "stage=Join k=%d cap=0 caps=%s" % (k, ",".join(["0"] * k)) + " | " + " ".join(body + closes + ["r0"] * 4 + ["z"])


def gen_burst(rng):
    """the consumer stalls until the output buffer (capacity k) is full, then one input receives a burst of elements
    (made back to back: the copier meets them all at once), possibly a second burst, then everything is drained"""
    k = rng.randrange(1, 5)
    caps = [rng.choice([0, 1, 2]) for _ in range(k)]
    vals = iter(rng.sample(range(1, 200), 40))
    moves = []
    # a few ordinary moves first (sends and receives at quiescent points)
    for _ in range(rng.randrange(0, 4)):
        moves.append(rng.choice(["r0", "s%d:%d" % (rng.randrange(k), next(vals))]))
    # stall: k (+0..2) sends with no receive fill the output buffer
    for _ in range(k + rng.randrange(0, 3)):
        moves.append("s%d:%d" % (rng.randrange(k), next(vals)))
    nb = rng.choice([1, 1, 2])
    for b in range(nb):
        j = rng.randrange(k)
        m = rng.randrange(2, 6)
        caps[j] = max(caps[j], m + rng.choice([0, 0, 1]))   # room for the whole burst in the input's own buffer
        moves.append("b" + ",".join("s%d:%d" % (j, next(vals)) for _ in range(m)))
        if b + 1 < nb and rng.random() < 0.5:
            moves.append("r0")
    # the rest: a few more sends, the closes, and the drain, interleaved
    tail = [["s%d:%d" % (j, next(vals)) for _ in range(rng.randrange(0, 2))] + ["c%d" % j] for j in range(k)]
    moves += ls.interleave(rng, tail + [["r0"] * rng.randrange(0, 8)])
    return cfg_line(k, caps, rng.choice(MODES)) + " | " + " ".join(moves + ["r0"] * 30 + ["z"])


def gen_grouped(rng):
    """an ordinary script in which runs of consecutive moves are made back to back (arrival orders that moves at
    quiescent points cannot produce: several inputs and the consumer act while the copiers are running)"""
    s = gen_script(rng, maxlen=10)
    cfg, mv = s.split(" | ")
    mv = mv.split()
    body, tail = mv[:-1], mv[-1:]
    out, i = [], 0
    while i < len(body):
        if rng.random() < 0.4:
            g = rng.randrange(2, 6)
            out.append("b" + ",".join(body[i:i + g]))
            i += g
        else:
            out.append(body[i])
            i += 1
    return cfg + " | " + " ".join(out + ["r0", "r0"] + tail)


def has_burst(script):
    return any(m[0] == "b" for m in script.split("|", 1)[1].split())


def direct_only(script):
    c = ls.parse_cfg(script)
    # mode=dup starts one copier more than the model of the script has (two share input 0)
    return has_burst(script) or int(c.get("k", 0)) > MODEL_MAX_K or c.get("mode") == "dup"


def flat_steps(tr):
    """(move, result, output-buffer length seen after the move or None) with burst moves expanded into their sub-moves"""
    out = []
    for mv, res, lens in tr.steps:
        olen = int(lens.split(";")[1] or 0) if ";" in lens else None
        if mv[0] == "b":
            subs = [s for s in mv[1:].split(",") if s and s[0] != "b"]
            rs = res.split(",")
            for i, (s, r) in enumerate(zip(subs, rs)):
                out.append((s, r, olen if i == len(subs) - 1 else None))
        else:
            out.append((mv, res, olen))
    return out


def observed(tr):
    """sent per input, values received, inputs closed, whether the output was seen closed — from the flattened steps"""
    sent, got, closed_in, out_closed = {}, [], set(), False
    for mv, res, _ in flat_steps(tr):
        if mv[0] == "s" and res == "ok":
            j, v = mv[1:].split(":")
            sent.setdefault(int(j), []).append(int(v))
        elif mv[0] == "c" and res == "ok":
            closed_in.add(int(mv[1:]))
        elif mv == "r0":
            if res == "closed":
                out_closed = True
            elif re.match(r"^v-?\d+$", res):
                got.append(int(res[1:]))
    return sent, got, closed_in, out_closed


def evaluate(script, tr):
    k = int(tr.cfg["k"])
    vs = []
    key = {"stage": "Join", "k": k}
    sent, got, closed_in, out_closed = observed(tr)
    allsent = [x for xs in sent.values() for x in xs]
    how = HOW.get(tr.cfg.get("mode", "pure"), "")
    for j, xs in sent.items():
        sub = [v for v in got if v in xs]
        if tr.cfg.get("mode") == "dup" and j == 0:
            # the same channel was passed twice: two copiers share it, the property's per-input order is about distinct
            # inputs; only "nothing lost, duplicated or invented" and the closure are claimed for it
            continue
        if sub != xs[:len(sub)]:
            vs.append(vlib.Violation("impl", "Join: input %d sent %s but its elements came out as %s%s" % (j, xs, sub, how), case=script, expected=xs, got=sub, key=key))
    if len(set(got)) != len(got) or any(v not in allsent for v in got):
        vs.append(vlib.Violation("impl", "Join delivered a duplicate or invented element: %s (sent %s)%s" % (got, allsent, how), case=script, key=key))
    # "any arrival order": while the output has room and nothing was cancelled, an element offered on an UNBUFFERED open input
    # is taken at once (a copier waits on every input); a refused send there means Join is not listening on that input
    caps = [int(x) for x in tr.cfg.get("caps", "").split(",") if x] if tr.cfg.get("caps") else []
    cancelled, prev_out, closed_j = False, 0, set()
    for mv, res, lens in tr.steps:
        if mv == "x" or (mv[0] == "b" and ",x" in "," + mv[1:]):
            cancelled = True
        if mv[0] == "c" and res == "ok":
            closed_j.add(int(mv[1:]))
        if mv[0] == "s" and res == "full" and not cancelled and tr.cfg.get("mode", "pure") in ("pure", "reuse", "reusenil"):
            j = int(mv[1:].split(":")[0])
            cj = caps[j] if j < len(caps) else int(tr.cfg.get("cap", 0))
            if cj == 0 and prev_out < k and j not in closed_j:
                vs.append(vlib.Violation("impl", "Join: an element offered on the unbuffered open input %d was not taken although the output has room (%d of %d): "
                                         "Join is not receiving from that input%s" % (j, prev_out, k, how), case=script, expected="ok", got="full", key=dict(key, **{"class": "input-not-served"})))
                break
        try:
            prev_out = int((lens.split(";")[1] or "0").split(",")[0])
        except Exception:
            pass
    # closes after - and only after - every input has closed
    nclosed = 0
    for mv, res, _ in flat_steps(tr):
        if mv[0] == "c" and res == "ok":
            nclosed += 1
        if mv == "r0" and res == "closed" and nclosed < k:
            vs.append(vlib.Violation("impl", "Join: output closed while %d of %d inputs were still open%s" % (k - nclosed, k, how), case=script, key=key))
            break
    if len(closed_in) == k:
        if not out_closed:
            vs.append(vlib.Violation("impl", "Join: output not closed after all %d inputs closed and the output was drained%s" % (k, how), case=script, key=key))
        elif sorted(got) != sorted(allsent):
            vs.append(vlib.Violation("impl", "Join lost elements: sent %s, delivered %s%s" % (sorted(allsent), sorted(got), how), case=script, key=key))
        for pos, n in tr.census:
            # goroutine exit is C06's claim, not C12's
            if False and out_closed and n != 0:
                vs.append(vlib.Violation("impl", "Join: %d goroutine(s) alive after close" % n, case=script, key=key))
    return vs


def judge_direct(ctx, scripts, binp):
    """ls.judge without the model comparison: run the scripts on the implementation, crash attribution, direct oracle"""
    obs, crashes = ls.run_scripts(ctx, binp, scripts)
    traces = []
    for i, s in enumerate(scripts):
        ctx.hist("stage", "pipe.Join")
        if i in crashes:
            txt = crashes[i]
            cls = "deadlock" if "deadlock" in txt else ("panic" if "panic" in txt else "crash")
            m = re.search(r"panic: ([^\n]*)", txt)
            ctx.violations.append(vlib.Violation("impl", "pipe.Join: the library crashed: %s" % (m.group(1) if m else cls), case=s,
                                                 got=txt[-1500:], key={"stage": "Join", "pkg": "pipe", "class": cls}))
            traces.append(None)
            continue
        if obs[i] is None:
            ctx.broken.append({"kind": "correspondence", "detail": "no observation for script", "case": s})
            traces.append(None)
            continue
        tr = ls.Trace(s, obs[i])
        traces.append(tr)
        if not tr.complete:
            ctx.broken.append({"kind": "correspondence", "detail": "observation line does not match the script", "case": s, "impl": " ".join(obs[i])[:2000]})
            continue
        ctx.cov["direct_oracle_only"] = ctx.cov.get("direct_oracle_only", 0) + 1
        ctx.violations += evaluate(s, tr)
        if tr.end and tr.end != (0, 0) and ls.census_claimed(ctx):
            ctx.violations.append(vlib.Violation("impl", "pipe.Join: %d output(s) never closed / %d goroutine(s) left after cancel, close and drain" % (tr.end[0], tr.end[1]),
                                                 case=s, key={"stage": "Join", "class": "leak"}))
        if i % 53 == 0:
            ctx.sample({"script": s[:600], "observations": " ".join(obs[i])[:1500], "model": "not asked (direct oracle only)"}, limit=10)
    if -1 in crashes:
        ctx.broken.append({"kind": "correspondence", "detail": "harness failed: " + crashes[-1][-800:]})
    return traces


def account(ctx, kinds, scripts, trs):
    for kind, s, tr in zip(kinds, scripts, trs):
        if tr is None:
            continue
        sent, got, closed_in, out_closed = observed(tr)
        k = int(tr.cfg["k"])
        ctx.hist("k", k)
        ctx.hist("kind", kind)
        ctx.hist("call", {"pure": "spread slice left alone", "reuse": "spread slice overwritten with foreign channels",
                          "reusenil": "spread slice overwritten with nil", "dup": "first input passed twice",
                          "bg": "another Join alive"}[tr.cfg.get("mode", "pure")])
        ctx.hist("model_compared", "no" if direct_only(s) else "yes")
        if direct_only(s):
            ctx.hist("completed_sends", sum(len(v) for v in sent.values()))
        nontrivial = len([1 for v in sent.values() if v]) >= 2
        if has_burst(s):
            # a burst counts when >= 2 of its sends on ONE input completed while the output buffer was full before it
            full_before, hit, prev = False, False, None
            for mv, res, lens in tr.steps:
                olen = int(lens.split(";")[1] or 0) if ";" in lens else None
                if mv[0] == "b":
                    per = {}
                    for sm, r in zip(mv[1:].split(","), res.split(",")):
                        if sm[0] == "s" and r == "ok":
                            per[sm[1:].split(":")[0]] = per.get(sm[1:].split(":")[0], 0) + 1
                    if per and max(per.values()) >= 2:
                        ctx.hist("burst_sends_on_one_input", max(per.values()))
                        if prev is not None and prev >= k:
                            hit = True
                prev = olen
            ctx.hist("burst_against_full_output", "yes" if hit else "no")
            nontrivial = hit if kind == "burst" else nontrivial
        ctx.count(s, nontrivial=nontrivial)


def arity_phase(ctx, binp):
    """Join with 0 … 70 000 inputs (go/harness/lockstep/joinarity_test.go), direct oracle only"""
    fout = os.path.join(ctx.tmp, "joinarity.out")
    if os.path.exists(fout):
        os.remove(fout)
    try:
        p = subprocess.run([binp, "-test.run", "TestJoinArity$", "-test.count=1", "-test.timeout=600s"], env=dict(os.environ, JOINARITY_OUT=fout), capture_output=True, text=True, timeout=700)
        rc, txt = p.returncode, p.stdout[-2000:] + p.stderr[-3000:]
    except subprocess.TimeoutExpired:
        rc, txt = -1, "timeout"
    done, started = {}, None
    if os.path.exists(fout):
        for l in open(fout).read().split("\n"):
            if l.startswith("#"):
                started = int(l[1:])
            elif l:
                k, _, r = l.partition(" ")
                done[int(k)] = r
    for k, r in sorted(done.items()):
        ctx.count("arity k=%d" % k, nontrivial=k >= 2)
        ctx.hist("arity_phase_k", k)
        if r.startswith("SLOW"):
            # not a verdict on the property: too slow for the harness's patience
            ctx.broken.append({"kind": "correspondence", "detail": "Join with %d inputs: %s" % (k, r)})
        elif r != "ok":
            ctx.violations.append(vlib.Violation("impl", "Join with %d inputs: %s" % (k, r), case="arity k=%d (every third input carries its index, all inputs closed)" % k, expected="ok", got=r,
                                                 key={"stage": "Join", "k": k, "class": "arity"}))
    if rc != 0:
        if started is not None and started not in done:
            m = re.search(r"panic: ([^\n]*)", txt)
            ctx.violations.append(vlib.Violation("impl", "Join with %d inputs: the library crashed: %s" % (started, m.group(1) if m else txt.strip()[-200:]),
                                                 case="arity k=%d (every third input carries its index, all inputs closed)" % started, got=txt[-1500:], key={"stage": "Join", "k": started, "class": "arity-crash"}))
        else:
            ctx.broken.append({"kind": "correspondence", "detail": "arity run of Join failed: " + txt[-400:]})


def run(ctx):
    ctx.cov["rule"] = ("script = Join over k inputs with per-input capacities, distinct elements distributed over the inputs, random interleaving of "
                       "sends, closes and receives, final drain. kind=random: k in 0..4, capacities 0..2 (non-trivial = at least two inputs carried an element); "
                       "kind=mid: k in 5..8, kind=wide: k in 17..49 (thorough: 16..65), most inputs carrying 1-2 elements (non-trivial likewise); kind=burst: k in 1..4, the consumer "
                       "stalls until the output buffer is full, then 2..5 sends on one input are made back to back, then drain (non-trivial = at least two sends "
                       "of one burst completed on one input while the output buffer was full); kind=grouped: a random script whose consecutive moves are "
                       "grouped into back-to-back bursts. call: in 3 of 4 scripts the harness overwrites the slice it spread into Join (foreign closed channels "
                       "with marked values / nil) right after Join returned, under GOMAXPROCS(1); the property is evaluated against the channels Join was called with. "
                       "MODEL COMPARISON: scripts with k <= %d and without burst moves are also checked against `oracle lockstep` (mode is invisible to it); scripts "
                       "with k > %d or with burst moves (the PoolRun driver has no burst move and its state set grows with k) go through the DIRECT ORACLE ONLY "
                       "(coverage.direct_oracle_only counts them; they are not in traces_validated_against_impl)" % (MODEL_MAX_K, MODEL_MAX_K))
    ctx.assumptions += ls.ASSUME
    ls.regen_stages(ctx, pipe=True, fork=False)
    ctx.prove()
    if ctx.thorough():
        ctx.leanchecker()
    T = 10 if ctx.thorough() else 1
    if ctx.replay:
        groups = [("replay", [json.load(open(ctx.replay))["case"]])]
    else:
        groups = [("random", [gen_script(ctx.rng) for _ in range(600 * T)]),
                  ("mid", [gen_wide(ctx.rng, MID_K) for _ in range(30 * T)]),
                  ("wide", [gen_wide(ctx.rng, WIDE_K_THOROUGH if ctx.thorough() else WIDE_K) for _ in range(40 * T)]),
                  ("verywide", [gen_verywide(ctx.rng) for _ in range(6 * T)]),
                  ("burst", [gen_burst(ctx.rng) for _ in range(120 * T)]),
                  ("grouped", [gen_grouped(ctx.rng) for _ in range(80 * T)])]
    binp, err = ls.build(ctx)
    if binp is None:
        ctx.broken.append({"kind": "correspondence", "detail": "lock-step harness does not build against /repo/pipe", "log": err})
        return
    # one run per path: the scripts the model can follow (ls.judge) and the ones for the direct oracle only
    tagged = [(kind, s) for kind, scripts in groups for s in scripts]
    for sel, fn in ((False, lambda ss: ls.judge(ctx, ss, evaluate, record=False, binp=binp)), (True, lambda ss: judge_direct(ctx, ss, binp))):
        part = [(kind, s) for kind, s in tagged if direct_only(s) == sel]
        if part:
            account(ctx, [k for k, _ in part], [s for _, s in part], fn([s for _, s in part]))
            ctx.note("%d scripts %s" % (len(part), "through the direct oracle only" if sel else "against the model and the direct oracle"))
    if not ctx.replay:
        arity_phase(ctx, binp)
    # crashes are reported by the shared machinery without the calling convention: say how Join was called
    for v in ctx.violations:
        if v.case and "Join was called" not in v.what and not v.case.startswith("arity"):
            v.what += HOW.get(ls.parse_cfg(v.case).get("mode", "pure"), "")
    if ctx.thorough() and not ctx.replay:
        ls.stress(ctx, ["join"], 15, {"stage": "Join"})
