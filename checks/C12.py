"""C12 — Join merges all inputs: nothing lost or duplicated, per-input order kept, closes after all inputs.
Tie: H lock-step with k inputs (0..4), interleaved sends, closes and receives."""
import json
import vlib, lockstep as ls


def gen_script(rng, maxlen=8):
    k = rng.randrange(0, 5)
    n = rng.randrange(0, maxlen + 1) if k else 0
    xs = rng.sample(range(1, 60), n)
    caps = [rng.choice([0, 1, 2]) for _ in range(k)]
    cfg = "stage=Join k=%d cap=0 caps=%s" % (k, ",".join(map(str, caps)))
    seqs = [[] for _ in range(k)]
    for x in xs:
        seqs[rng.randrange(k)].append(x)
    sends = [["s%d:%d" % (j, x) for x in seqs[j]] + ["c%d" % j] for j in range(k)]
    recvs = ["r0"] * rng.randrange(0, n + 2)
    body = ls.interleave(rng, sends + [recvs])
    return cfg + " | " + " ".join(body + ["r0"] * (n + 3) + ["z"])


def evaluate(script, tr):
    k = int(tr.cfg["k"])
    vs = []
    key = {"stage": "Join", "k": k}
    got = tr.values(0)
    allsent = [x for xs in tr.sent.values() for x in xs]
    for j, xs in tr.sent.items():
        sub = [v for v in got if v in xs]
        if sub != xs[:len(sub)]:
            vs.append(vlib.Violation("impl", "Join: input %d sent %s but its elements came out as %s" % (j, xs, sub), case=script, expected=xs, got=sub, key=key))
    if len(set(got)) != len(got) or any(v not in allsent for v in got):
        vs.append(vlib.Violation("impl", "Join delivered a duplicate or invented element: %s (sent %s)" % (got, allsent), case=script, key=key))
    # closes after - and only after - every input has closed
    nclosed = 0
    for mv, res, _ in tr.steps:
        if mv[0] == "c" and res == "ok":
            nclosed += 1
        if mv == "r0" and res == "closed" and nclosed < k:
            vs.append(vlib.Violation("impl", "Join: output closed while %d of %d inputs were still open" % (k - nclosed, k), case=script, key=key))
            break
    if len(tr.closed_in) == k:
        if 0 not in tr.closed:
            vs.append(vlib.Violation("impl", "Join: output not closed after all %d inputs closed and the output was drained" % k, case=script, key=key))
        elif sorted(got) != sorted(allsent):
            vs.append(vlib.Violation("impl", "Join lost elements: sent %s, delivered %s" % (sorted(allsent), sorted(got)), case=script, key=key))
        for pos, n in tr.census:
            if 0 in tr.closed and n != 0:
                vs.append(vlib.Violation("impl", "Join: %d goroutine(s) alive after close" % n, case=script, key=key))
    return vs


def run(ctx):
    ctx.cov["rule"] = ("script = Join over k in 0..4 inputs with per-input capacities 0..2, distinct elements distributed over the inputs, random interleaving of "
                       "sends, closes and receives, final drain; non-trivial = k >= 2 and at least two inputs carried an element")
    ctx.assumptions += ls.ASSUME
    ls.regen_stages(ctx, pipe=True, fork=False)
    ctx.prove()
    if ctx.thorough():
        ctx.leanchecker()
    if ctx.replay:
        scripts = [json.load(open(ctx.replay))["case"]]
    else:
        scripts = [gen_script(ctx.rng) for _ in range(6000 if ctx.thorough() else 600)]
    trs = ls.judge(ctx, scripts, evaluate, record=False)
    for s, tr in zip(scripts, trs):
        if tr is not None:
            ctx.hist("k", tr.cfg["k"])
            ctx.count(s, nontrivial=len([1 for v in tr.sent.values() if v]) >= 2)
    if ctx.thorough() and not ctx.replay:
        ls.stress(ctx, ["join"], 15, {"stage": "Join"})
