"""C01 — a field lens reads and writes exactly its field and nothing else.
Tie: H (Model/Layout + Model/Hseq + Model/Lens vs the real hseq/optics on generated shapes: the
write window of every derived lens) + direct oracle evaluated by the harness on real memory
(guard-wrapped values, byte diff across Put, Get, the three laws, pointer identity, all other
fields through ordinary selectors)."""
import vlib
from checks import shapes as S


def run(ctx):
    ctx.cov["rule"] = ("cases = one ForProductN/ForSpectrumN derivation (N=1..9, by name or by type) on a generated struct shape, every returned optic "
                       "executed on a guard-wrapped value with byte patterns; plus, per optic whose focus type holds references (pointer, slice, map, interface, arrays/structs of those), one "
                       "valid-value case: real values through the field's selector, Put of a deeply-equal-but-distinct value, of other content, of the zero value, over the zero value, "
                       "field bits / Get / frame compared afterwards (direct oracle only, no model side: the byte-memory model has no identity); "
                       "non-trivial = tuple containing a focus at embedding depth >= 1 or at a non-zero offset, valid-value case whose deeply equal pair are distinct objects; "
                       "distinct by (shape s-expression, request)" + S.TWIN_RULE)
    ctx.assumptions += [S.TWIN_ASSUMPTION, "gc/amd64 struct layout and reflect's field description are modelled (Model/Layout), validated against the compiler on every generated shape (C03 harness)",
                        "memory is a byte map; a value of type A is size(A) bytes; GC, write barriers and memory outside the guard areas are outside the model",
                        "ForProduct1..9/ForSpectrum1..9 are modelled as one list function (deriveN) and exercised at all nine arities on every shape",
                        "derivation by type identifies a type by import path + name (GoType equality stands for String()== && AssignableTo); a fraction of the shapes lists distinct types that reflect prints identically, the decoy before and after the focus, of smaller, larger and equal size - see distribution.colliding_types"]
    S.apply_replay(ctx)
    S.regenerate(ctx)
    ctx.prove()
    S.huge_offset_probe(ctx)
    if ctx.thorough():
        ctx.leanchecker()
    sizes = [60] * 12 if ctx.thorough() else [30] * 4
    if ctx.broken:
        sizes = sizes * 2
    batches = S.run_batches(ctx, "C01", {"lens"}, sizes, ptr_embed=True, seed_tag=1)
    for b in batches:
        if b.error:
            continue
        S.diff_batch(ctx, b, "Model/Lens window vs bytes changed by the real Put")
        for (req, meta), res in zip(b.requests, b.impl):
            sh = b.by_sid[meta["sid"]]
            if meta["kind"] == "shape":
                S.shape_hist(ctx, sh)
                continue
            deep = any(len(sh.listing[i]["path"]) > 1 for i in meta["entries"])
            nonzero = any(w not in ("-", "0,") and not w.startswith("0,") for w in res.split()[1:])
            ctx.count(S.sexpr(sh.type) + "|" + req, nontrivial=deep or nonzero)
            ctx.hist("arity", meta["n"])
            ctx.hist("family", meta["fam"] + "/" + meta["mode"])
            if sh.twins:
                ctx.hist("same_printing_container_derivation", "container unfolded first" if sh.twin_pos == 0 else "after a same-printing container (%s)" % sh.twin_relation)
            ctx.hist("focus_depth", max(len(sh.listing[i]["path"]) for i in meta["entries"]) - 1)
            for i in meta["entries"]:
                t = S.strip(sh.listing[i]["type"])
                ctx.hist("focus_kind", t[1] if t[0] == "prim" else t[0])
            if not res.startswith("ok"):
                ctx.violations.append(vlib.Violation("impl", "deriving a %s for existing fields (%s) panics" % ("Lens" if meta["fam"] == "P" else "Reflector", meta["mode"]),
                                                     case=S.case_of(b, req, meta), expected="ok", got=res, key={"class": "derive-panics"}))
                continue
            # valid-value phase (go/harness/layout/deep.go): every optic whose focus type holds references was also run on real
            # values, incl. a Put of a value deeply equal to but not identical with the field's current one (d) - these
            # cases exist on the implementation side only (the byte-memory model has no notion of identity)
            for tok in (b.chk.get("dpv " + req) or "").split():
                i, k, d = tok.split(":")
                ctx.count(S.sexpr(sh.type) + "|" + req + "|valid-values#" + i, nontrivial=d == "d")
                ctx.hist("valid_value_focus_kind", k)
                ctx.hist("valid_value_deep_equal_pair", "distinct objects" if d == "d" else "bit-identical (chan / zero-size pointee / method interface)")
            verdict = b.chk.get(req)
            if verdict != "ok":
                ctx.violations.append(vlib.Violation("impl", "lens law / frame violated on real memory: %s" % (verdict or "no verdict printed")[:400],
                                                     case=S.case_of(b, req, meta), expected="ok", got=verdict, key={"class": "lens-memory"}))
            elif len(ctx.cov["samples"]) < 4 and deep and meta["n"] >= 3:
                ctx.sample({"request": req, "shape": S.sexpr(sh.type), "impl_windows": res, "direct_oracle": verdict})
