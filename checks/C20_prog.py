"""C20, case kind `prog` (go/harness/pipen/prog.go): several compositions in ONE process.

The property quantifies over the supplied functions only: the function returned by Pipe/PipeN returns
f_N(...f_1(a)), each supplied function applied once, in order - whatever else the process has composed before or
composes afterwards, and whatever the supplied functions are (plain closures, sibling closures of one function
literal, functions returned by PipeN themselves, functions that call the composed function again).  A `prog` line
builds several compositions one after another and calls every one of them right after it was built and again after
all of them exist; the expected line is the plain nesting, computed here (prog_expect) - the Lean oracle's line
protocol has one composition per case, so these cases are judged by the direct oracle alone.

families
  nest   a composed function supplied as first / middle / last step of a further composition, 1..3 levels
  share  one composed function (arities 3, 5..7, 9..15, 17..20 preferred) supplied as a step of 2..4 outer compositions
         built one after another
  sib    2..4 compositions of the same arity whose steps are, position by position, closures of one function literal
         with different captured values (a factory called in a loop); some reuse one closure in several compositions
  rec    a step that re-enters the composed function it is part of (through a variable, base case on the value),
         alone, next to a sibling composition, or inside an outer composition
  mix    random DAGs of 3..6 compositions over all item kinds
"""
P = 1000003
NONPOW = [3, 5, 6, 7, 9, 10, 11, 12, 13, 14, 15, 17, 18, 19, 20]
MAX_DEPTH = 8        # re-entry depth the generator accepts (the harness gives up at 40)
MAX_TRACE = 600      # applications per call the generator accepts


class TooBig(Exception):
    pass


def parse(case):
    """-> (x, defs) with defs[k] = list of items ('L', id, a, b) | ('R', id, a, b, m, k_self) | ('D', k)"""
    w = case.split()
    assert w[0] == "prog" and w[2] == ";"
    x = int(w[1])
    groups, cur = [], []
    for t in w[3:]:
        if t == ";":
            groups.append(cur)
            cur = []
        else:
            cur.append(t)
    groups.append(cur)
    defs, leaves = [], []
    for g in groups:
        n = int(g[0])
        assert len(g) == n + 1 and 2 <= n <= 20
        items = []
        for it in g[1:]:
            if it[0] == "@":
                assert int(it[1:]) < len(defs)
                items.append(("D", int(it[1:])))
            elif it[0] == "=":
                items.append(leaves[int(it[1:]) - 1])
            elif it[0] == "R":
                a, b, m = map(int, it.split(":")[1:])
                leaves.append(("R", len(leaves) + 1, a, b, m, len(defs)))
                items.append(leaves[-1])
            else:
                a, b = map(int, it.split(":"))
                leaves.append(("L", len(leaves) + 1, a, b))
                items.append(leaves[-1])
        defs.append(items)
    return x, defs


def run_def(defs, k, v, tr, st):
    """plain nesting: f_N(...f_1(v)) for the items of definition k; tr collects the ids of the applied functions"""
    for it in defs[k]:
        if it[0] == "D":
            v = run_def(defs, it[1], v, tr, st)
            continue
        tr.append(it[1])
        if len(tr) > st["max_trace"]:
            raise TooBig()
        if it[0] == "L" or v % it[4] == 0:
            v = (it[2] * v + it[3]) % P
        else:
            st["depth"] += 1
            st["deepest"] = max(st["deepest"], st["depth"])
            if st["depth"] > st["max_depth"]:
                raise TooBig()
            y = run_def(defs, it[5], v // it[4], tr, st)
            st["depth"] -= 1
            v = (it[2] * y + it[3]) % P
    return v


def entries(case, max_depth=40, max_trace=10 ** 6):
    """-> (list of expected `r | trace` entries, one per definition; deepest re-entry seen)"""
    x, defs = parse(case)
    out, deepest = [], 0
    for k in range(len(defs)):
        st = {"depth": 0, "deepest": 0, "max_depth": max_depth, "max_trace": max_trace}
        tr = []
        r = run_def(defs, k, 0 if x == -1 else (x + 7 * k) % P, tr, st)
        deepest = max(deepest, st["deepest"])
        out.append("%d | %s" % (r, " ".join(map(str, tr))))
    return out, deepest


def prog_expect(case):
    e, _ = entries(case)
    one = " ; ".join(e)
    return one + " || " + one


def describe(case, got):
    """which definition, which of its two calls, disagrees first"""
    e, _ = entries(case)
    halves = got.split(" || ")
    if len(halves) != 2:
        return "the line is `%s`" % got[:80]
    for phase, h in ((0, halves[0]), (1, halves[1])):
        g = h.split(" ; ")
        for k in range(len(e)):
            if k >= len(g) or g[k] != e[k]:
                when = "right after it was built" if phase == 0 else "after all %d compositions of the case had been built" % len(e)
                return "composition #%d (`%s`) called %s gives `%s`, the plain nesting of the supplied functions gives `%s`" % (
                    k, groups(case)[k], when, (g[k] if k < len(g) else "<missing>")[:120], e[k][:120])
    return "lines differ"


def groups(case):
    return [g.strip() for g in case.split(";")[1:]]


# ------------------------------------------------------------------ generators
def _leaf(rng):
    return "%d:%d" % (rng.randrange(2, 1000), rng.randrange(1, 1000))


def _arity(rng, small=0.0):
    if rng.random() < small:
        return rng.choice([2, 2, 3, 3, 4, 5])
    return rng.choice(NONPOW + NONPOW + [2, 4, 8, 16])


def _pos(rng, n, where):
    if where == "first":
        return 0
    if where == "last" or n == 2:
        return n - 1
    return rng.randrange(1, n - 1)


def _group(rng, n, special=None):
    special = special or {}
    return " ".join([str(n)] + [special.get(i) or _leaf(rng) for i in range(n)])


def _x(rng, k):
    return -1 if k == 0 else rng.randrange(0, P)


def gen_nest(rng, k):
    gs = [_group(rng, _arity(rng))]
    wheres = []
    for lvl in range(rng.choice([1, 1, 2, 3])):
        n = _arity(rng, small=0.5)
        w = rng.choice(["first", "middle", "last"])
        wheres.append(w)
        gs.append(_group(rng, n, {_pos(rng, n, w): "@%d" % lvl}))
    return "prog %d ; %s" % (_x(rng, k), " ; ".join(gs)), {"where": "/".join(wheres), "base": gs[0].split()[0]}


def gen_share(rng, k):
    gs = [_group(rng, _arity(rng))]
    base = 0
    if rng.random() < 0.2:      # the shared function is itself built from a composed function
        n = _arity(rng, small=0.6)
        gs.append(_group(rng, n, {_pos(rng, n, rng.choice(["first", "middle", "last"])): "@0"}))
        base = 1
    where = rng.choice(["first", "first", "middle", "last"])
    for j in range(rng.choice([2, 2, 3, 4])):
        n = _arity(rng, small=0.75)
        w = where if rng.random() < 0.8 else rng.choice(["first", "middle", "last"])
        gs.append(_group(rng, n, {_pos(rng, n, w): "@%d" % base}))
    return "prog %d ; %s" % (_x(rng, k), " ; ".join(gs)), {"where": where, "base": gs[base].split()[0]}


def gen_sib(rng, k):
    n = rng.randrange(2, 21)
    cnt = rng.choice([2, 2, 3, 4])
    gs = [_group(rng, n)]
    for j in range(1, cnt):
        sp = {}
        if rng.random() < 0.3:  # the very same closure supplied to a second composition, at the same or another position
            for _ in range(rng.choice([1, 2])):
                sp[rng.randrange(n)] = "=%d" % (rng.randrange(n) + 1)
        gs.append(_group(rng, n, sp))
    return "prog %d ; %s" % (_x(rng, k), " ; ".join(gs)), {"where": "-", "base": str(n)}


def gen_rec(rng, k):
    for attempt in range(200):
        n = _arity(rng, small=0.4)
        w = rng.choice(["first", "middle", "middle", "last"])
        r = "R:%d:%d:%d" % (rng.randrange(2, 1000), rng.randrange(1, 1000), rng.choice([2, 2, 3, 4]))
        gs = [_group(rng, n, {_pos(rng, n, w): r})]
        shape = rng.choice(["alone", "sibling", "outer", "outer"])
        if shape == "sibling":
            gs.insert(rng.randrange(2), _group(rng, n))
        elif shape == "outer":
            m = _arity(rng, small=0.7)
            gs.append(_group(rng, m, {_pos(rng, m, rng.choice(["first", "middle", "last"])): "@0"}))
        case = "prog %d ; %s" % (rng.randrange(1, P), " ; ".join(gs))
        try:
            _, deepest = entries(case, MAX_DEPTH, MAX_TRACE)
        except TooBig:
            continue
        if deepest >= 1:
            return case, {"where": w, "base": str(n), "depth": deepest, "shape": shape}
    raise RuntimeError("no terminating re-entrant case found")


def gen_mix(rng, k):
    for attempt in range(200):
        gs, nleaf = [], 0
        for d in range(rng.randrange(3, 7)):
            n = _arity(rng, small=0.6)
            items, rec = [], False
            for i in range(n):
                u = rng.random()
                if d > 0 and u < 0.2:
                    items.append("@%d" % rng.randrange(d))
                elif nleaf > 0 and u < 0.3:
                    items.append("=%d" % (rng.randrange(nleaf) + 1))
                elif not rec and u < 0.34:
                    rec = True
                    nleaf += 1
                    items.append("R:%d:%d:%d" % (rng.randrange(2, 1000), rng.randrange(1, 1000), rng.choice([2, 3, 4])))
                else:
                    nleaf += 1
                    items.append(_leaf(rng))
            gs.append(" ".join([str(n)] + items))
        case = "prog %d ; %s" % (rng.randrange(1, P), " ; ".join(gs))
        try:
            _, deepest = entries(case, MAX_DEPTH, MAX_TRACE)
        except TooBig:
            continue
        return case, {"where": "-", "base": gs[0].split()[0], "depth": deepest}
    raise RuntimeError("no mixed case found")


FAMILIES = [("nest", gen_nest), ("share", gen_share), ("sib", gen_sib), ("rec", gen_rec), ("mix", gen_mix)]


def gen_cases(rng, per_family):
    """-> list of (case line, family, info)"""
    out = []
    for name, g in FAMILIES:
        for k in range(per_family):
            c, info = g(rng, k)
            out.append((c, name, info))
    return out
