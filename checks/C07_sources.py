"""C07, share of the source stages: Emit under Lift/Try for every failing subset of the first five
indices, Unfold under Lift (fail-fast only is claimed for Unfold; its Try behaviour — the seed is
overwritten by the value returned with the error and re-sent — is modelled in Go/Sources.lean and
checked against the model only). Lock-step on the virtual clock against `oracle timed`."""
import itertools
import lockstep as ls
from checks import C11, C07_openin


def emit_case(rng, mode, cap, fail, order, n=5, freq=1000):
    mv = []
    a, b = ("r0", "r1") if order == "values-first" else ("r1", "r0")
    for k in range(n + 1):
        mv += ["t%d" % freq]
        if order == "lazy" and k % 2 == 0:
            continue
        mv += [a, b] if order != "lazy" else ["r0", "r1", "r0", "r1"]
    mv += ["r0", "r1", "r0", "r1", "v", "z"]
    if mode == "try":
        mv += ["x"] + C11.tail_after_cancel(cap, freq, "Emit")
    return C11.emit_cfg(cap, freq, mode, fail, "c07-" + order) + " | " + " ".join(mv)


def gen(rng, thorough):
    sc = []
    caps = (0, 1, 3) if not thorough else (0, 1, 2, 3)
    for mode in ("lift", "try"):
        for cap in caps:
            for mask in itertools.product([0, 1], repeat=5):
                fail = tuple(i for i, m in enumerate(mask) if m)
                orders = ("values-first", "errors-first", "lazy") if thorough else (rng.choice(["values-first", "errors-first"]), "lazy")
                for order in orders:
                    sc.append(emit_case(rng, mode, cap, fail, order))
    for cap in caps:
        for fn in (1, 2, 3):
            for seed in (1, 5):
                vals = C11.unfold_values(fn, seed, 5)
                for mask in itertools.product([0, 1], repeat=4 if thorough else 3):
                    fail = tuple(v for v, m in zip(vals, mask) if m)
                    for mode in ("lift", "try"):
                        n = cap + 8
                        sc.append(C11.unfold_script(rng, cap, fn, seed, mode, fail, n, cancel_at=n if mode == "try" else None, sched="c07"))
    # kind of the error the failing calls return (cfg key ek=, go/harness/lockstep/errkinds_test.go): about half of the
    # scripts keep plain errors, the others return errors wrapping context.Canceled / context.DeadlineExceeded while the
    # pipeline context is alive; tokens and therefore the model comparison (`oracle timed`) are unchanged
    return [C07_openin.with_kind(s, C07_openin.pick_kind(rng)) for s in sc]


def run_extra(ctx):
    scripts = gen(ctx.rng, ctx.thorough())
    trs = ls.judge(ctx, scripts, C11.evaluate, sub="timed", record=False)
    for s, tr in zip(scripts, trs):
        if tr is not None:
            c = C11.cfg_of(tr)
            ctx.hist("mode", c["mode"])
            ctx.hist("error_kind", tr.cfg.get("ek", "plain"))
            ctx.hist("failing", len(c["fail"]))
            ctx.count(s, nontrivial=len(c["fail"]) > 0 and (bool(tr.recv.get(0)) or bool(tr.recv.get(1))))
