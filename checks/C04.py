"""C04 — composed optics are lawful and touch only their component foci.

Tie: T (Gen/Optics.lean regenerated from optics/{iso,shape,lens}.go; theorems of Props/C04.lean) +
H (generated Go scenarios on generated struct types run against the real optics package vs. the
Lean oracle running Model/Optics.lean on an abstract record model) + direct oracle (this file
computes the expected whole-value snapshots from the property itself: only the foci change,
values are positional, the round trip restores)."""
import json, os, re, subprocess
from concurrent.futures import ThreadPoolExecutor
import vlib

REPL = {"github.com/fogfish/golem/hseq": vlib.REPO + "/hseq", "github.com/fogfish/golem/optics": vlib.REPO + "/optics"}

# ---------------------------------------------------------------- Go types and values


class Ty:
    def __init__(self, name, kind, under=None, fields=None, key=None, val=None):
        self.name, self.kind, self.under, self.fields, self.key, self.val = name, kind, under, fields, key, val

    def __repr__(self):
        return self.name


class Field:
    def __init__(self, name, ty, embedded=False):
        self.name, self.ty, self.embedded = name, ty, embedded


def scal(name, kind, under=None):
    return Ty(name, kind, under=under or name)


INT, I64, I32, I8 = scal("int", "int"), scal("int64", "int"), scal("int32", "int"), scal("int8", "int")
STR, F64, F32, BYT, BOO = scal("string", "str"), scal("float64", "float"), scal("float32", "float"), scal("[]byte", "bytes"), scal("bool", "bool")
MYS, MYS2 = scal("MyS", "str", "string"), scal("MyS2", "str", "string")
MYB, MYB2 = scal("MyB", "bytes", "[]byte"), scal("MyB2", "bytes", "[]byte")
MYI, MYJ = scal("MyI", "int", "int"), scal("MyJ", "int", "int")
MYF, MYG = scal("MyF", "float", "float64"), scal("MyG", "float", "float64")
NAMED = [MYS, MYS2, MYB, MYB2, MYI, MYJ, MYF, MYG]
SCALARS = [INT, INT, I64, I32, I8, STR, STR, F64, F32, BYT, BOO, MYS, MYS2, MYB, MYI, MYI, MYJ, MYF, MYG]
WIDEINT = {"int", "int64", "MyI", "MyJ"}
# BiMapS/B/I/F families: types over one underlying type (conversions are then mutually inverse)
# (I: also widths that differ — the conversions stay mutually inverse on the values used: the stored type is never wider
# than the view type, and int8 is only ever the stored type)
FAMILY = {"S": [STR, MYS, MYS2], "B": [BYT, MYB, MYB2], "I": [INT, MYI, MYJ, I64, I32], "F": [F64, MYF, MYG]}
WIDTH = {"int8": 1, "int32": 4}

PRINTER = {"int": "aInt", "str": "aStr", "bytes": "aBytes", "float": "aFloat", "bool": "aBool"}


def pr(ty):
    if ty.kind == "struct":
        return "snap_" + ty.name
    return PRINTER[ty.kind]


class EB(bytes):
    """an empty but non-nil byte slice (b"" stands for the nil slice)"""


NEGZERO = -0.0


def is_negzero(v):
    import math
    return isinstance(v, float) and v == 0 and math.copysign(1.0, v) < 0


def rnd(rng, ty):
    k = ty.kind
    # zero-like values that a content-level comparison does not tell from the zero value: an empty non-nil slice, -0.0
    if k == "bytes" and rng.random() < 0.12:
        return EB()
    if k == "float" and rng.random() < 0.1:
        return NEGZERO
    if k == "int":
        return rng.randrange(1, 120) if ty.name == "int8" else rng.randrange(1, 1000)
    if k == "str":
        return "".join(rng.choice("abcdefghkmnpqrstuvwxyz") for _ in range(rng.randrange(1, 4)))
    if k == "bytes":
        return bytes(rng.randrange(1, 256) for _ in range(rng.randrange(1, 4)))
    if k == "float":
        if ty.under == "float64" and rng.random() < 0.5:
            # not representable in float32: a conversion detour through float32 changes the value
            return rng.randrange(1, 4000) / 10.0 + 0.1
        return rng.randrange(1, 400) / 4.0
    if k == "bool":
        return rng.random() < 0.5
    if k == "struct":
        return [rnd(rng, f.ty) for f in ty.fields]
    raise ValueError(k)


def zero(ty):
    return {"int": 0, "str": "", "bytes": b"", "float": 0.0, "bool": False}.get(ty.kind) if ty.kind != "struct" else [zero(f.ty) for f in ty.fields]


def tok(ty, v):
    k = ty.kind
    if k == "int":
        return str(v)
    if k == "str":
        return '"%s"' % v
    if k == "bytes":
        return "xe" if isinstance(v, EB) else "x" + v.hex()
    if k == "float":
        if is_negzero(v):
            return "negzero"
        return str(int(v)) if v == int(v) else repr(v)
    if k == "bool":
        return "true" if v else "false"
    return "(r " + " ".join(tok(f.ty, x) for f, x in zip(ty.fields, v)) + ")"


def golit(ty, v):
    k = ty.kind
    if k == "struct":
        return ty.name + "{" + ", ".join("%s: %s" % (f.name, golit(f.ty, x)) for f, x in zip(ty.fields, v)) + "}"
    if k == "int":
        s = str(v)
    elif k == "str":
        s = '"%s"' % v
    elif k == "bytes":
        s = "[]byte{}" if isinstance(v, EB) else ("[]byte{" + ", ".join(str(b) for b in v) + "}" if v else "[]byte(nil)")
    elif k == "float":
        s = "math.Copysign(0, -1)" if is_negzero(v) else repr(float(v))
    else:
        s = "true" if v else "false"
    return "%s(%s)" % (ty.name, s)


def getp(v, path):
    for i in path:
        v = v[i]
    return v


def setp(v, path, x):
    if not path:
        return x
    v = list(v)
    v[path[0]] = setp(v[path[0]], path[1:], x)
    return v


def overlap(p, q):
    n = min(len(p), len(q))
    return p[:n] == q[:n]


class World:
    """The struct types of one generated Go file."""

    def __init__(self, rng):
        self.rng = rng
        self.types = []
        self.by_level = {}
        self.embnames = {}  # type name -> set of names in its flattened listing (for Go-side uniqueness)
        n = 0
        for level in range(0, 5):
            self.by_level[level] = []
            for _ in range(4 if level == 0 else 3):
                t = self.mk("T%d" % n, level)
                n += 1
                self.types.append(t)
                self.by_level[level].append(t)
        # a wide flat type with few distinct field types: same-typed neighbours for Shape9
        a, b = rng.sample([INT, STR, MYI, F64, I64, MYS], 2)
        w = Ty("W0", "struct", fields=[Field("W0_%d" % i, rng.choice([a, a, b])) for i in range(11)])
        self.embnames["W0"] = {f.name for f in w.fields}
        self.types.append(w)
        self.by_level[0].append(w)

    def mk(self, name, level):
        rng = self.rng
        fields = []
        names = set()
        nsc = rng.randrange(2, 7) if level == 0 else rng.randrange(1, 5)
        pool = rng.sample(SCALARS, rng.randrange(2, 5))  # few types -> repeated neighbours
        specs = [("s", rng.choice(pool)) for _ in range(nsc)]
        if level > 0:
            for j in range(rng.randrange(1, 3)):
                lv = level - 1 if (j == 0 or rng.random() < 0.6) else rng.randrange(0, level)
                specs.append(("t", rng.choice(self.by_level[lv])))
        rng.shuffle(specs)
        for i, (k, ty) in enumerate(specs):
            if k == "s":
                fields.append(Field("%s_%d" % (name, i), ty))
                names.add(fields[-1].name)
            else:
                sub = self.embnames[ty.name] | {ty.name}
                if rng.random() < 0.5 and not (sub & names):
                    fields.append(Field(ty.name, ty, embedded=True))
                    names |= sub
                else:
                    fields.append(Field("%s_%d" % (name, i), ty))
                    names.add(fields[-1].name)
        t = Ty(name, "struct", fields=fields)
        self.embnames[name] = names
        return t

    # ---- promoted-field family (added for joins whose component lenses carry a non-zero hseq RootOffs)
    def add_promoted(self, k):
        """One family of struct types in which fields are PROMOTED from value-embedded structs that
        do not sit at offset 0, surrounded by same-typed decoy fields on every level:
          P<k>M{x..}                      the embedded leaf struct (focus + same-typed neighbours)
          P<k>N{x.. P<k>M x..}            embeds M behind leading fields (second embedding level)
          P<k>I1{x.. P<k>M x..}           intermediate type, fields of M promoted once
          P<k>I2{x.. P<k>N x..}           intermediate type, fields of M promoted twice (through N)
          P<k>E{x.. a,b I1  c,d I2 ..}    carrier of intermediate-typed fields, itself embedded in R
          P<k>O{x.. a,b I1  c,d I2 ..}    outer type: two fields of each intermediate type (outer-side decoys)
          P<k>R{x.. P<k>E  a,b O  x..}    root: outer lenses on fields promoted from E, and on O (nested joins)
        x = scalar fields, mostly of ONE type X per family (a misplaced access then lands on a
        well-typed neighbour and yields a clean wrong value), a few of another type Y.
        Returns the types usable as roots of a chain."""
        rng = self.rng
        X = rng.choice([INT, INT, STR, I64, MYI, F64, MYS, I32, BYT, I8])
        Y = rng.choice([t for t in SCALARS if t.name != X.name])

        def struct(suffix, specs):
            name = "P%d%s" % (k, suffix)
            fields, names = [], set()
            for i, (kind, ty) in enumerate(specs):
                if kind == "e":
                    fields.append(Field(ty.name, ty, embedded=True))
                    names |= self.embnames[ty.name] | {ty.name}
                else:
                    fields.append(Field("%s_%d" % (name, i), ty))
                    names.add(fields[-1].name)
            t = Ty(name, "struct", fields=fields)
            self.embnames[name] = names
            self.types.append(t)
            return t

        def xs(lo, hi):
            return [("s", Y if rng.random() < 0.15 else X) for _ in range(rng.randrange(lo, hi + 1))]

        def around(mid, lead_lo=1):
            # leading fields put everything in `mid` at a non-zero offset (lead_lo=0: sometimes none, the control)
            lead = xs(lead_lo, 2)
            rest = mid + xs(0, 2)
            if len(rest) > 1 and rng.random() < 0.5:
                rng.shuffle(rest)
            return lead + rest

        M = struct("M", xs(2, 3))
        N = struct("N", around([("e", M)], 0 if rng.random() < 0.2 else 1))
        I1 = struct("I1", around([("e", M)], 0 if rng.random() < 0.15 else 1))
        I2 = struct("I2", around([("e", N)], 0 if rng.random() < 0.15 else 1))
        E = struct("E", around([("n", I1), ("n", I2), ("n", I1), ("n", I2)], 0))
        O = struct("O", around([("n", I1), ("n", I1), ("n", I2), ("n", I2)], 0))
        R = struct("R", around([("e", E), ("n", O), ("n", O)]))
        self.promoted = getattr(self, "promoted", []) + [dict(roots=[R, O, E, I2], X=X)]
        return self.promoted[-1]

    def flatten(self, ty, prefix=()):
        """hseq's listing: pre-order, value-embedded structs are listed and then descended into."""
        out = []
        for i, f in enumerate(ty.fields):
            out.append((f.name, f.ty, prefix + (i,)))
            if f.embedded:
                out += self.flatten(f.ty, prefix + (i,))
        return out

    def go_decls(self):
        out = []
        for t in NAMED:
            out.append("type %s %s" % (t.name, t.under))
        for t in self.types:
            out.append("type %s struct {" % t.name)
            for f in t.fields:
                out.append("\t%s" % f.ty.name if f.embedded else "\t%s %s" % (f.name, f.ty.name))
            out.append("}")
            out.append("func snap_%s(v %s) string {\n\treturn \"(r \" + strings.Join([]string{%s}, \" \") + \")\"\n}" % (
                t.name, t.name, ", ".join("%s(v.%s)" % (pr(f.ty), f.name) for f in t.fields)))
        return "\n".join(out) + "\n"


# ---------------------------------------------------------------- optic expressions


def x_leaf(o):
    """the BiMapS/B/I/F leaf of an optic tree, if it has one"""
    if o[0] == "x":
        return o
    if o[0] == "f":
        return None
    for c in o[1:]:
        if isinstance(c, tuple):
            r = x_leaf(c)
            if r is not None:
                return r
    return None


def o_src(o):
    return o[1] if o[0] in ("f", "x") else o_src(o[1])


def o_dst(o):
    k = o[0]
    if k == "f":
        return o[4]
    if k == "x":
        return o[5]
    if k == "j":
        return o_dst(o[2])
    if k == "b":
        return o_dst(o[1])
    return INT  # g, s


def sel_args(sel):
    return '"%s"' % sel[1] if sel[0] == "name" else ""


def o_go(o):
    k = o[0]
    if k == "f":
        return "optics.ForProduct1[%s, %s](%s)" % (o[1].name, o[4].name, sel_args(o[2]))
    if k == "x":
        return "optics.BiMap%s[%s, %s, %s](%s)" % (o[6], o[1].name, o[4].name, o[5].name, sel_args(o[2]))
    if k == "j":
        return "optics.Join[%s, %s, %s](%s, %s)" % (o_src(o).name, o_dst(o[1]).name, o_dst(o).name, o_go(o[1]), o_go(o[2]))
    a = o_dst(o[1]).name
    if k == "b":
        return "optics.BiMap[%s, %s, %s](%s, func(v %s) %s { return v + (%d) }, func(v %s) %s { return v - (%d) })" % (
            o_src(o).name, a, a, o_go(o[1]), a, a, o[2], a, a, o[2])
    if k == "g":
        return "optics.Getter[%s, %s, int](%s, func(v %s) int { return (%d)*int(v) + (%d) })" % (o_src(o).name, a, o_go(o[1]), a, o[2], o[3])
    if k == "s":
        return "optics.Setter[%s, %s, int](%s, func(v int) %s { return %s((%d)*v + (%d)) })" % (o_src(o).name, a, o_go(o[1]), a, a, o[2], o[3])
    raise ValueError(k)


def o_line(o):
    k = o[0]
    if k == "f":
        return "(f %s)" % " ".join(map(str, o[3]))
    if k == "x":
        return "(x (f %s))" % " ".join(map(str, o[3]))
    if k == "j":
        return "(j %s %s)" % (o_line(o[1]), o_line(o[2]))
    if k == "b":
        return "(b %s %d)" % (o_line(o[1]), o[2])
    return "(%s %s %d %d)" % (k, o_line(o[1]), o[2], o[3])


def o_sem(o):
    """lens-like optic -> (cell path, K): view = stored + K (ints), the property's reading."""
    k = o[0]
    if k in ("f", "x"):
        return tuple(o[3]), 0
    if k == "j":
        p, k1 = o_sem(o[1])
        q, k2 = o_sem(o[2])
        assert k1 == 0
        return p + q, k2
    if k == "b":
        p, k1 = o_sem(o[1])
        return p, k1 + o[2]
    raise ValueError(k)


def o_depth(o):
    return 1 if o[0] in ("f", "x") else (o_depth(o[1]) + o_depth(o[2]) if o[0] == "j" else o_depth(o[1]))


class Gen:
    def __init__(self, rng, world):
        self.rng, self.w = rng, world
        self.roots = [t for lv in range(0, 5) for t in world.by_level[lv]]

    def pick_sel(self, root, entry):
        name, ty, path = entry
        first = next(e for e in self.w.flatten(root) if e[1].name == ty.name)
        if first[2] == path and self.rng.random() < 0.3:
            return ("type",)
        return ("name", name)

    def leaf(self, root, entry):
        return ("f", root, self.pick_sel(root, entry), list(entry[2]), entry[1])

    def leaves(self, root, depth, want=None):
        """leaf lenses root -> ... of the requested depth (shorter when no struct field is left);
        `want(ty)` filters the final focus type."""
        rng, cur, out = self.rng, root, []
        for i in range(depth):
            es = self.w.flatten(cur)
            last = i == depth - 1
            if not last:
                cand = [e for e in es if e[1].kind == "struct"]
                if not cand:
                    last = True
            if last:
                cand = [e for e in es if want is None or want(e[1])]
                if not cand:
                    return None
            e = rng.choice(cand)
            out.append(self.leaf(cur, e))
            cur = e[1]
            if last:
                break
        return out

    def tree(self, ls):
        if len(ls) == 1:
            return ls[0]
        k = self.rng.randrange(1, len(ls))
        return ("j", self.tree(ls[:k]), self.tree(ls[k:]))

    def chain(self, root, depth, want=None):
        ls = self.leaves(root, depth, want)
        return None if ls is None else self.tree(ls)

    def root_of_level(self, minlevel):
        return self.rng.choice([t for lv in range(minlevel, 5) for t in self.w.by_level[lv] if t.name != "W0"] or self.roots)

    # ---- scenarios: dict(kind, line, go, expect, hist)
    def ops_lens(self, root, o, s0, kind):
        """ops over a Lens[root, B]; returns (ops text, go statements, expected outputs)."""
        rng = self.rng
        B = o_dst(o)
        top = o[0] if o[0] in ("g", "s") else "l"
        path, K = o_sem(o[1] if top != "l" else o)
        stored_ty = o_dst(o[1]) if top != "l" else B
        go, ops, exp = [], [], []
        s = s0

        def view(s):
            x = getp(s, path)
            if top == "g":
                return o[2] * (x + K) + o[3]
            if top == "s":
                return 0
            return x + K if K else x

        def put(s, v):
            if top == "g":
                return s
            if top == "s":
                return setp(s, path, o[2] * v + o[3] - K)
            return setp(s, path, v - K if K else v)

        seq = ["g", "p", "g", "p", "g", "gp"] if rng.random() < 0.5 else ["p", "g", "gp", "p", "g"]
        for op in seq:
            if op == "g":
                ops.append("g")
                go.append("out = append(out, %s(l.Get(&s)))" % pr(B))
                exp.append(tok(B, view(s)))
            elif op == "gp":
                ops.append("gp")
                go.append("{ r := l.Put(&s, l.Get(&s)); out = append(out, same(r == &s)+%s(s)) }" % pr(root))
                s = put(s, view(s))
                exp.append("same:" + tok(root, s))
            else:
                if top in ("g", "s") or K:
                    v = rng.randrange(1, 500)
                elif x_leaf(o) is not None and x_leaf(o)[6] == "I":
                    v = rnd(rng, x_leaf(o)[4])  # a value of the stored type (it fits the view type, which is as wide)
                else:
                    v = rnd(rng, B)
                ops.append("p " + tok(B, v))
                go.append("{ r := l.Put(&s, %s); out = append(out, same(r == &s)+%s(s)) }" % (golit(B, v), pr(root)))
                s = put(s, v)
                exp.append("same:" + tok(root, s))
        return " ".join(ops), go, exp

    def scen_optic(self, flavour):
        rng = self.rng
        for _ in range(200):
            if flavour == "join":
                depth = rng.choice([1, 2, 2, 3, 3, 4, 4])
                root = self.root_of_level(max(0, depth - 1))
                o = self.chain(root, depth)
            else:
                depth = rng.choice([1, 1, 2, 3])
                root = self.root_of_level(max(0, depth - 1))
                if flavour == "x":
                    fam = rng.choice("SBIF")
                    names = {t.name for t in FAMILY[fam]} | ({"int8"} if fam == "I" else set())
                    ls = self.leaves(root, depth, lambda t: t.name in names)
                    if ls is None:
                        continue
                    lf = ls[-1]
                    B = rng.choice([t for t in FAMILY[fam] if t.name != lf[4].name and WIDTH.get(t.name, 8) >= WIDTH.get(lf[4].name, 8)])
                    ls[-1] = ("x", lf[1], lf[2], lf[3], lf[4], B, fam)
                    o = self.tree(ls)
                else:
                    o = self.chain(root, depth, lambda t: t.name in WIDEINT)
                    if o is None:
                        continue
                    if flavour in ("b", "bg", "bs") or rng.random() < 0.3:
                        if o[0] == "j" and rng.random() < 0.5:
                            # BiMap on the inner lens of the outermost Join
                            inner = o[2]
                            if inner[0] == "j":
                                o = ("b", o, rng.randrange(-40, 40) or 7)
                            else:
                                o = ("j", o[1], ("b", inner, rng.randrange(-40, 40) or 7))
                        else:
                            o = ("b", o, rng.randrange(-40, 40) or 7)
                    if flavour in ("g", "bg"):
                        o = ("g", o, rng.randrange(2, 6), rng.randrange(-9, 10))
                    elif flavour in ("s", "bs"):
                        o = ("s", o, rng.randrange(2, 6), rng.randrange(-9, 10))
            if o is None:
                continue
            s0 = rnd(rng, root)
            ops, go, exp = self.ops_lens(root, o, s0, flavour)
            body = ["s := %s" % golit(root, s0), "l := %s" % o_go(o)] + go
            return dict(kind="O", flavour=flavour, depth=o_depth(o), line="O %s | %s | %s" % (o_line(o), tok(root, s0), ops),
                        go=body, expect=";".join(exp))
        return None

    def scen_dupname(self, k):
        """D<k>M{g τ; h τ}; D<k>{a σ; g τ; D<k>M; z τ} — `g` names the struct's own member (position 1), the promoted one is
        shadowed; by type the first τ is `g` too. Three scenarios: the lens by name, by type, and Shape2 by names (g, z)."""
        rng = self.rng
        tau = rng.choice([INT, STR, I64, MYI, MYS, F64])
        sig = rng.choice([t for t in SCALARS if t.name != tau.name])
        M = Ty("D%dM" % k, "struct", fields=[Field("D%d_g" % k, tau), Field("D%d_h" % k, tau)])
        R = Ty("D%d" % k, "struct", fields=[Field("D%d_a" % k, sig), Field("D%d_g" % k, tau), Field(M.name, M, embedded=True), Field("D%d_z" % k, tau)])
        self.w.embnames[M.name] = {f.name for f in M.fields}
        self.w.embnames[R.name] = {f.name for f in R.fields} | self.w.embnames[M.name]
        self.w.types += [M, R]
        out = []
        for sel in (("name", "D%d_g" % k), ("type",)):
            o = ("f", R, sel, [1], tau)
            s0 = rnd(rng, R)
            ops, go, exp = self.ops_lens(R, o, s0, "dup")
            body = ["s := %s" % golit(R, s0), "l := %s" % o_go(o)] + go
            out.append(dict(kind="O", flavour="dupname", depth=o_depth(o), line="O %s | %s | %s" % (o_line(o), tok(R, s0), ops), go=body, expect=";".join(exp)))
        return out

    def pjoin_chains(self, fam):
        """every chain of 2..4 leaf lenses from a root of the family to a scalar field promoted from a
        value-embedded struct, with the attributes the scenarios are stratified by"""
        if "chains" in fam:
            return fam["chains"]

        def walk(cur, left):
            for e in self.w.flatten(cur):
                if e[1].kind != "struct":
                    if len(e[2]) >= 2:
                        yield [(cur, e)]
                elif left > 1:
                    for c in walk(e[1], left - 1):
                        yield [(cur, e)] + c
        out = []
        for root in fam["roots"]:
            for ls in walk(root, 4):
                if len(ls) < 2:
                    continue
                cur, last = ls[-1]
                out.append(dict(
                    ls=ls, root=root, leaves=len(ls), embed_depth=len(last[2]) - 1,
                    inner_offset_nonzero=any(i != 0 for i in last[2][:-1]),
                    outer_promoted=sum(1 for c, e in ls[:-1] if len(e[2]) >= 2),
                    outer_embedded_struct=sum(1 for c, e in ls[:-1] if len(e[2]) == 1 and c.fields[e[2][0]].embedded),
                    same_typed_decoys=sum(1 for x in self.w.flatten(cur) if x[1].name == last[1].name) - 1))
        fam["chains"] = out
        return out

    def scen_pjoin(self, fam):
        """Join chains (2..4 leaf lenses, any association) whose LAST lens focuses a field promoted
        from a value-embedded struct (embedding depth 1 or 2) and whose other lenses focus plain,
        promoted or embedded-struct-typed fields; same-typed decoys surround every focus.  The
        expected snapshots are the property's reading (ops_lens): exactly the cell at the joined
        path is read and written."""
        rng = self.rng
        cs = self.pjoin_chains(fam)
        if not cs:
            return None
        # stratified: aim at a combination of attributes, drop the aims one by one when the family has no such chain
        aims = [("inner_offset_nonzero", lambda c, v=rng.random() < 0.9: c["inner_offset_nonzero"] or not v),
                ("embed_depth", lambda c, v=rng.choice([1, 2]): c["embed_depth"] == v),
                ("leaves", lambda c, v=rng.choice([2, 2, 3, 3, 4]): c["leaves"] == v),
                ("decoys", lambda c, v=rng.random() < 0.8: c["same_typed_decoys"] >= 1 or not v),
                ("outer_promoted", lambda c, v=rng.choice([0, 0, 1]): min(c["outer_promoted"], 1) == v),
                ("outer_embedded_struct", lambda c, v=rng.choice([0, 0, 1]): min(c["outer_embedded_struct"], 1) == v)]
        while True:
            cand = [c for c in cs if all(f(c) for _, f in aims)]
            if cand or not aims:
                break
            aims.pop()
        c = rng.choice(cand)
        root = c["root"]
        o = self.tree([self.leaf(cur, e) for cur, e in c["ls"]])
        flavour = "pjoin"
        if o_dst(o).name in WIDEINT and rng.random() < 0.2:
            o = ("b", o, rng.randrange(-40, 40) or 7)
            flavour = "pjoin+b"
        s0 = rnd(rng, root)
        ops, go, exp = self.ops_lens(root, o, s0, flavour)
        body = ["s := %s" % golit(root, s0), "l := %s" % o_go(o)] + go
        s = dict(kind="O", flavour=flavour, depth=o_depth(o), line="O %s | %s | %s" % (o_line(o), tok(root, s0), ops),
                 go=body, expect=";".join(exp))
        for k in PJ_KEYS:
            s[k] = c[k[3:]]
        return s

    def scen_shape(self, n, same_typed):
        rng = self.rng
        for _ in range(300):
            root = self.w.types[-1] if (same_typed and rng.random() < 0.5) else rng.choice(self.roots)
            es = self.w.flatten(root)
            if not same_typed and rng.random() < 0.6:
                # mixed types, derivable by type: first occurrence of each type only
                seen, fs = set(), []
                for e in es:
                    if e[1].name not in seen:
                        seen.add(e[1].name)
                        fs.append(e)
                es = fs
            rng.shuffle(es)
            chosen = []
            for e in es:
                if all(not overlap(e[2], c[2]) for c in chosen):
                    if same_typed and chosen and e[1].name != chosen[0][1].name and rng.random() < 0.7:
                        continue
                    chosen.append(e)
                if len(chosen) == n:
                    break
            if len(chosen) < n:
                continue
            tys = [e[1].name for e in chosen]
            nsame = n - len(set(tys))
            if same_typed and nsame == 0:
                continue
            listing = self.w.flatten(root)
            firsts = all(next(x for x in listing if x[1].name == e[1].name)[2] == e[2] for e in chosen)
            bytype = nsame == 0 and firsts and rng.random() < 0.7
            tps = ", ".join([root.name] + tys)
            attrs = "" if bytype else ", ".join('"%s"' % e[0] for e in chosen)
            s0 = rnd(rng, root)
            s = s0
            go = ["s := %s" % golit(root, s0), "l := optics.ForShape%d[%s](%s)" % (n, tps, attrs)]
            ops, exp = [], []
            vars_ = ["v%d" % i for i in range(n)]
            for op in rng.choice([["g", "p", "g"], ["p", "g", "p", "g"]]):
                if op == "g":
                    ops.append("g")
                    go.append("{ %s := l.Get(&s); out = append(out, strings.Join([]string{%s}, \",\")) }" % (
                        ", ".join(vars_), ", ".join("%s(%s)" % (pr(e[1]), v) for e, v in zip(chosen, vars_))))
                    exp.append(",".join(tok(e[1], getp(s, e[2])) for e in chosen))
                else:
                    vs = [rnd(rng, e[1]) for e in chosen]
                    ops.append("p " + " ".join(tok(e[1], v) for e, v in zip(chosen, vs)))
                    go.append("{ r := l.Put(&s, %s); out = append(out, same(r == &s)+%s(s)) }" % (
                        ", ".join(golit(e[1], v) for e, v in zip(chosen, vs)), pr(root)))
                    for e, v in zip(chosen, vs):
                        s = setp(s, e[2], v)
                    exp.append("same:" + tok(root, s))
            line = "S %d %s | %s | %s" % (n, " ".join("(f %s)" % " ".join(map(str, e[2])) for e in chosen), tok(root, s0), " ".join(ops))
            return dict(kind="S", arity=n, nsame=nsame, bytype=bytype, line=line, go=go, expect=";".join(exp))
        return None

    def reach(self, root, maxdepth=3):
        """all (leaf list, path, focus type) reachable from root by chains of length <= maxdepth"""
        out = []

        def go(cur, leaves, path, d):
            for e in self.w.flatten(cur):
                ls = leaves + [(cur, e)]
                out.append((ls, path + e[2], e[1]))
                if e[1].kind == "struct" and d + 1 < maxdepth:
                    go(e[1], ls, path + e[2], d + 1)
        go(root, [], (), 0)
        return out

    def lensy(self, ls):
        o = self.tree([self.leaf(cur, e) for cur, e in ls])
        if o_dst(o).name in WIDEINT and self.rng.random() < 0.25:
            o = ("b", o, self.rng.randrange(-30, 30) or 5)
        return o

    def scen_morph(self, single):
        rng = self.rng
        for _ in range(100):
            S, T = rng.sample([t for t in self.roots], 2)
            rs, rt = self.reach(S), self.reach(T)
            common = sorted({r[2].name for r in rs} & {r[2].name for r in rt})
            if not common:
                continue
            nd = 1 if single else rng.randrange(1, 6)
            distinct = []
            for _ in range(nd * 6):
                tyn = rng.choice(common)
                a = rng.choice([r for r in rs if r[2].name == tyn])
                b = rng.choice([r for r in rt if r[2].name == tyn])
                if all(not overlap(a[1], d[0][1]) and not overlap(b[1], d[1][1]) for d in distinct):
                    distinct.append((a, b, self.lensy(a[0]), self.lensy(b[0])))
                if len(distinct) == nd:
                    break
            if not distinct:
                continue
            # a fresh (zero) target is what a caller usually hands to Forward
            s0, t0 = rnd(rng, S), (zero(T) if rng.random() < 0.3 else rnd(rng, T))
            s1 = zero(S) if rng.random() < 0.4 else rnd(rng, S)
            go = ["s := %s" % golit(S, s0), "t := %s" % golit(T, t0), "s1 := %s" % golit(S, s1)]
            for i, (a, b, oa, ob) in enumerate(distinct):
                go.append("e%d := optics.Iso[%s, %s, %s](%s, %s)" % (i, S.name, T.name, a[2].name, o_go(oa), o_go(ob)))
            if single:
                entries = [0]
                go.append("m := e0")
                line = "I %s %s" % (o_line(distinct[0][2]), o_line(distinct[0][3]))
                nnil = nrep = nest = 0
            else:
                # list with nil entries and repeated entries, sometimes a nested Morphism
                seq = list(range(len(distinct)))
                for _ in range(rng.randrange(0, 3)):
                    seq.insert(rng.randrange(0, len(seq) + 1), rng.randrange(len(distinct)))
                nrep = len(seq) - len(distinct)
                nnil = rng.randrange(0, 3)
                for _ in range(nnil):
                    seq.insert(rng.randrange(0, len(seq) + 1), None)
                nest = 0
                if len(seq) >= 3 and rng.random() < 0.3:
                    i = rng.randrange(0, len(seq) - 1)
                    j = rng.randrange(i + 1, len(seq) + 1)
                    seq = seq[:i] + [seq[i:j]] + seq[j:]
                    nest = 1

                def ego(x):
                    if x is None:
                        return "nil"
                    if isinstance(x, list):
                        return "optics.Morphism[%s, %s](%s)" % (S.name, T.name, ", ".join(ego(y) for y in x))
                    return "e%d" % x

                def eline(x):
                    if x is None:
                        return "(n)"
                    if isinstance(x, list):
                        return "(m %s)" % " ".join(eline(y) for y in x)
                    return "(i %s %s)" % (o_line(distinct[x][2]), o_line(distinct[x][3]))
                # half of the lists are passed the way a table-driven caller does: a slice spread into Morphism, another
                # Morphism over the whole table first, then the morphism under test over a PREFIX of the same slice
                # (the library must not have touched the caller's slice)
                if rng.random() < 0.1:
                    # a list that consists of nil entries only (an optional iso switched off): nothing happens
                    seq, nrep, nest = [None] * rng.choice([1, 1, 2]), 0, 0
                    nnil = len(seq)
                    go += ["_ = e%d" % i for i in range(len(distinct))]
                reuse = len(seq) >= 2 and rng.random() < 0.5
                forked = len(distinct) >= 4 and rng.random() < 0.3 and any(x is not None for x in seq)
                if forked:
                    # a morphism extended twice: ext := Morphism(Morphism(base…), x); m := Morphism(ext, a); another one,
                    # Morphism(ext, b), is built afterwards and thrown away (a result must not share what a later call
                    # may overwrite)
                    reuse, nest, nnil, nrep = False, 2, 0, 0
                    idx = list(range(len(distinct)))
                    base, x, ea, eb = idx[:-3], idx[-3], idx[-2], idx[-1]
                    go.append("b0 := optics.Morphism[%s, %s](%s)" % (S.name, T.name, ", ".join("e%d" % i for i in base)))
                    go.append("ext := optics.Morphism[%s, %s](b0, e%d)" % (S.name, T.name, x))
                    go.append("m := optics.Morphism[%s, %s](ext, e%d)" % (S.name, T.name, ea))
                    go.append("_ = optics.Morphism[%s, %s](ext, e%d)" % (S.name, T.name, eb))
                    seq = [[list(base), x], ea]
                    distinct_used = [distinct[i] for i in base + [x, ea]]
                elif reuse:
                    kuse = rng.randrange(1, len(seq))
                    go.append("tbl := []optics.Isomorphism[%s, %s]{%s}" % (S.name, T.name, ", ".join(ego(x) for x in seq)))
                    go.append("_ = optics.Morphism[%s, %s](tbl...)" % (S.name, T.name))
                    go.append("m := optics.Morphism[%s, %s](tbl[:%d]...)" % (S.name, T.name, kuse))
                    seq = seq[:kuse]

                    def flat(x):
                        return [x] if isinstance(x, int) else ([] if x is None else [z for y in x for z in flat(y)])
                    usedi = sorted(set(z for x in seq for z in flat(x)))
                    distinct_used = [distinct[i] for i in usedi]
                    nnil = sum(1 for x in seq if x is None)
                else:
                    go.append("m := optics.Morphism[%s, %s](%s)" % (S.name, T.name, ", ".join(ego(x) for x in seq)))

                    def flat0(x):
                        return [x] if isinstance(x, int) else ([] if x is None else [z for y in x for z in flat0(y)])
                    distinct_used = [distinct[i] for i in sorted(set(z for x in seq for z in flat0(x)))]
                line = "M " + " ".join(eline(x) for x in seq)
                entries = seq
            snap = "%s(s)+\",\"+%s(t)" % (pr(S), pr(T))
            go += ["m.Forward(&s, &t)", "out = append(out, %s)" % snap,
                   "m.Inverse(&t, &s)", "out = append(out, %s)" % snap,
                   "m.Inverse(&t, &s1)", "out = append(out, %s(s1)+\",\"+%s(t))" % (pr(S), pr(T))]
            # the property: every target focus receives its source focus, nothing else changes;
            # the inverse restores the source foci (into s: everything; into s1: exactly the foci)
            t1, s3 = t0, s1
            for a, b, oa, ob in (distinct if single else distinct_used):
                (ps, ks), (pt, kt) = o_sem(oa), o_sem(ob)
                x = getp(s0, ps)
                t1 = setp(t1, pt, x + ks - kt if (ks or kt) else x)
                s3 = setp(s3, ps, x)
            tt = tok(T, t1)
            exp = "%s,%s;%s,%s;%s,%s" % (tok(S, s0), tt, tok(S, s0), tt, tok(S, s3), tt)
            line += " | %s | %s | %s" % (tok(S, s0), tok(T, t0), tok(S, s1))
            return dict(kind="I" if single else "M", entries=len(entries), distinct=len(distinct), nnil=nnil, nrep=nrep, nest=nest, reuse=(not single and reuse),
                        line=line, go=go, expect=exp)
        return None

    def scen_map(self):
        rng = self.rng
        KT, VT, named = rng.choice([(STR, INT, "M1"), (INT, STR, "M2"), (MYS, F64, "M3"), (STR, MYI, "M4"), (STR, INT, None), (I64, MYS, None)])
        mt = named or "map[%s]%s" % (KT.name, VT.name)
        keys = []
        while len(keys) < 5:
            k = rnd(rng, KT)
            if k not in keys:
                keys.append(k)
        if KT.kind == "str" and rng.random() < 0.3:
            keys[0] = ""  # the zero key as well
        isnil = rng.random() < 0.25
        m0 = None if isnil else {k: rnd(rng, VT) for k in keys[:rng.randrange(0, 4)]}
        univ = sorted(set(keys))
        go = ["var m %s" % mt if isnil else "m := %s{%s}" % (mt, ", ".join("%s: %s" % (golit(KT, k), golit(VT, v)) for k, v in m0.items()))]
        used = sorted(set(rng.choice(keys) for _ in range(3)), key=keys.index)
        for k in used:
            go.append("l%d := optics.NewLensM[%s, %s, %s](%s)" % (keys.index(k), mt, KT.name, VT.name, golit(KT, k)))
            go.append("_ = l%d" % keys.index(k))
        snap = "snapMap(m, %s[%s], %s[%s])" % (pr(KT), KT.name, pr(VT), VT.name)
        ops, exp = [], []
        m = None if m0 is None else dict(m0)

        def render(m):
            return "nil" if m is None else "(m" + "".join(" %s %s" % (tok(KT, k), tok(VT, m[k])) for k in univ if k in m) + ")"
        for _ in range(rng.randrange(4, 9)):
            k = rng.choice(used)
            if rng.random() < 0.45:
                ops.append("g " + tok(KT, k))
                go.append("out = append(out, try(func() string { return %s(l%d.Get(&m)) }))" % (pr(VT), keys.index(k)))
                exp.append(tok(VT, zero(VT) if m is None or k not in m else m[k]))
            else:
                v = rnd(rng, VT)
                ops.append("p %s %s" % (tok(KT, k), tok(VT, v)))
                go.append("out = append(out, try(func() string { r := l%d.Put(&m, %s); if r != &m { return \"diff:\" }; return %s }))" % (keys.index(k), golit(VT, v), snap))
                if m is None:
                    exp.append("panic:nilmap")
                else:
                    m[k] = v
                    exp.append(render(m))
        line = "K %s | %s | %s | %s" % (tok(VT, zero(VT)), " ".join(tok(KT, k) for k in univ), render(m0), " ".join(ops))
        return dict(kind="K", isnil=isnil, line=line, go=go, expect=";".join(exp))


PJOIN_PER_FAMILY = 12


def plan(rng, scale):
    """scenario mix of one batch (≈ 55*scale scenarios)"""
    p = []
    p += [("join",)] * (16 * scale)
    p += [(f,) for f in ["b", "x", "x", "g", "s", "bg", "bs", "b", "x", "g", "s", "x"]] * scale
    for n in range(2, 10):
        p += [("shape", n, False), ("shape", n, True)] * max(1, scale // 2)
        if scale % 2 and scale > 1:
            p += [("shape", n, True)]
    p += [("iso",)] * (3 * scale)
    p += [("morph",)] * (9 * scale)
    p += [("map",)] * (4 * scale)
    return p


def gen_batch(rng, scale):
    w = World(rng)
    g = Gen(rng, w)
    scen = []
    for it in plan(rng, scale):
        if it[0] == "shape":
            s = g.scen_shape(it[1], it[2])
        elif it[0] == "iso":
            s = g.scen_morph(True)
        elif it[0] == "morph":
            s = g.scen_morph(False)
        elif it[0] == "map":
            s = g.scen_map()
        else:
            s = g.scen_optic(it[0])
        if s is not None:
            scen.append(s)
    # joins through promoted fields: generated after the regular mix (which keeps its random stream)
    for k in range(max(2, scale // 2)):
        fam = w.add_promoted(k)
        for _ in range(PJOIN_PER_FAMILY):
            s = g.scen_pjoin(fam)
            if s is not None:
                scen.append(s)
    # a member declared by the struct itself and, later, a same-named member of an embedded struct (the listing has the
    # name twice: a lens by name is the lens of the FIRST, the struct's own member) — by name, also under Join / Shape2
    for k in range(2):
        for s in g.scen_dupname(k):
            scen.append(s)
    return w.go_decls(), scen


PREAMBLE = """//go:build verif

package main

import (
	"math"
	"strings"

	"github.com/fogfish/golem/optics"
)

var _ = strings.Join
var _ = math.Copysign
var _ optics.Lens[int, int]

type M1 map[string]int
type M2 map[int]string
type M3 map[MyS]float64
type M4 map[string]MyI

"""


def go_file(decls, scen):
    out = [PREAMBLE, decls]
    for i, s in enumerate(scen):
        go = list(s["go"])
        # the optic under test is shared between the callers of this case (harness `share`): the concurrent pass lets
        # several goroutines use ONE optic value, each on a value of its own
        for k, l in enumerate(go):
            if l.startswith("l := ") or l.startswith("m := optics.") or l == "m := e0":
                name = l.split(" ", 1)[0]
                go.insert(k + 1, "%s = share(%d, %s)" % (name, i, name))
                break
        out.append("func case%d() string {\n\tvar out []string\n\t%s\n\treturn strings.Join(out, \";\")\n}\n" % (i, "\n\t".join(go)))
    out.append("var cases = []func() string{%s}\n" % ", ".join("case%d" % i for i in range(len(scen))))
    return "\n".join(out)


PJ_KEYS = ("pj_leaves", "pj_embed_depth", "pj_inner_offset_nonzero", "pj_outer_promoted", "pj_outer_embedded_struct", "pj_same_typed_decoys")


def messy(got, expected=""):
    """a result line that shows memory read or written outside the value (crash, fault, wild, escaped or overlong atoms)"""
    return any(x in str(got) for x in ("crash:", "panic:", "wild:", "\\x", "bad-op")) or len(str(got)) > len(str(expected)) + 40


WHAT = {"O": "composed lens (Join/BiMap/BiMapS..F/Getter/Setter) does not read/write exactly its focus with the converted value",
        "S": "ShapeN lens does not read/write its N fields positionally as its component lenses would",
        "I": "Iso.Forward then Iso.Inverse does not restore the source focus / changes something outside the foci",
        "M": "Morphism.Forward then Morphism.Inverse does not restore the source foci / changes something outside the foci",
        "K": "map lens does not touch exactly its key"}


def run_batch(ctx, b, decls, scen):
    src = go_file(decls, scen)
    binp, err = ctx.harness("optics", REPL, extra_files={"cases_gen.go": src}, suffix="-%d" % b)
    if binp is None:
        return None, err
    lines = [s["line"] for s in scen]
    impl, errs = run_cases(binp, lines)
    if not ctx.replay:
        run_shared(ctx, binp, scen, impl)
    return impl, errs


def run_shared(ctx, binp, scen, impl):
    """the concurrent pass: every case again from G goroutines x R rounds at once, all through ONE optic value (harness
    `share`), each call on a value of its own; the reference is the case's own sequential result. Only cases whose
    sequential result is as expected are judged (a wrong optic is reported by the sequential pass)."""
    g, r = (8, 2000) if ctx.thorough() else (8, 150)
    try:
        p = subprocess.run([binp, "par", str(g), str(r)], capture_output=True, timeout=600)
    except subprocess.TimeoutExpired:
        ctx.broken.append({"kind": "correspondence", "detail": "concurrent pass of the optics harness timed out"})
        return
    out = p.stdout.decode("utf-8", "backslashreplace").split("\n")
    seen = 0
    for l in out:
        w = l.split(" ", 2)
        if len(w) < 2 or not w[0].isdigit():
            continue
        i = int(w[0])
        if i >= len(scen):
            continue
        seen += 1
        ctx.hist("shared_optic_concurrent_pass", "%d goroutines x %d rounds" % (g, r))
        if w[1] == "DIFF" and i < len(impl) and impl[i] == scen[i]["expect"]:
            ctx.violations.append(vlib.Violation("impl", "a composed optic used by several goroutines at once, each on a value of its own, does not behave as it does alone "
                                                 "(it keeps state between calls: foci of one value leak into another)",
                                                 case=scen[i]["line"], expected=scen[i]["expect"], got=w[2] if len(w) > 2 else "", key={"kind": scen[i]["kind"], "class": "shared-optic"}))
    if seen < len(scen) and p.returncode != 0:
        ctx.broken.append({"kind": "correspondence", "detail": "concurrent pass of the optics harness died after %d of %d cases: %s" % (seen, len(scen), p.stderr.decode("utf-8", "backslashreplace")[-400:])})


def run_cases(binp, lines, max_restarts=40, timeout=600):
    """Run the scenario binary so that EVERY case gets a result line of its own, also when an optic
    addresses memory outside its focus: the output is read as bytes (undecodable bytes are
    escaped, never an exception), and when the process dies (a fatal runtime error — out of
    memory on a wild length, a bad pointer met by the collector — cannot be recovered inside the
    harness) the case it died in gets the line `crash:<first line of stderr>` and the run is
    resumed behind it (`harness.bin <k>` starts at cases[k]).  On a tree where the optics stay inside
    their values this is exactly one process run."""
    impl, errs, k = [], [], 0
    for attempt in range(max_restarts + 1):
        if k >= len(lines):
            break
        try:
            p = subprocess.run([binp, str(k)], input=("\n".join(lines[k:]) + "\n").encode(), capture_output=True, timeout=timeout)
            rc, out, err = p.returncode, p.stdout, p.stderr.decode("utf-8", "backslashreplace")
        except subprocess.TimeoutExpired as ex:
            rc, out, err = -1, ex.stdout or b"", "timeout after %ds" % timeout
        got = out.decode("utf-8", "backslashreplace").split("\n")
        got.pop()  # text behind the last newline: empty, or the torn line of a case that died
        got = got[:len(lines) - k]
        impl += got
        k += len(got)
        if k < len(lines):
            first = next((l for l in err.split("\n") if l.strip()), "no output, rc=%s" % rc)
            errs.append("case %d: %s" % (k, err[:600]))
            impl.append("crash:" + first.strip()[:120])
            k += 1
    return impl, "\n".join(errs)


def attribute(ctx):
    """When Props/C04.lean does not build, every listed theorem is reported; put the ones Lean
    actually rejected first (the replay names broken[0])."""
    logs = " ".join(str(b.get("log", "")) for b in ctx.broken if b.get("kind") == "proof-obligation")
    lines = sorted({int(x) for x in re.findall(r"error: Golem/Props/C04\.lean:(\d+):", logs)})
    if not lines:
        return
    src = open(os.path.join(vlib.LEAN, "Golem/Props/C04.lean")).read().split("\n")
    rejected = []
    decl = re.compile(r"\s*(?:local\s+)?(theorem|example|def|abbrev|instance|structure|inductive)\b\s*(\S*)")
    for ln in lines:
        i = min(ln, len(src)) - 1
        while i > 0 and not decl.match(src[i]) and not src[i].startswith("/--"):
            i -= 1
        while i < len(src) - 1 and not decl.match(src[i]):
            i += 1  # a doc comment belongs to the declaration that follows it
        m = decl.match(src[i])
        if m and m.group(1) == "theorem" and m.group(2) not in rejected:
            rejected.append(m.group(2))
    for b in ctx.broken:
        if b.get("kind") == "proof-obligation" and b.get("theorem") not in rejected and b.get("detail") == "does not check":
            b["detail"] = "not checked: Golem.Props.C04 does not build (rejected: %s)" % ", ".join(rejected[:8])
    ctx.broken.sort(key=lambda b: 0 if b.get("theorem") in rejected else 1)
    ctx.note("theorems rejected by Lean: " + ", ".join(rejected[:12]))


def run(ctx):
    ctx.cov["rule"] = ("cases = generated Go scenarios over generated struct types (value-embedded and plain nested to depth 4, repeated field types): "
                       "nested Join chains (any association), Join chains of 2..4 lenses ending on a field promoted from a value-embedded struct "
                       "(embedding depth 1 and 2, non-zero offset, same-typed decoy fields around the focus on the inner and the outer side, "
                       "outer lenses on plain / promoted / embedded-struct fields; distribution pjoin_*), BiMap/BiMapS/B/I/F, Getter/Setter, ForShape2..9 (by type and by name, mixed and same-typed), "
                       "NewLensM on maps (incl. nil map), Iso and Morphism lists (nil, repeated, nested) between two structs; every case snapshots the whole value(s); "
                       "non-trivial = every case (each performs at least one Put/Forward and compares complete snapshots); distinct by case line; "
                       "a case in which the real optics fault or kill the scenario process is a result line of that case (panic:/crash:), the run resumes behind it")
    ctx.assumptions += ["Lens.Put writes only through its pointer argument and returns it (state-passing reading used by the translator)",
                        "leaf field lenses (ForProduct1) are lawful and pairwise disjoint on distinct fields — property C01; here they are hypotheses of the theorems and cell-path lenses in the oracle",
                        "user conversion functions are parameters; BiMapS/B/I/F are checked on types over one underlying type (mutually inverse conversions); map aliasing is outside the model"]
    ctx.xlate("optics", "Optics.lean", ["optics/iso.go", "optics/shape.go", "optics/lens.go"])
    if not ctx.prove():
        attribute(ctx)
    elif ctx.thorough():
        ctx.leanchecker()

    if ctx.replay:
        c = json.load(open(ctx.replay)).get("case")
        if not isinstance(c, dict):
            ctx.note("replay file carries no concrete case; re-running the regular budget")
            ctx.replay = None
        else:
            batches = [(c["types"], [c])]
    if not ctx.replay:
        nb, scale = (12, 10) if ctx.thorough() else (1, 4)
        if ctx.broken:
            nb, scale = nb * 3, scale  # failing-input search on an enlarged budget
        batches = [gen_batch(ctx.rng, scale) for _ in range(nb)]

    with ThreadPoolExecutor(max_workers=6) as ex:
        results = list(ex.map(lambda a: run_batch(ctx, a[0], a[1][0], a[1][1]), enumerate(batches)))

    for b, ((decls, scen), (impl, err)) in enumerate(zip(batches, results)):
        if impl is None:
            ctx.broken.append({"kind": "correspondence", "detail": "harness does not build against /repo/optics (batch %d)" % b, "log": err})
            continue
        lines = [s["line"] for s in scen]
        model = ctx.oracle("C04", lines)
        ctx.diff(lines, impl, model, "Model/Optics.lean on the record model vs real optics")
        if len(impl) != len(lines):
            ctx.broken.append({"kind": "correspondence", "detail": "harness produced %d lines for %d cases: %s" % (len(impl), len(lines), err[-500:])})
        for s, got in zip(scen, impl):
            ctx.count(s["line"])
            ctx.hist("kind", s["kind"])
            if s["kind"] == "O":
                ctx.hist("optic", s["flavour"])
                ctx.hist("join_depth", s["depth"])
                if "pj_leaves" in s:  # joins through promoted fields (scen_pjoin)
                    for k in PJ_KEYS:
                        ctx.hist(k.replace("pj_", "pjoin_"), s[k])
            elif s["kind"] == "S":
                ctx.hist("shape_arity", s["arity"])
                ctx.hist("shape_same_typed_fields", s["nsame"])
                ctx.hist("shape_by", "type" if s["bytype"] else "name")
            elif s["kind"] in ("I", "M"):
                ctx.hist("morphism_entries", s["entries"])
                ctx.hist("morphism_nil", s["nnil"])
                ctx.hist("morphism_repeated", s["nrep"])
                ctx.hist("morphism_nested", s["nest"])
                ctx.hist("morphism_table_reused", "prefix of a spread slice" if s.get("reuse") else "literal arguments")
            else:
                ctx.hist("map_nil", s["isnil"])
            if got != s["expect"]:
                key = {"kind": s["kind"]}
                case = {"line": s["line"], "go": s["go"], "types": decls, "expect": s["expect"], "kind": s["kind"]}
                for k in ("flavour", "depth", "arity", "nsame", "bytype", "entries", "distinct", "nnil", "nrep", "nest", "isnil") + PJ_KEYS:
                    if k in s:
                        case[k] = s[k]
                ctx.violations.append(vlib.Violation("impl", WHAT[s["kind"]], case=case, expected=s["expect"], got=got, key=key))
            elif len([x for x in ctx.cov["samples"] if x["case"][0] == s["kind"]]) < 1:
                ctx.sample({"case": s["line"], "impl": got, "model": s["expect"]}, limit=8)
        if err:
            ctx.note("batch %d: the scenario binary died and was resumed: %s" % (b, err[:300].replace("\n", " / ")))
    # report a failing input whose result line is well-formed first (a wrong value on a well-typed neighbour reads
    # better than the garbage of a wrongly typed access); the order is otherwise the generation order
    ctx.violations.sort(key=lambda v: 1 if messy(v.got, v.expected) else 0)
