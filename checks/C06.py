"""C06 — stages always close, terminate on cancel, never leak or panic.
Tie: H lock-step with cancel and close placed at every point; goroutine census via runtime.Stack;
a panic or a goroutine blocked forever crashes the bubble and is attributed to its script."""
import json
import vlib, lockstep as ls
from checks import C05

POOL_STAGES = ["Map", "FMap", "Filter", "Partition", "Take", "TakeWhile", "Fold", "ForEach", "Void", "StdErrMap"]


def outs_of(cfg):
    if cfg["stage"] == "Join":
        return [0]
    if cfg["stage"] == "StdErrMap":
        return [0]
    return C05.OUTS[cfg["stage"]]


def gen_script(rng, stage=None, maxlen=6):
    st = stage or rng.choice(POOL_STAGES + ["Join"])
    n = rng.randrange(0, maxlen + 1)
    xs = rng.sample(range(1, 40), n)
    if st == "Join":
        k = rng.randrange(0, 4)
        cfg = "stage=Join k=%d cap=%d" % (k, rng.choice([0, 1, 2]))
        seqs = [[] for _ in range(k)]
        for x in xs:
            if k:
                seqs[rng.randrange(k)].append(x)
        sends = [["s%d:%d" % (j, x) for x in seqs[j]] + ["c%d" % j] for j in range(k)]
        closes = ["c%d" % j for j in range(k)]
        outs = [0]
    else:
        cfg = "stage=%s cap=%d fn=%d" % (st, rng.choice([0, 0, 1, 2, 5]), rng.choice([2, 3]))
        if st in ("Map", "FMap", "StdErrMap", "Partition", "Filter", "TakeWhile", "ForEach") and rng.random() < (0.5 if st in ("Map", "FMap", "StdErrMap") else 0.25):
            # failing elements under Lift / Try: the uncancelled result then skips / stops at them
            cfg += " mode=%s fail=%s" % (rng.choice(["lift", "try"]), ",".join(str(x) for x in xs if rng.random() < 0.3))
        if st == "Take":
            cfg += " n=%d" % rng.randrange(0, n + 2)
        sends = [["s%d" % x for x in xs] + ["c0"]]
        closes = ["c0"]
        outs = outs_of({"stage": st})
    recvs = ls.drain_moves(outs, rng.randrange(0, n + 2))
    body = ls.interleave(rng, sends + [recvs])
    # cancel at a random position (or never), the close may also be missing from the body
    if rng.random() < 0.3:
        body = [m for m in body if m[0] != "c"]
    if rng.random() < 0.8:
        body.insert(rng.randrange(0, len(body) + 1), "x")
    tail = []
    if rng.random() < 0.6:
        # "even if nobody ever receives again": cancel + close, then census straight away
        tail += ["x"] + closes + ["z"]
    tail += closes + ls.drain_moves(outs, 2 * n + 3) + ["z"]
    if rng.random() < 0.08:
        # a context that is already cancelled when the stage is created: the cancel is the script's first move
        cfg += " pre=1"
        body = ["x"] + [m for m in body if m != "x"]
    return cfg + " | " + " ".join(body + tail)


def gen_pred_fail(rng):
    """a stage whose PREDICATE / visitor fails on some elements, nobody cancels: the stage must still consume its input,
    deliver, and close"""
    st = rng.choice(["Filter", "Partition", "Partition", "TakeWhile", "ForEach"])
    n = rng.randrange(1, 7)
    xs = rng.sample(range(1, 40), n)
    fail = [x for x in xs if rng.random() < 0.4] or [rng.choice(xs)]
    cfg = "stage=%s cap=%d fn=%d mode=%s fail=%s" % (st, rng.choice([0, 1, 2, 5]), rng.choice([2, 3]), rng.choice(["lift", "try"]), ",".join(map(str, fail)))
    outs = outs_of({"stage": st})
    body = ls.interleave(rng, [["s%d" % x for x in xs] + ["c0"], ls.drain_moves(outs, rng.randrange(0, n + 2))])
    return cfg + " | " + " ".join(body + ls.drain_moves(outs, 2 * n + 3) + ["z"])


def exhaustive():
    """cancel and close at every position of small scripts (thorough tier)"""
    out = []
    for st in POOL_STAGES:
        outs = outs_of({"stage": st})
        for cap in (0, 1):
            xs = [3, 4]
            base = ["s3"] + ["r%d" % k for k in outs] + ["s4"] + ["r%d" % k for k in outs]
            cfg = "stage=%s cap=%d fn=2" % (st, cap) + (" n=1" if st == "Take" else "")
            for ci in range(len(base) + 1):
                for xi in range(len(base) + 2):
                    mv = list(base)
                    mv.insert(ci, "c0")
                    mv.insert(xi, "x")
                    out.append(cfg + " | " + " ".join(mv + ["x", "c0", "z"] + ls.drain_moves(outs, 6) + ["z"]))
    return out


def is_prefix(a, b):
    return len(a) <= len(b) and b[:len(a)] == a


def evaluate(script, tr):
    cfg = tr.cfg
    st = cfg["stage"]
    key = {"stage": st}
    vs = []
    if st == "Join":
        for j, xs in tr.sent.items():
            got = [v for v in tr.values(0) if v in xs]
            if not is_prefix(got, xs):
                vs.append(vlib.Violation("impl", "Join: elements of input %d delivered as %s, sent as %s" % (j, got, xs), case=script, key=key))
        allsent = [x for xs in tr.sent.values() for x in xs]
        if sorted(set(tr.values(0))) != sorted(tr.values(0)) or any(v not in allsent for v in tr.values(0)):
            vs.append(vlib.Violation("impl", "Join delivered a duplicate or an invented element: %s" % tr.values(0), case=script, key=key))
    else:
        xs = tr.sent.get(0, [])
        base = "Map" if st == "StdErrMap" else st
        mode = cfg.get("mode", "pure")
        fail = set(int(x) for x in cfg.get("fail", "").split(",") if x) if mode != "pure" else set()
        good = xs
        if mode == "try":
            good = [x for x in xs if x not in fail]
        elif mode == "lift":
            first = next((i for i, x in enumerate(xs) if x in fail), None)
            good = xs if first is None else xs[:first]
        want = C05.spec(dict(cfg, stage=base), good)
        if base in ("Filter", "Partition", "TakeWhile", "ForEach") and fail:
            # a failing PREDICATE (the harness returns (true, err)) is no failing stage: Filter drops the element, Partition
            # sends it right, TakeWhile ends the prefix there, ForEach ignores what its function returns
            if base == "Filter":
                want = {0: [x for x in xs if x not in fail and ls.pred(int(cfg.get("fn", 2)), x)]}
            elif base == "Partition":
                fnp = int(cfg.get("fn", 2))
                want = {0: [x for x in xs if x not in fail and ls.pred(fnp, x)], 1: [x for x in xs if x in fail or not ls.pred(fnp, x)]}
            elif base == "TakeWhile":
                r = []
                for x in xs:
                    if x in fail or not ls.pred(int(cfg.get("fn", 2)), x):
                        break
                    r.append(x)
                want = {0: r}
            else:
                want = C05.spec(dict(cfg, stage=base), xs)
        if base in ("Map", "FMap") and st != "StdErrMap":
            errs = [x for x in xs if x in fail] if mode == "try" else ([x for x in xs if x in fail][:1] if mode == "lift" else [])
            if not is_prefix(tr.errors(1), errs):
                vs.append(vlib.Violation("impl", "%s/%s: errors %s delivered, not a prefix of the uncancelled errors %s" % (st, mode, tr.errors(1), errs), case=script, key=dict(key, mode=mode)))
        for k in outs_of(cfg):
            got = tr.values(k)
            if not is_prefix(got, want[k]):
                kk = dict(key)
                if st == "Fold" and tr.cancel_at is not None:
                    kk["class"] = "partial-acc-after-cancel"
                vs.append(vlib.Violation("impl", "%s: output %d delivered %s, not a prefix of the uncancelled result %s" % (st, k, got, want[k]),
                                         case=script, expected=want[k], got=got, key=kk))
    # census: after (cancel and all inputs closed) or after (inputs closed and outputs drained) nothing may be alive
    nin = int(cfg.get("k", 1)) if st == "Join" else 1
    closed_at, cancelled_at = {}, None
    drained = set()
    for pos, (mv, res, _) in enumerate(tr.steps):
        if mv[0] == "c" and res == "ok":
            closed_at[int(mv[1:])] = pos
        if mv == "x" and cancelled_at is None:
            cancelled_at = pos
        if mv[0] == "r" and res == "closed":
            drained.add(int(mv[1:]))
        if mv == "z":
            allclosed = len(closed_at) == nin
            n = int(res)
            if allclosed and cancelled_at is not None and n != 0:
                vs.append(vlib.Violation("impl", "%s: %d goroutine(s) alive after cancel with the inputs closed" % (st, n), case=script, key=dict(key, **{"class": "leak-after-cancel"})))
            elif allclosed and all(k in drained for k in outs_of(cfg)) and n != 0:
                vs.append(vlib.Violation("impl", "%s: %d goroutine(s) alive after close and drain" % (st, n), case=script, key=dict(key, **{"class": "leak"})))
    # "stages always close": nobody cancelled, every input was closed, and the script ends with more receive rounds over all
    # outputs than there are elements — every output has been seen closed by then
    tailr, seen = 0, set()
    for mv, res, _ in reversed(tr.steps):
        if mv == "z":
            continue
        if mv[0] != "r":
            break
        seen.add(int(mv[1:]))
        tailr += 1
    nsent = sum(len(v) for v in tr.sent.values())
    if (cancelled_at is None and len(closed_at) == nin and tr.steps and tr.steps[-1][0] == "z" and seen >= set(outs_of(cfg))
            and tailr >= len(outs_of(cfg)) * (2 * nsent + 3)):
        still = [k for k in outs_of(cfg) if k not in tr.closed]
        if still:
            vs.append(vlib.Violation("impl", "%s: output(s) %s not closed although every input was closed, nobody cancelled and the outputs were drained (%d receive rounds)"
                                     % (st, still, tailr // len(outs_of(cfg))), case=script, expected="closed", got="open", key=dict(key, **{"class": "not-closed"})))
    return vs


def run(ctx):
    ctx.cov["rule"] = ("script = stage config + environment moves (send, close, receive, cancel, goroutine census) with the cancel and the close "
                       "at random / every position, replayed under testing/synctest; non-trivial = a send completed and something was observed; distinct by script text")
    ctx.assumptions += ls.ASSUME
    ls.regen_stages(ctx, pipe=True, fork=False, sources=True)
    ctx.prove()
    if ctx.thorough():
        ctx.leanchecker()
    if ctx.replay:
        scripts = [json.load(open(ctx.replay))["case"]]
        # [replay of the other stage families] a Throttling / Emit / Unfold case goes to its own model and direct oracle
        fam = ls.parse_cfg(scripts[0]).get("stage")
        if fam == "Throttling":
            from checks import C06_throttle
            ls.judge(ctx, scripts, C06_throttle.evaluate, sub="throttle")
            return
        if fam in ("Emit", "Unfold"):
            from checks import C11
            ls.judge(ctx, scripts, C11.evaluate, sub="timed")
            return
    else:
        n = 5000 if ctx.thorough() else 600
        scripts = [gen_script(ctx.rng) for _ in range(n)] + [gen_pred_fail(ctx.rng) for _ in range(n // 12)]
        if ctx.thorough():
            scripts += exhaustive()
        if ctx.broken:
            # an obligation or the tie broke: search harder for a failing input. `select` among ready arms is the
            # runtime's coin, not ours, so the same script is also replayed several times
            more = [gen_script(ctx.rng) for _ in range(3 * n)]
            scripts += more + [s for s in scripts[:n] if " x" in s] * 3
    ls.judge(ctx, scripts, evaluate)
    from checks import C06x
    C06x.run_extra(ctx)
