"""C05 — sequential pipe stages emit exactly the list image of their input, in order.
Tie: H lock-step (testing/synctest) against the worker-pool model; direct oracle = list image."""
import json
import vlib, lockstep as ls

STAGES = ["Map", "FMap", "Filter", "Partition", "Take", "TakeWhile", "Fold", "ForEach", "Void"]
# stages whose user function sees single elements: the multiset of its arguments is observed (move `a`)
APPLIES = {"Map", "FMap", "Filter", "Partition", "TakeWhile", "ForEach"}
OUTS = {"Map": [0, 1], "FMap": [0, 1], "Filter": [0], "Partition": [0, 1], "Take": [0], "TakeWhile": [0],
        "Fold": [0], "ForEach": [0], "Void": [0]}


def spec(cfg, xs):
    """list image per output (values only) for non-failing functions"""
    st, fn, n = cfg["stage"], int(cfg.get("fn", 2)), int(cfg.get("n", 0))
    if st == "Map":
        return {0: [ls.f_map(x) for x in xs], 1: []}
    if st == "FMap":
        return {0: [y for x in xs for y in ls.g_fmap(x)], 1: []}
    if st == "Filter":
        return {0: [x for x in xs if ls.pred(fn, x)]}
    if st == "Partition":
        return {0: [x for x in xs if ls.pred(fn, x)], 1: [x for x in xs if not ls.pred(fn, x)]}
    if st == "Take":
        return {0: xs[:max(n, 0)]}
    if st == "TakeWhile":
        r = []
        for x in xs:
            if not ls.pred(fn, x):
                break
            r.append(x)
        return {0: r}
    if st == "Fold":
        acc = ls.FOLD_EMPTY
        for x in xs:
            acc = ls.combine(acc, x)
        return {0: [acc]}
    return {0: []}


def gen_script(rng, stage=None, maxlen=8):
    st = stage or rng.choice(STAGES)
    cap = rng.choice([0, 0, 1, 1, 2, 5])
    n = rng.randrange(0, maxlen + 1)
    xs = rng.sample(range(1, 40), n)
    cfg = "stage=%s cap=%d fn=%d" % (st, cap, rng.choice([2, 3, 5]))
    if st in ("Map", "Filter", "Partition", "TakeWhile") and rng.random() < 0.2:
        # the stage function is the application's own morphism: a struct embedding a pipe.F with its own Apply
        cfg += " deco=1"
    tk = 0
    if st == "Take":
        tk = rng.randrange(0, n + 3)
        if rng.random() < 0.12:
            # "first n for any n >= 0": the usual spellings of "no limit"
            tk = rng.choice([1 << 31, 1 << 40, 1 << 62, (1 << 63) - 1])
        cfg += " n=%d" % tk
    outs = OUTS[st]
    total = sum(len(v) for v in spec(ls.parse_cfg(cfg), xs).values()) if st != "Take" else n
    sends = ["s%d" % x for x in xs] + ["c0"]
    recvs = ls.drain_moves(outs, rng.randrange(0, total + 2))
    moves = ls.interleave(rng, [sends, recvs])
    if rng.random() < 0.25:
        # a consumer that pauses for (fake) seconds while the stage waits on a send: "each exactly once" also then
        for _ in range(rng.choice([1, 1, 2, 3])):
            moves.insert(rng.randrange(0, len(moves) + 1), "t%d" % rng.choice([1100, 1500, 2500, 7000]))
    moves += ls.drain_moves(outs, total + 3)
    if st == "ForEach":
        moves.append("v")
    if st in APPLIES:
        moves.append("a")
    moves.append("z")
    return cfg + " | " + " ".join(moves)


def exhaustive(maxn=3):
    """all interleavings of sends/close with receives for inputs up to maxn elements, caps 0..2 (thorough tier)"""
    import itertools
    out = []
    for st in STAGES:
        for cap in (0, 1, 2):
            for n in range(0, maxn + 1):
                xs = [3, 4, 5][:n]
                ns = [0, 1, 2, 4] if st == "Take" else [0]
                for tk in ns:
                    cfg = "stage=%s cap=%d fn=2" % (st, cap) + (" n=%d" % tk if st == "Take" else "")
                    outs = OUTS[st]
                    sends = ["s%d" % x for x in xs] + ["c0"]
                    # receive positions: after each send/close, either no receive or one pass over outputs
                    for mask in itertools.product([0, 1], repeat=len(sends)):
                        mv = []
                        for s, m in zip(sends, mask):
                            mv.append(s)
                            if m:
                                mv += ["r%d" % k for k in outs]
                        mv += ls.drain_moves(outs, 2 * n + 3)
                        if st == "ForEach":
                            mv.append("v")
                        mv.append("z")
                        out.append(cfg + " | " + " ".join(mv))
    return out


def evaluate(ctx, script, tr):
    """direct oracle for one uncancelled script; returns list of Violations"""
    cfg = tr.cfg
    st = cfg["stage"]
    xs = tr.sent.get(0, [])
    want = spec(cfg, xs)
    vs = []
    key = {"stage": st}
    if st == "Take":
        key["n"] = int(cfg["n"])
    for k in OUTS[st]:
        got = tr.values(k)
        if st in ("ForEach", "Void"):
            got = []
        if k in tr.closed:
            if got != want[k]:
                vs.append(vlib.Violation("impl", "%s: output %d delivered %s, the list image of %s is %s" % (st, k, got, xs, want[k]),
                                         case=script, expected=want[k], got=got, key=key))
        else:
            if 0 in tr.closed_in:
                vs.append(vlib.Violation("impl", "%s: output %d not closed after the input was closed and the outputs drained" % (st, k),
                                         case=script, expected="closed", got=tr.recv.get(k), key=key))
        if tr.errors(k):
            vs.append(vlib.Violation("impl", "%s: error delivered although no function fails" % st, case=script, got=tr.recv.get(k), key=key))
    if st == "ForEach" and tr.visits is not None and 0 in tr.closed and tr.visits != xs:
        vs.append(vlib.Violation("impl", "ForEach visited %s for input %s" % (tr.visits, xs), case=script, expected=xs, got=tr.visits, key=key))
    if tr.applied is not None and st in APPLIES:
        # "each exactly once": the user function is applied once to every element (TakeWhile: to a prefix)
        if len(set(tr.applied)) != len(tr.applied) or any(a not in xs for a in tr.applied):
            vs.append(vlib.Violation("impl", "%s: user function applied to %s for input %s (an element more than once, or not an element)" % (st, tr.applied, xs),
                                     case=script, expected=sorted(xs), got=tr.applied, key=dict(key, **{"class": "applied-twice"})))
        elif st != "TakeWhile" and all(k in tr.closed for k in OUTS[st]) and tr.applied != sorted(xs):
            vs.append(vlib.Violation("impl", "%s: user function applied to %s, input was %s (each element exactly once)" % (st, tr.applied, sorted(xs)),
                                     case=script, expected=sorted(xs), got=tr.applied, key=dict(key, **{"class": "applied"})))
    if st == "Take" and tr.steps and int(cfg["n"]) >= 1:
        left = int(tr.steps[-1][2].split(";")[0].split(",")[0])
        if len(xs) - left > int(cfg["n"]):
            vs.append(vlib.Violation("impl", "Take consumed %d elements for n=%s" % (len(xs) - left, cfg["n"]), case=script, key=key))
    for pos, n in tr.census:
        # the goroutine census is C06's subject; here it only feeds the model comparison
        if False and n != 0 and 0 in tr.closed_in and all(k in tr.closed for k in OUTS[st]):
            vs.append(vlib.Violation("impl", "%s: %d library goroutine(s) alive after close and drain" % (st, n), case=script, key=key))
    return vs


def seq_identity(ctx, binp):
    """Seq / ToSeq: identity (no concurrency)"""
    import os, subprocess
    lists = [[]] + [[ctx.rng.randrange(-50, 50) for _ in range(ctx.rng.randrange(0, 12))] for _ in range(200 if ctx.thorough() else 40)]
    # long sequences (any implementation that stops copying eagerly beyond some length shows here: the harness overwrites
    # the caller's slice right after Seq returns)
    lists += [[ctx.rng.randrange(0, 1000) for _ in range(n)] for n in ((100, 1025, 1500, 4097, 9000) if ctx.thorough() else (300, 1500, 5000))]
    fin, fout = os.path.join(ctx.tmp, "seq.in"), os.path.join(ctx.tmp, "seq.out")
    open(fin, "w").write("".join(" ".join(map(str, l)) + "\n" for l in lists))
    p = subprocess.run([binp, "-test.run", "TestSeqToSeq", "-test.count=1"], env=dict(os.environ, SEQ_IN=fin, SEQ_OUT=fout), capture_output=True, text=True)
    impl = open(fout).read().split("\n")[:-1] if os.path.exists(fout) else []
    model = ctx.oracle("lockstep", ["seq " + " ".join(map(str, l)) for l in lists])
    model = [m.replace("true", "true") for m in model]
    if len(impl) != len(lists):
        ctx.broken.append({"kind": "correspondence", "detail": "Seq/ToSeq harness produced %d lines for %d cases: %s" % (len(impl), len(lists), (p.stdout + p.stderr)[-400:])})
        return
    for l, i, m in zip(lists, impl, model):
        ctx.count("seq " + str(l), nontrivial=len(l) > 0)
        want = "%d %d | %s | true" % (len(l), len(l), " ".join(map(str, l)))
        if i != want:
            ctx.violations.append(vlib.Violation("impl", "ToSeq(Seq(%s)) is not the identity / channel not closed with capacity len" % (l if len(l) <= 12 else "%d elements: %s …" % (len(l), l[:8])), case="seq " + " ".join(map(str, l)), expected=want, got=i, key={"stage": "Seq"}))
        if i == m:
            ctx.cov["traces_validated_against_impl"] += 1
        else:
            ctx.broken.append({"kind": "correspondence", "detail": "Seq/ToSeq", "case": l, "impl": i, "model": m})


def run(ctx):
    ctx.cov["rule"] = ("script = stage config (stage, input capacity, predicate modulus, n) + environment moves (sends of distinct ints, "
                       "close, non-blocking receives on every output, final drain) replayed under testing/synctest; non-trivial = at least one "
                       "completed send and one received value or a closed output observed; distinct by script text")
    ctx.assumptions += ls.ASSUME
    ls.regen_stages(ctx, pipe=True, fork=False, text=True)
    ctx.prove()
    if ctx.thorough():
        ctx.leanchecker()
    if ctx.replay:
        scripts = [json.load(open(ctx.replay))["case"]]
    else:
        n = 4000 if ctx.thorough() else 450
        scripts = [gen_script(ctx.rng) for _ in range(n)]
        if ctx.thorough():
            scripts += exhaustive(3)
        if ctx.broken:
            scripts += [gen_script(ctx.rng, maxlen=10) for _ in range(4 * n)]
    binp, err = ls.build(ctx)
    if binp is None:
        ctx.broken.append({"kind": "correspondence", "detail": "lock-step harness does not build against /repo/pipe", "log": err})
        return
    ls.judge(ctx, scripts, lambda s, tr: evaluate(ctx, s, tr), binp=binp)
    seq_identity(ctx, binp)
