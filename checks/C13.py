"""C13 — Throttling bounds the rate and keeps every element, in order.

Tie: H lock-step on the virtual clock of testing/synctest against the timed two-goroutine network
model lean/Golem/Go/Throttle.lean (`oracle throttle`).

Direct oracle (independent of the Lean model), evaluated on the implementation's observations.
Virtual time only advances in `t<d>` moves, so the time of every receive is the sum of the `t`
moves before it.
  * identity: the delivered values are a prefix of the values whose send completed, always; as soon
    as the input is closed and everything sent has been delivered the next receive reports `closed`;
  * window: among the deliveries before cancellation, no half-open window [t, t+interval) holds more
    than 2*ops+1+c of them (alarm only on MORE than the bound);
  * lower bound: delivery i (counted from 0 over the whole run, before cancellation) happens at
    virtual time >= floor(i/ops)*interval — this half holds for every schedule, so it is checked on
    every script;
  * upper bound ("no later than one interval after that"): stated by the property only when input is
    always available and the consumer always ready. It is asserted only while the trace itself shows
    that regime: at every `t` move so far (a) the move just before it was a receive that found nothing
    (the consumer took everything there was), (b) an element was waiting inside the stage or in
    the input buffer (#completed sends - #deliveries > 0), (c) the sleep does not run past the next
    multiple of the interval (where the next pacer round starts in this regime), and no cancel/close
    happened. The scripts
    built by `eager_script` have that shape: per tick R=2*(ops+c)+3 rounds of [send next value,
    receive], then `t`. In that regime a receive that finds nothing at a time later than
    (floor(i/ops)+1)*interval (i = deliveries so far), or a delivery i later than that, is a violation.
  * the Throttling rules of C06 (checks/C06_throttle.py: prefix, close; not its goroutine census, which this property does not speak of) are applied to
    every script as well; scripts with cancel/close at random points come from its generator.
The first violation is shrunk by delta debugging over the move list (re-running the implementation).
"""
import json, re
import vlib, lockstep as ls

STAGE = "Throttling"


def cfg_str(ops, cap, ival):
    return "stage=%s cap=%d ops=%d ival=%d" % (STAGE, cap, ops, ival)


def durations(rng, ival):
    return rng.choice([1, max(1, ival // 2), max(1, ival - 1), ival, ival, ival + 1, 2 * ival, 3 * ival])


def tail(ops, cap, ival, nsent, close=True):
    """close the input, then give the stage all the time it needs while receiving, then census"""
    mv = ["c0"] if close else []
    rounds = (2 * cap + 1) // max(ops, 1) + 2     # at most 2c+1 elements are inside the stage
    for _ in range(rounds):
        mv += ["r0"] * (2 * ops + cap + 2) + ["t%d" % ival]
    mv += ["r0", "r0", "z"]
    return mv


def eager_script(rng, ops, cap, ival, ticks, sub=1):
    """input always available, consumer always ready (see module docstring)"""
    mv, v = [], 1
    rounds = 2 * (ops + cap) + 3
    for _ in range(ticks * sub + 1):
        for _ in range(rounds):
            mv += ["s%d" % v, "r0"]
            v += 1
        mv.append("t%d" % max(1, ival // sub))
    return cfg_str(ops, cap, ival) + " | " + " ".join(mv + tail(ops, cap, ival, v))


def burst_script(rng, ops, cap, ival):
    """idle period (tokens pile up, possibly with elements parked in `out`), then a burst"""
    mv, v = [], 1
    # optionally park elements in the stage first (slow consumer before the idle period)
    for _ in range(rng.choice([0, 0, cap + 1, cap + 2, 2 * cap + 3])):
        mv.append("s%d" % v)
        v += 1
    mv.append("t%d" % (rng.randrange(1, 4) * ival + rng.choice([0, 0, 1, ival // 2])))
    n = rng.randrange(1, 3 * ops + cap + 4)
    style = rng.randrange(3)
    if style == 0:      # alternate
        for _ in range(n):
            mv += ["s%d" % v, "r0"]
            v += 1
    elif style == 1:    # all sends, then all receives
        for _ in range(n):
            mv.append("s%d" % v)
            v += 1
        mv += ["r0"] * (n + cap + 2)
    else:               # receive-heavy
        for _ in range(n):
            mv += ["s%d" % v, "r0", "r0"]
            v += 1
    # a second, shorter interval and burst: windows straddling two rounds
    mv.append("t%d" % durations(rng, ival))
    for _ in range(rng.randrange(0, 2 * ops + cap + 3)):
        mv += ["s%d" % v, "r0"]
        v += 1
    return cfg_str(ops, cap, ival) + " | " + " ".join(mv + tail(ops, cap, ival, v))


def slow_consumer_script(rng, ops, cap, ival):
    """producer as fast as the stage accepts, consumer takes k elements every few ticks"""
    mv, v = [], 1
    for _ in range(rng.randrange(2, 7)):
        for _ in range(cap + 2):
            mv.append("s%d" % v)
            v += 1
        mv.append("t%d" % durations(rng, ival))
        mv += ["r0"] * rng.randrange(0, 3)
    mv += ["r0"] * (2 * ops + cap + 3)
    return cfg_str(ops, cap, ival) + " | " + " ".join(mv + tail(ops, cap, ival, v))


def random_script(rng, ops, cap, ival, maxphases=8):
    mv, v = [], 1
    for _ in range(rng.randrange(1, maxphases + 1)):
        ph = rng.randrange(5)
        if ph == 0:
            mv.append("t%d" % durations(rng, ival))
        elif ph == 1:
            for _ in range(rng.randrange(1, cap + 3)):
                mv.append("s%d" % v)
                v += 1
        elif ph == 2:
            mv += ["r0"] * rng.randrange(1, 2 * ops + cap + 3)
        elif ph == 3:
            for _ in range(rng.randrange(1, 2 * ops + 3)):
                mv += ["s%d" % v, "r0"]
                v += 1
        else:
            mv.append("z")
    return cfg_str(ops, cap, ival) + " | " + " ".join(mv + tail(ops, cap, ival, v, close=rng.random() < 0.8))


def gen_scripts(rng, n):
    out = []
    for i in range(n):
        ops, cap = rng.randrange(1, 5), rng.randrange(0, 4)
        ival = rng.choice([10, 100, 1000])
        fam = i % 5
        if fam == 0:
            out.append(eager_script(rng, ops, cap, ival, rng.randrange(1, 5), rng.choice([1, 1, 2])))
        elif fam == 1:
            out.append(burst_script(rng, ops, cap, ival))
        elif fam == 2:
            out.append(slow_consumer_script(rng, ops, cap, ival))
        else:
            out.append(random_script(rng, ops, cap, ival))
    return out


def grid():
    """every ops in 1..4 x capacity 0..3: the eager run and the worst-case burst (thorough tier)"""
    import random
    rng = random.Random(13)
    out = []
    for ops in range(1, 5):
        for cap in range(0, 4):
            for ival in (10, 1000):
                out.append(eager_script(rng, ops, cap, ival, 3, 1))
                out.append(eager_script(rng, ops, cap, ival, 2, 2))
                out.append(worst_burst(ops, cap, ival))
                for _ in range(3):
                    out.append(burst_script(rng, ops, cap, ival))
    return out


def worst_burst(ops, cap, ival):
    """the 2*ops+1+c burst: c+1 elements pass the gate and park (c in `out`, one in the send), the
    consumer stays away for an interval (ops tokens pile up), then receives everything at one instant"""
    mv, v = [], 1
    n = 3 * ops + 2 * cap + 3
    for _ in range(n):              # as many as the stage and the input buffer accept
        mv.append("s%d" % v)
        v += 1
    mv.append("t%d" % (2 * ival))
    for _ in range(n):              # receive everything, refilling the input as we go
        mv += ["r0", "s%d" % v]
        v += 1
    return cfg_str(ops, cap, ival) + " | " + " ".join(mv + tail(ops, cap, ival, v))


def exhaustive(length, configs=((1, 0), (1, 1), (2, 0), (2, 1)), ival=10):
    """every move sequence of the given length over {send, receive, sleep interval/2, sleep interval}"""
    import itertools
    out = []
    for ops, cap in configs:
        for seq in itertools.product("srhT", repeat=length):
            mv, v = [], 1
            for ch in seq:
                if ch == "s":
                    mv.append("s%d" % v)
                    v += 1
                elif ch == "r":
                    mv.append("r0")
                else:
                    mv.append("t%d" % (ival // 2 if ch == "h" else ival))
            out.append(cfg_str(ops, cap, ival) + " | " + " ".join(mv + tail(ops, cap, ival, v)))
    return out


# ------------------------------------------------------------------ direct oracle
def timeline(tr):
    """[(time, kind, payload)] for the moves of a trace; deliveries as ('d', value)"""
    t, ev = 0, []
    for mv, res, ln in tr.steps:
        if mv[0] == "t" and res == "ok":
            t += int(mv[1:])
        ev.append((t, mv, res, ln))
    return ev


def evaluate(ctx, script, tr, record=True):
    cfg = tr.cfg
    ops, cap, ival = int(cfg["ops"]), int(cfg["cap"]), int(cfg["ival"])
    bound = 2 * ops + 1 + cap
    dl = int(cfg.get("dl", 0))
    key = {"stage": STAGE}
    vs = []
    sent, got = [], []
    dtimes = []            # delivery times before cancellation
    cancelled = closed_in = False
    regime = True          # "input always available and consumer always ready" so far
    eager_checked = 0
    t = 0
    prev = None            # previous (move, result)
    for mv, res, ln in tr.steps:
        c = mv[0]
        if c == "t" and res == "ok":
            if not cancelled and not closed_in:
                waiting = len(sent) - len(got)
                d = int(mv[1:])
                # (a) consumer took everything, (b) input waiting, (c) the sleep does not run past the next
                # pacer round (rounds start at multiples of the interval in this regime)
                if not (prev and prev[0] == "r0" and prev[1] == "empty" and waiting > 0 and t + d <= (t // ival + 1) * ival):
                    regime = False
            t += int(mv[1:])
            if dl and t >= dl:
                cancelled = True     # the context's deadline has passed: "before cancellation" ends here
        elif c == "s" and res == "ok":
            sent.append(int(mv[1:]))
        elif c == "c" and res == "ok":
            closed_in = True
        elif c == "x":
            cancelled = True
        elif c == "r":
            if res.startswith("v"):
                i = len(got)
                got.append(int(res[1:]))
                if got != sent[:len(got)]:
                    vs.append(vlib.Violation("impl", "Throttling delivered %s, the input is %s (loss, duplication or reordering)" % (got, sent),
                                             case=script, expected=sent[:len(got)], got=got, key=key))
                    break
                if not cancelled:
                    dtimes.append(t)
                    lo = (i // ops) * ival
                    if t < lo:
                        vs.append(vlib.Violation("impl", "Throttling (ops=%d interval=%d): element %d delivered at t=%d, earlier than floor(i/ops)*interval=%d" % (ops, ival, i, t, lo),
                                                 case=script, expected=">= %d" % lo, got=t, key=key))
                    if regime and not closed_in:
                        eager_checked += 1
                        if t > lo + ival:
                            vs.append(vlib.Violation("impl", "Throttling (ops=%d interval=%d), input always available and consumer always ready: element %d delivered at t=%d, later than %d" % (ops, ival, i, t, lo + ival),
                                                     case=script, expected="<= %d" % (lo + ival), got=t, key=key))
            elif res == "empty":
                i = len(got)
                if closed_in and got == sent:
                    vs.append(vlib.Violation("impl", "Throttling: input closed and all %d elements delivered but `out` is not closed" % len(sent),
                                             case=script, expected="closed", got="empty", key=key))
                if regime and not cancelled and not closed_in and len(sent) > len(got) and t > ((i // ops) + 1) * ival:
                    vs.append(vlib.Violation("impl", "Throttling (ops=%d interval=%d), input always available and consumer always ready: element %d still not delivered at t=%d > %d" % (ops, ival, i, t, (i // ops + 1) * ival),
                                             case=script, expected="delivered by %d" % ((i // ops + 1) * ival), got="empty at %d" % t, key=key))
            elif res == "closed":
                if got != sent and not cancelled:
                    vs.append(vlib.Violation("impl", "Throttling closed `out` after delivering %s of %s without cancellation" % (got, sent),
                                             case=script, expected=sent, got=got, key=key))
                if not closed_in and not cancelled:
                    vs.append(vlib.Violation("impl", "Throttling closed `out` although the input is open and the context live", case=script, key=key))
        elif c == "z":
            # goroutine counts are C06's subject (checks/C06_throttle.py evaluates them on the same scripts); this
            # property says nothing about them, so a rewrite that keeps a helper goroutine is no alarm here
            pass
        prev = (mv, res)
    # window bound on the deliveries before cancellation: D[i+bound] >= D[i] + interval
    worst = 0
    for i in range(len(dtimes)):
        j = i
        while j < len(dtimes) and dtimes[j] < dtimes[i] + ival:
            j += 1
        worst = max(worst, j - i)
        if j - i > bound:
            vs.append(vlib.Violation("impl", "Throttling (ops=%d c=%d interval=%d): %d deliveries in the window [%d,%d), the bound is 2*ops+1+c=%d" % (ops, cap, ival, j - i, dtimes[i], dtimes[i] + ival, bound),
                                     case=script, expected="<= %d" % bound, got=j - i, key=key))
            break
    if record:
        ctx.hist("ops", ops)
        ctx.hist("cap", cap)
        ctx.hist("interval", ival)
        ctx.hist("deliveries_before_cancel", min(len(dtimes), 20))
        ctx.hist("max_window_count_minus_bound", worst - bound if ival > 0 else "n/a")
        ctx.hist("upper_bound_checked_elements", min(eager_checked, 20))
        ctx.hist("out_closed_observed", 0 in tr.closed)
    return vs


def shrink(ctx, binp, v, evalf, rounds=10):
    """delta-debugging over the move list: keep deleting chunks while the implementation still violates the property"""
    if not v.case or " | " not in v.case:
        return v
    cfg, _, rest = v.case.partition(" | ")
    moves = rest.split()
    best = v
    for _ in range(rounds):
        cands, seen = [], set()
        for size in sorted({max(1, len(moves) // 2), max(1, len(moves) // 4), 8, 4, 2, 1}, reverse=True):
            for off in range(0, len(moves), size):
                c = moves[:off] + moves[off + size:]
                t = " ".join(c)
                if c and t not in seen:
                    seen.add(t)
                    cands.append(c)
        cands.sort(key=len)
        scripts = [cfg + " | " + " ".join(c) for c in cands]
        obs, crashes = ls.run_scripts(ctx, binp, scripts)
        hit = None
        for i, sc in enumerate(scripts):
            if i in crashes:
                w = vlib.Violation("impl", best.what, case=sc, got=crashes[i][-1500:], key=best.key)
            elif obs[i] is None:
                continue
            else:
                vs = evalf(sc, ls.Trace(sc, obs[i]))
                w = vs[0] if vs else None
            if w is not None:
                hit = (cands[i], w)
                break
        if hit is None:
            break
        moves, best = hit
    return best


def with_deadline(rng, scripts):
    """the same scripts under a caller context that carries a deadline (context.WithTimeout): the deadline falls inside
    the run, not on a multiple of interval/2 (no tie between the deadline and a refill or a scripted instant)"""
    out = []
    for s in scripts:
        cfgs, mv = s.split(" | ", 1)
        ival = int(re.search(r"ival=(-?\d+)", cfgs).group(1))
        if ival < 4:
            continue
        dl = rng.randrange(0, 5) * ival + rng.choice([1, ival // 4, ival // 2 + 1, ival - 1])
        out.append("%s dl=%d | %s" % (cfgs, dl, mv))
    return out


def judge_direct(ctx, scripts, binp, both, label="deadline (WithTimeout), direct oracle only"):
    """ls.judge without the model comparison (the oracle's lock-step model has no deadline contexts): run on the
    implementation, crash attribution, direct oracle"""
    obs, crashes = ls.run_scripts(ctx, binp, scripts)
    for i, s in enumerate(scripts):
        if i in crashes:
            txt = crashes[i]
            cls = "deadlock" if "deadlock" in txt else ("panic" if "panic" in txt else "crash")
            m = re.search(r"panic: ([^\n]*)", txt)
            ctx.violations.append(vlib.Violation("impl", "pipe.Throttling (%s): the library crashed: %s" % (label, m.group(1) if m else cls), case=s,
                                                 got=txt[-1500:], key={"stage": STAGE, "pkg": "pipe", "class": cls}))
            continue
        if obs[i] is None:
            ctx.broken.append({"kind": "correspondence", "detail": "no observation for script", "case": s})
            continue
        tr = ls.Trace(s, obs[i])
        if not tr.complete:
            ctx.broken.append({"kind": "correspondence", "detail": "observation line does not match the script", "case": s, "impl": " ".join(obs[i])[:2000]})
            continue
        ctx.cov["direct_oracle_only"] = ctx.cov.get("direct_oracle_only", 0) + 1
        ctx.hist("context", label)
        ctx.violations += both(s, tr)
        ctx.count(s, nontrivial=bool(tr.recv))
        if i % 97 == 0:
            ctx.sample({"script": s[:600], "observations": " ".join(obs[i])[:1500], "model": "not asked (direct oracle only)"}, limit=10)
    if -1 in crashes:
        ctx.broken.append({"kind": "correspondence", "detail": "harness failed: " + crashes[-1][-800:]})


def run(ctx):
    ctx.cov["rule"] = ("script = Throttling config (ops 1..4, capacity 0..3, interval 10/100/1000 virtual ms) + environment moves (non-blocking send, "
                       "close, non-blocking receive, virtual sleep, goroutine census) replayed under testing/synctest: eager runs (input always available, consumer "
                       "always ready), idle periods followed by bursts, slow consumers, random phases, every move sequence of length 4 (quick) / 6 (thorough) over "
                       "{send, receive, sleep interval/2, sleep interval} for ops 1..2 x capacity 0..1, and cancel/close placed at random points; non-trivial = a send completed and a value or the close was "
                       "observed; distinct by script text")
    ctx.assumptions += ls.ASSUME + ["time.After/timers fire punctually on the synctest virtual clock; real timers can only be later (lower bounds and the window bound are proved for late timers too, the upper bound only for the eager model)"]
    ls.regen_stages(ctx, pipe=False, fork=False, sources=True)
    ctx.prove()
    if ctx.thorough():
        ctx.leanchecker()
    if ctx.replay:
        scripts = [json.load(open(ctx.replay))["case"]] * 25   # `select` among ready arms is random: repeat
    else:
        n = 12000 if ctx.thorough() else 1500
        scripts = gen_scripts(ctx.rng, n)
        if ctx.thorough():
            scripts += grid() + exhaustive(6)
        else:
            scripts += [worst_burst(o, c, 100) for o in (1, 2, 3) for c in (0, 1, 2)] + exhaustive(4)
        if ctx.broken:
            scripts += gen_scripts(ctx.rng, 4 * n)
    binp, err = ls.build(ctx)
    if binp is None:
        ctx.broken.append({"kind": "correspondence", "detail": "lock-step harness does not build against /repo/pipe", "log": err})
        return
    from checks import C06_throttle
    both = lambda s, tr, rec=True: evaluate(ctx, s, tr, record=rec) + C06_throttle.evaluate(s, tr, census=False)
    ls.judge(ctx, scripts, both, sub="throttle", binp=binp)
    if not ctx.replay:
        # "before cancellation": scripts with cancel and close at random points (generator of the C06 share)
        sc = C06_throttle.gen_scripts(ctx.rng, 3000 if ctx.thorough() else 400)
        ls.judge(ctx, sc, both, sub="throttle", binp=binp)
        # the caller's context may carry a deadline: the rate bound holds up to the moment it passes
        dsc = with_deadline(ctx.rng, gen_scripts(ctx.rng, 3000 if ctx.thorough() else 400) + [worst_burst(o, c, 100) for o in (1, 2, 3) for c in (0, 1, 2)])
        judge_direct(ctx, dsc, binp, both)
        # the bound is stated for all intervals: the same scripts with a microsecond as the time unit (interval 10 us …)
        usc = [s.replace(" | ", " unit=us | ", 1) for s in gen_scripts(ctx.rng, 1500 if ctx.thorough() else 200)]
        judge_direct(ctx, usc, binp, both, label="time unit of the script = 1 microsecond (intervals below a millisecond), direct oracle only")
        # calls are independent: the same scripts in a process where another Throttling was cancelled in mid-interval
        # and a third one is busy on its own context (go/harness/lockstep/throttle_test.go, mode=hist)
        hsc = [s.replace(" | ", " mode=hist | ", 1) for s in gen_scripts(ctx.rng, 1500 if ctx.thorough() else 250)]
        judge_direct(ctx, hsc, binp, both, label="another Throttling cancelled in mid-interval before, a third one busy (direct oracle only)")
        if ctx.violations:
            # report the smallest script on which the implementation still violates the property
            ctx.violations.sort(key=lambda v: len(v.case or ""))
            ctx.violations[0] = shrink(ctx, binp, ctx.violations[0], lambda s, tr: both(s, tr, False))
