"""C16 — duct builds the AST its combinators describe; visits are well-bracketed.

Tie: H.  Lean theorems (Props/C16.lean) over the hand model Model/Duct.lean (append, unit, the six
combinators, Apply) against the stack-machine specification Model/DuctSpec.lean.  Correspondence:
this file GENERATES Go source (the combinators' type parameters are static) with well-typed programs
over T0, T1, int, string, any, duct.Void, *X, []X; the harness (go/harness/duct) builds each program with
the real /repo/duct and visits it with a recording visitor failing at callback index k (every k, and
never); the oracle runs the Lean model on the same program descriptions; lines are diffed.
Direct oracle (here, in Python, independent of the Lean model): a stack machine computes the expected
tree and trace; brackets, depths, the single root, truncation at k and the returned error are checked
on the harness output itself.

case line:  P<pid> <k> from <A> join <B> <C> liftF <B> <C> wrapF <B> unit <B> yield <B> ...
"""
import itertools, json
import vlib

FULL = 999999            # k that is never reached: the complete visit
BASES = ["T0", "T1", "int", "string"]
OPS = ["join", "liftF", "wrapF", "unit", "yield"]
MAX_NEST_RANDOM = 5


# ------------------------------------------------------------------ types (strings: [] and * prefixes; "Void" = duct.Void, "any" = any)
def is_slice(t):
    return t.startswith("[]")


def elem(t):
    return t[2:]


def go_type(t):
    if t.startswith("[]"):
        return "[]" + go_type(t[2:])
    if t.startswith("*"):
        return "*" + go_type(t[1:])
    return "duct.Void" if t == "Void" else t


def type_name(t):
    """duct.TypeOf as the property states it (reflect: Ptr -> "*"+elem, Slice -> "[]"+elem, else Name())."""
    if t.startswith("[]"):
        return "[]" + type_name(t[2:])
    if t.startswith("*"):
        return "*" + type_name(t[1:])
    return "" if t == "any" else t


def rand_base(rng):
    """a non-slice type"""
    r = rng.random()
    if r < 0.70:
        return rng.choice(BASES)
    if r < 0.92:
        return "*" + rand_type(rng, rng.randrange(0, 2))
    return rng.choice(["any", "Void"])


def rand_type(rng, layers):
    return "[]" * layers + rand_base(rng)


# ------------------------------------------------------------------ typing an op sequence
def need_layers(ops, i):
    """slice layers the type produced at position i-1 must have so that ops[i:] up to the next
    join/liftF/yield type-check"""
    r, need = 0, 0
    for op in ops[i:]:
        if op == "wrapF":
            r -= 1
            need = max(need, -r)
        elif op == "unit":
            r += 1
        elif op == "liftF":
            need = max(need, -(r - 1))
            break
        else:
            break
    return need


def assign_types(rng, ops, extra=0.25):
    """Turn an op sequence into a well-typed program [('from',A), ('join',B,C), ...] or None when no
    typing exists (a slice is needed right after Yield, whose result type is duct.Void)."""
    def fresh(i):
        n = need_layers(ops, i)
        if rng.random() < extra:
            n += 1
        return rand_type(rng, n)
    cur = fresh(0)
    prog = [("from", cur)]
    for i, op in enumerate(ops):
        if op == "join":
            c = fresh(i + 1)
            prog.append(("join", cur, c)); cur = c
        elif op == "liftF":
            if not is_slice(cur):
                return None
            c = fresh(i + 1)
            prog.append(("liftF", elem(cur), c)); cur = c
        elif op == "wrapF":
            if not is_slice(cur):
                return None
            prog.append(("wrapF", elem(cur))); cur = elem(cur)
        elif op == "unit":
            prog.append(("unit", cur)); cur = "[]" + cur
        elif op == "yield":
            prog.append(("yield", cur)); cur = "Void"
            if need_layers(ops, i + 1) > 0:
                return None
    return prog


def well_typed(prog):
    """Go's typing rules for the chain, checked independently of assign_types."""
    if not prog or prog[0][0] != "from":
        return False
    cur = prog[0][1]
    for st in prog[1:]:
        op = st[0]
        if op == "join":
            if st[1] != cur: return False
            cur = st[2]
        elif op == "liftF":
            if cur != "[]" + st[1]: return False
            cur = st[2]
        elif op == "wrapF":
            if cur != "[]" + st[1]: return False
            cur = st[1]
        elif op == "unit":
            if st[1] != cur: return False
            cur = "[]" + cur
        elif op == "yield":
            if st[1] != cur: return False
            cur = "Void"
        else:
            return False
    return True


def random_ops(rng, n, max_nest):
    ops, nest = [], 0
    # weights tuned so that deep nesting, Unit at depth, Unit on the root and post-Yield steps all occur
    mode = rng.choice(["mixed", "deep", "flat"])
    for _ in range(n):
        w = {"join": 3, "liftF": 3, "wrapF": 2, "unit": 3, "yield": 1}
        if mode == "deep":
            w.update(liftF=5, wrapF=4, unit=2)
        if mode == "flat":
            w.update(join=5, liftF=1, wrapF=1)
        if nest >= max_nest:
            w["liftF"] = w["wrapF"] = 0
        op = rng.choices(OPS, [w[o] for o in OPS])[0]
        ops.append(op)
        if op in ("liftF", "wrapF"):
            nest += 1
        elif op == "unit" and nest > 0:
            nest -= 1
    return ops


def desc(prog):
    return " ".join(" ".join(st) for st in prog)


def parse_desc(words):
    prog, i = [], 0
    ar = {"from": 1, "join": 2, "liftF": 2, "wrapF": 1, "unit": 1, "yield": 1}
    while i < len(words):
        n = ar[words[i]]
        prog.append(tuple(words[i:i + 1 + n])); i += 1 + n
    return prog


# ------------------------------------------------------------------ Go source
def emit_go(progs):
    out = ["// Code generated by /verif/checks/C16.py. DO NOT EDIT.", "package main", "",
           'import "github.com/fogfish/golem/duct"', "", "func init() {", "\tprograms = append(programs,"]
    # how an operand value comes about does not matter, the recorded names are those of the step's type parameters:
    # lifted by L1/L2 (half of the operands), the zero value of T[A] / F[B, C], or a value lifted at other types and
    # converted (all instances of T, and of F, share one underlying type)
    def t1(pi, i, a):
        k = (pi * 7 + i * 3) % 4
        return ("duct.L1[%s](nil)" % a) if k < 2 else (("duct.T[%s]{}" % a) if k == 2 else ("duct.T[%s](duct.L1[string](nil))" % a))

    def f2(pi, i, b, c):
        k = (pi * 5 + i * 3) % 4
        return ("duct.L2[%s, %s](nil)" % (b, c)) if k < 2 else (("duct.F[%s, %s]{}" % (b, c)) if k == 2 else ("duct.F[%s, %s](duct.L2[string, string](nil))" % (b, c)))

    for pi, p in enumerate(progs):
        a = go_type(p[0][1])
        body = ["m0 := duct.From[%s](%s)" % (a, t1(pi, 0, a))]
        for i, st in enumerate(p[1:], 1):
            op = st[0]
            if op in ("join", "liftF"):
                b, c = go_type(st[1]), go_type(st[2])
                fn = "Join" if op == "join" else "LiftF"
                body.append("m%d := duct.%s[%s, %s, %s](%s, m%d)" % (i, fn, a, b, c, f2(pi, i, b, c), i - 1))
            elif op == "wrapF":
                body.append("m%d := duct.WrapF[%s, %s](m%d)" % (i, a, go_type(st[1]), i - 1))
            elif op == "unit":
                body.append("m%d := duct.Unit[%s, %s](m%d)" % (i, a, go_type(st[1]), i - 1))
            elif op == "yield":
                b = go_type(st[1])
                body.append("m%d := duct.Yield[%s, %s](%s, m%d)" % (i, a, b, t1(pi, i, b), i - 1))
        body.append("return m%d" % (len(p) - 1))
        out.append("\t\tprogram{%s, func() applier {\n\t\t\t%s\n\t\t}}," % (json.dumps(desc(p)), "\n\t\t\t".join(body)))
    out += ["\t)", "}", ""]
    return "\n".join(out)


# ------------------------------------------------------------------ independent specification: stack machine + visit
def spec_tree(prog):
    """Stack of open contexts; a context is ['seq', root, deferred, children]."""
    root = ["seq", True, True, [("from", type_name(prog[0][1]))]]
    stack = [root]
    max_nest, unit_on_root = 0, 0
    for st in prog[1:]:
        op = st[0]
        if op == "join":
            stack[-1][3].append(("map", type_name(st[1]), type_name(st[2])))
        elif op == "yield":
            stack[-1][3].append(("yield", type_name(st[1])))
        elif op in ("liftF", "wrapF"):
            ctx = ["seq", False, True, []]
            if op == "liftF":
                ctx[3].append(("map", type_name(st[1]), type_name(st[2])))
            stack[-1][3].append(ctx)
            stack.append(ctx)
            max_nest = max(max_nest, len(stack) - 1)
        elif op == "unit":
            if len(stack) > 1:
                stack.pop()[2] = False
            else:
                unit_on_root += 1          # only the root is open: nothing changes, root stays Deferred
    return root, max_nest, unit_on_root


def spec_events(node, depth, out):
    if node[0] == "seq":
        kind = "morph" if node[1] else "seq"
        pay = "r%dd%dn%d" % (node[1], node[2], len(node[3]))
        out.append("+%s:%d:%s" % (kind, depth, pay))
        for c in node[3]:
            spec_events(c, depth + 1, out)
        out.append("-%s:%d:%s" % (kind, depth, pay))
    else:
        pay = node[1] if node[0] != "map" else node[1] + ">" + node[2]
        out.append("+%s:%d:%s" % (node[0], depth, pay))
        out.append("-%s:%d:%s" % (node[0], depth, pay))
    return out


def parse_line(line):
    """'n=5 err=nil | ev ev' -> (n, err, [events]) or None"""
    try:
        head, _, tail = line.partition(" |")
        h = dict(x.split("=", 1) for x in head.split())
        return int(h["n"]), h["err"], tail.split()
    except Exception:
        return None


def check_brackets(events):
    """every enter matched by its leave (same kind, depth, payload) in stack order; children one level
    deeper than their parent, only morph/seq have children; first enter at depth 0"""
    stk = []
    for e in events:
        sign, rest = e[0], e[1:]
        kind, d, pay = rest.split(":", 2)
        d = int(d)
        if sign == "+":
            if stk:
                pk, pd, _ = stk[-1]
                if d != pd + 1:
                    return "child at depth %d under parent at depth %d (%s)" % (d, pd, e)
                if pk not in ("morph", "seq"):
                    return "callback nested inside a %s node (%s)" % (pk, e)
            elif d != 0:
                return "outermost node entered at depth %d" % d
            stk.append((kind, d, pay))
        else:
            if not stk:
                return "leave without enter: " + e
            if stk[-1] != (kind, d, pay):
                return "leave %s does not match pending enter %s:%d:%s" % (e, stk[-1][0], stk[-1][1], stk[-1][2])
            stk.pop()
    if stk:
        return "enter never left: +%s:%d:%s" % stk[-1]
    return None


# ------------------------------------------------------------------ the check
def gen_programs(ctx):
    rng = ctx.rng
    progs, seen = [], set()

    def add(p, origin):
        if p is None:
            return
        d = desc(p)
        if d in seen:
            return
        seen.add(d)
        assert well_typed(p), d
        progs.append((p, origin))

    if ctx.thorough():
        exh_len = 6          # From + up to 6 further steps
        for n in range(0, exh_len + 1):
            for ops in itertools.product(OPS, repeat=n):
                p = assign_types(rng, list(ops))
                if p is not None:
                    add(p, "exhaustive")
                else:
                    ctx.hist("untypeable_op_sequences", n)
        n_rand, max_len = 2000, 13
    else:
        for n in range(0, 3):
            for ops in itertools.product(OPS, repeat=n):
                p = assign_types(rng, list(ops))
                if p is not None:
                    add(p, "exhaustive")
        n_rand, max_len = 400 - len(progs), 7
    if ctx.broken:
        n_rand *= 4  # failing-input search on an enlarged budget
    tries = 0
    target = len(progs) + n_rand
    while len(progs) < target and tries < 50 * n_rand:
        tries += 1
        n = rng.randrange(1, max_len + 1)
        p = assign_types(rng, random_ops(rng, n, MAX_NEST_RANDOM))
        if p is not None:
            add(p, "random")
    return progs


def run_chunk(ctx, progs, base_pid_label):
    """Compile one generated file, run every (program, k), diff against the oracle, evaluate the property."""
    src = emit_go([p for p, _ in progs])
    binp, err = ctx.harness("duct", {"github.com/fogfish/golem/duct": vlib.REPO + "/duct"},
                            extra_files={"programs_gen.go": src})
    if binp is None:
        ctx.broken.append({"kind": "correspondence", "detail": "harness with generated well-typed programs does not build against /repo/duct",
                           "log": err})
        return
    # pass 1: complete visits (tell how many callbacks each program has)
    full_cases = ["P%d %d %s" % (i, FULL, desc(p)) for i, (p, _) in enumerate(progs)]
    rc, full_impl, err = ctx.run_harness(binp, [], full_cases)
    if len(full_impl) != len(full_cases):
        ctx.broken.append({"kind": "correspondence", "detail": "harness produced %d lines for %d cases: %s" % (len(full_impl), len(full_cases), err[-500:])})
        return
    cases, owner = [], []
    for i, ((p, origin), c, line) in enumerate(zip(progs, full_cases, full_impl)):
        root, max_nest, unit_on_root = spec_tree(p)
        want = spec_events(root, 0, [])
        cases.append(c); owner.append(i)
        got = parse_line(line)
        nk = max(len(want), len(got[2]) if got else 0)
        for k in range(nk + 1):      # every callback index, and one beyond the trace
            cases.append("P%d %d %s" % (i, k, desc(p))); owner.append(i)
    rc, impl, err = ctx.run_harness(binp, [], cases)
    if len(impl) != len(cases):
        ctx.broken.append({"kind": "correspondence", "detail": "harness produced %d lines for %d cases: %s" % (len(impl), len(cases), err[-500:])})
        return
    model = ctx.oracle("C16", cases)
    ctx.diff(cases, impl, model, "Lean model of duct (build + Apply with failing recorder) vs real duct")

    # direct oracle
    full = {}
    for c, line, i in zip(cases, impl, owner):
        p, origin = progs[i]
        k = int(c.split(" ", 2)[1])
        d = desc(p)
        ops = [st[0] for st in p[1:]]
        key = {"ops": " ".join(ops), "k": k}
        root, max_nest, unit_on_root = spec_tree(p)
        want = spec_events(root, 0, [])
        ctx.count(d + " @%d" % k)
        got = parse_line(line)
        if got is None:
            ctx.violations.append(vlib.Violation("impl", "visit does not complete normally (%s)" % line[:40], case=c,
                                                 expected="n=.. err=.. | trace", got=line, key=key))
            continue
        n, es, evs = got
        if k == FULL:
            full[i] = evs
            ctx.hist("origin", origin)
            ctx.hist("steps_incl_From", len(p))
            ctx.hist("max_nesting", max_nest)
            ctx.hist("callbacks", len(want))
            ctx.hist("unit_on_root_only", unit_on_root)
            ctx.hist("steps_after_Yield", sum(1 for j, o in enumerate(ops) if "yield" in ops[:j]))
            for o in ["from"] + ops:
                ctx.hist("op", o)
            what = None
            if evs != want:
                what = "visited tree differs from the declared steps (stack-machine specification)"
                # say which part of the property fails
                if [e for e in evs if e[1:6] == "morph"] != [want[0], want[-1]] or evs[:1] != want[:1] or evs[-1:] != want[-1:]:
                    what = "visit does not report exactly one root morphism enclosing all steps"
                elif [e.split(":")[0] + e.split(":", 2)[2] for e in evs] == [e.split(":")[0] + e.split(":", 2)[2] for e in want]:
                    what = "callback depths differ from the nesting of the declared steps"
                elif [e.rsplit(":", 1)[0] for e in evs if e[1] in "mfy" and e[1:6] != "morph"] == [e.rsplit(":", 1)[0] for e in want if e[1] in "mfy" and e[1:6] != "morph"] and \
                        [e for e in evs if e[1] == "s" or e[1:6] == "morph"] == [e for e in want if e[1] == "s" or e[1:6] == "morph"]:
                    what = "recorded type names differ from duct.TypeOf of the step's type parameters"
            br = check_brackets(evs)
            if br is not None:
                what = "trace not well-bracketed / child depth wrong: " + br
            if what is None and (es != "nil" or n != len(evs)):
                what = "non-failing visit returned an error or miscounted callbacks"
            if what:
                ctx.violations.append(vlib.Violation("impl", what, case=c, expected="n=%d err=nil | %s" % (len(want), " ".join(want)),
                                                     got=line, key=key))
            elif max_nest >= 2 and len(ctx.cov["samples"]) < 3:
                ctx.sample({"case": c, "impl": line})
        else:
            base = full.get(i)
            if base is None:
                continue
            exp_evs = base[:k + 1]
            exp_err = "E%d" % k if k < len(base) else "nil"
            if evs != exp_evs or es != exp_err or n != len(exp_evs):
                if k < len(base) and len(evs) > k + 1:
                    what = "an error returned by callback #%d (%s) does not stop the visit" % (k, base[k].split(":")[0])
                elif es != exp_err:
                    what = "the error returned by callback #%d (%s) is not what Apply returns" % (k, base[k].split(":")[0] if k < len(base) else "-")
                else:
                    what = "trace of the visit failing at callback #%d is not the prefix of the complete trace" % k
                key = dict(key, cb=(base[k].split(":")[0] if k < len(base) else "-"))
                ctx.violations.append(vlib.Violation("impl", what, case=c,
                                                     expected="n=%d err=%s | %s" % (len(exp_evs), exp_err, " ".join(exp_evs)), got=line, key=key))
            elif k == 3 and max_nest >= 2 and len(ctx.cov["samples"]) < 6:
                ctx.sample({"case": c, "impl": line})


def run(ctx):
    ctx.cov["rule"] = ("case = (generated well-typed Go program of From/Join/LiftF/WrapF/Unit/Yield with explicit type arguments, failing callback "
                       "index k); every k from 0 to one beyond the trace plus the never-failing visit; thorough: every typeable op sequence of "
                       "From + <=6 further steps (types drawn at random where free) + 2000 random programs of <=14 steps, nesting <=5; quick: every "
                       "typeable sequence of From + <=2 steps + random ones of <=8 steps, 400 programs in all; non-trivial = every case; distinct by (program description, k)")
    ctx.assumptions += ["payloads Source/Target/F are opaque and not modelled (no code path of duct inspects them)",
                        "reflect.Type.Name()/Kind() of the type arguments are modelled by Ty (named / unnamed-other / slice / pointer)",
                        "visitor callbacks terminate and do not panic; their state and errors are arbitrary",
                        "each intermediate Morphism value is used once (the generated programs thread m0, m1, ... linearly)"]
    ctx.prove()
    if ctx.thorough():
        ctx.leanchecker()
    if ctx.replay:
        r = json.load(open(ctx.replay))
        words = r["case"].split()
        progs = [(parse_desc(words[2:]), "replay")]
        run_chunk(ctx, progs, 0)
        return
    progs = gen_programs(ctx)
    try:
        _run_all(ctx, progs)
    finally:
        ctx.violations.sort(key=lambda v: len(v.case or ""))   # report the smallest failing program first


def _run_all(ctx, progs):
    ctx.note("generated %d well-typed programs" % len(progs))
    chunk = 2500
    for s in range(0, len(progs), chunk):
        run_chunk(ctx, progs[s:s + chunk], s)
        ctx.note("chunk %d: %d cases so far, %d violations" % (s // chunk, ctx.cov["evaluations"], len(ctx.violations)))
