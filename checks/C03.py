"""C03 — struct unfolding lists every field once, in order, with its true offset.
Tie: H (Model/Layout + Model/Hseq vs the real compiler + hseq on generated shapes) + direct oracle
(Python flatten of the shape description with compiler offsets)."""
import vlib
from checks import shapes as S


def parse_listing(res):
    out = []
    if res == "":
        return out
    for part in res.split(" || "):
        head, ty, pure = part.split("|")
        i, name, key, anon, off, root = head.split(" ")
        out.append(dict(id=int(i), name=name, key=key, anon=anon == "1", offset=int(off), root=int(root), type=ty, pure=pure))
    return out


def check_listing(ctx, b, sh, req, meta, res, truth, size):
    def bad(what, exp, got, cls):
        ctx.violations.append(vlib.Violation("impl", what, case=S.case_of(b, req, meta), expected=exp, got=got, key={"class": cls}))
    if res.startswith("panic"):
        bad("hseq.New panics on a struct type", "listing", res, "new-panics")
        return
    got = parse_listing(res)
    want = sh.listing
    if len(got) != len(want):
        bad("unfolding does not list one entry per field (depth-first through embedded structs)", "%d entries: %s" % (len(want), [e["name"] for e in want]),
            "%d entries: %s" % (len(got), [e["name"] for e in got]), "listing-length")
        return
    for i, (g, w) in enumerate(zip(got, want)):
        if (g["name"], g["anon"], g["type"], g["pure"]) != (w["name"], w["anon"], S.gostr(w["type"]), S.gostr(w["pure"])):
            bad("entry %d of the listing is not the %d-th field in depth-first declaration order" % (i, i),
                (w["name"], w["anon"], S.gostr(w["type"]), S.gostr(w["pure"])), (g["name"], g["anon"], g["type"], g["pure"]), "listing-order")
            return
        if g["key"] != w["key"]:
            bad("FieldKey of entry %d is not the hseq tag name / field name" % i, w["key"], g["key"], "fieldkey")
            return
        if g["id"] != i:
            bad("entry ID is not its position in the full listing", i, g["id"], "id")
            return
        if w["value"]:
            p = w["path"]
            parent = truth[p[:-1]][0] if len(p) > 1 else 0
            real = truth[p][0]
            if g["root"] + g["offset"] != real or g["root"] != parent:
                bad("RootOffs+Offset of entry %d (%s) is not the field's real byte offset" % (i, w["name"]),
                    "root=%d total=%d" % (parent, real), "root=%d total=%d" % (g["root"], g["root"] + g["offset"]), "offset")
                return
            if real + truth[p][1] > size:
                bad("field range exceeds the struct", size, real + truth[p][1], "offset")
                return


def expect_lookup(sh, meta):
    k = meta["kind"]
    L = sh.listing
    if k == "forname":
        e = sh.first_by_key(meta["name"])
        return "ok %d" % e["id"] if e else "panic:errType"
    if k == "fornamemaybe":
        e = sh.first_by_key(meta["name"])
        return "some %d" % e["id"] if e else "none"
    if k == "fortype":
        e = sh.first_by_type(meta["type"])
        return "ok %d" % e["id"] if e else "panic:errType"
    if k == "new":
        es = [sh.first_by_key(n) for n in meta["names"]]
        return "panic:errType" if any(e is None for e in es) else "ok " + " ".join(str(e["id"]) for e in es)
    if k == "newn":
        es = [sh.first_by_type(t) for t in meta["types"]]
        return "panic:errType" if any(e is None for e in es) else "ok " + " ".join(str(e["id"]) for e in es)
    if k == "fmap":
        if meta["k"] < meta["n"]:
            return "panic:index"
        return "ok " + " ".join("%d:%d" % (i + 1, L[i]["id"]) for i in range(meta["n"]))
    return None


WHAT = {
    "forname": "ForName does not return the first entry whose FieldKey matches (or does not panic when none does)",
    "fornamemaybe": "ForNameMaybe does not return the first matching entry / report absence",
    "fortype": "ForType does not return the first entry of that type (or does not panic when none has it)",
    "new": "New(names...) does not keep the requested order of first matches",
    "newn": "NewN does not list the first entry of each witness type in order",
    "fmap": "FMapN does not hand the i-th entry to the i-th function",
}


def run(ctx):
    ctx.cov["rule"] = ("cases = requests (listing, lookups by name/type, New(names), New1..9, FMap1..9, compiler offsets) on generated struct shapes; "
                       "non-trivial = the request line on a shape with >= 2 listed fields; distinct by (shape s-expression, request)" + S.TWIN_RULE +
                       "; on such a container additionally: lookups by the names, keys and types of the OTHER members of its group")
    ctx.assumptions += [S.TWIN_ASSUMPTION, "gc/amd64 struct layout and reflect's field description are modelled (Model/Layout), validated against unsafe.Sizeof/Alignof/Offsetof on every generated shape",
                        "type identity (String()== && AssignableTo) is equality of GoType descriptions whose defined types carry import path + name; a fraction of the shapes lists distinct types that reflect prints identically (same-named types of harness/pa/v1, pb/v1, pc/v1 and composites of them; no interface/channel kinds, where AssignableTo is wider than identity) - see distribution.colliding_types"]
    S.apply_replay(ctx)
    S.regenerate(ctx)
    ctx.prove()
    if ctx.thorough():
        ctx.leanchecker()
    sizes = [150] * 10 if ctx.thorough() else [70, 70]
    if ctx.broken:
        sizes = sizes * 2
    batches = S.run_batches(ctx, "C03", {"layout", "lookups"}, sizes, ptr_embed=True)
    for b in batches:
        if b.error:
            continue
        S.diff_batch(ctx, b, "Model/Layout+Model/Hseq vs compiler+hseq")
        truth, size = {}, {}
        for (req, meta), res in zip(b.requests, b.impl):
            sh = b.by_sid[meta["sid"]]
            k = meta["kind"]
            ctx.count(S.sexpr(sh.type) + "|" + req, nontrivial=len(sh.listing) >= 2)
            ctx.hist("request", k)
            if sh.twins and k not in ("shape", "offs"):
                ctx.hist("same_printing_container_request", "%s%s, %s" % (k, " by a name/type of the other container" if "twin" in meta else "", "container unfolded first" if sh.twin_pos == 0 else "after a same-printing container"))
            if k == "shape":
                truth, size = {}, int(res.split()[0])
                S.shape_hist(ctx, sh)
            elif k == "offs":
                truth[meta["path"]] = tuple(map(int, res.split()))
            elif k == "list":
                check_listing(ctx, b, sh, req, meta, res, truth, size)
                if len(ctx.cov["samples"]) < 3 and sh.depth() >= 3:
                    ctx.sample({"shape": S.sexpr(sh.type), "listing": res})
            else:
                want = expect_lookup(sh, meta)
                ctx.hist("outcome", "panic" if res.startswith("panic") else "ok")
                if want is not None and res != want:
                    ctx.violations.append(vlib.Violation("impl", WHAT[k], case=S.case_of(b, req, meta), expected=want, got=res, key={"class": k}))
