"""C10 — fork.Fold equals the sequential fold for any commutative monoid.
Tie: H lock-step on the composite pool + collector model (oracle forkfold); direct oracle = fold."""
import json
import vlib, lockstep as ls

MONOIDS = {
    "sum": (0, lambda a, b: a + b),
    "prod": (1, lambda a, b: (a * b) % ls.MOD),
    "max": (-1000000, lambda a, b: a if a > b else b),
    "min": (1000000, lambda a, b: a if a < b else b),
    "and": (1048575, lambda a, b: a & b),
    "or": (0, lambda a, b: a | b),
}


def gen_script(rng, maxlen=8):
    par = rng.choice([1, 2, 2, 3, 4, 8])
    n = rng.choice([0, 0, 1, 2]) if rng.random() < 0.25 else rng.randrange(0, (maxlen if par <= 2 else 5 if par == 3 else 4) + 1)
    xs = [rng.randrange(1, 60) for _ in range(n)]
    mon = rng.choice(sorted(MONOIDS))
    cfg = "stage=Fold pkg=fork par=%d cap=%d mon=%s" % (par, rng.choice([0, 1, 2, 5]), mon)
    sends = ["s%d" % x for x in xs] + ["c0"]
    recvs = ["r0"] * rng.randrange(0, 3)
    body = ls.interleave(rng, [sends, recvs])
    return cfg + " | " + " ".join(body + ["r0", "r0", "r0", "z"])


def evaluate(script, tr):
    cfg = tr.cfg
    e, op = MONOIDS[cfg["mon"]]
    xs = tr.sent.get(0, [])
    want = e
    for x in xs:
        want = op(want, x)
    key = {"stage": "Fold", "pkg": "fork", "mon": cfg["mon"]}
    vs = []
    got = tr.values(0)
    if 0 in tr.closed:
        if got != [want]:
            vs.append(vlib.Violation("impl", "fork.Fold par=%s over the %s monoid delivered %s for input %s; the sequential fold is %s" % (cfg["par"], cfg["mon"], got, xs, want),
                                     case=script, expected=[want], got=got, key=key))
    elif 0 in tr.closed_in:
        vs.append(vlib.Violation("impl", "fork.Fold: result channel not closed after the input was closed and the result received", case=script, got=got, key=key))
    elif got and got != [want]:
        pass  # input not closed: nothing may have been delivered yet
    if got and 0 not in tr.closed_in:
        vs.append(vlib.Violation("impl", "fork.Fold delivered %s before its input was closed" % got, case=script, key=key))
    for pos, n in tr.census:
        if 0 in tr.closed and n != 0:
            vs.append(vlib.Violation("impl", "fork.Fold: %d goroutine(s) alive after the result channel closed" % n, case=script, key=key))
    return vs


def run(ctx):
    ctx.cov["rule"] = ("script = fork.Fold with par in {1,2,3,4,8}, input capacity 0/1/2/5, commutative monoid in {sum, prod mod p, max, min, bit-and, bit-or} (zero and non-zero "
                       "identities), inputs of length 0..8 incl. empty and shorter than par, sends/close interleaved with receives on the result channel; non-trivial = par >= 2 and at least 2 elements")
    ctx.assumptions += ls.ASSUME
    ls.regen_stages(ctx, pipe=False, fork=True)
    ctx.prove()
    if ctx.thorough():
        ctx.leanchecker()
    if ctx.replay:
        scripts = [json.load(open(ctx.replay))["case"]]
    else:
        scripts = [gen_script(ctx.rng) for _ in range(4000 if ctx.thorough() else 400)]
    trs = ls.judge(ctx, scripts, evaluate, sub="forkfold", record=False)
    for s, tr in zip(scripts, trs):
        if tr is not None:
            ctx.hist("par", tr.cfg["par"])
            ctx.hist("monoid", tr.cfg["mon"])
            ctx.hist("len", len(tr.sent.get(0, [])))
            ctx.count(s, nontrivial=int(tr.cfg["par"]) >= 2 and len(tr.sent.get(0, [])) >= 2)
    if ctx.thorough() and not ctx.replay:
        ls.stress(ctx, ["forkfold"], 15, {"stage": "Fold", "pkg": "fork"})
