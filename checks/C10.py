"""C10 — fork.Fold equals the sequential fold for any commutative monoid.
Tie: H lock-step on the composite pool + collector model (oracle forkfold); direct oracle = fold.

Script families (all judged by the same direct oracle `evaluate`):
  plain   stage=Fold  mon=<base>                      compared with the Lean model (oracle forkfold)
  procs   stage=Fold  mon=<base> procs=<1|2>          the same, but the harness PROCESS runs with GOMAXPROCS=<procs>
                                                      (par up to 8 > GOMAXPROCS; the model does not depend on it)
  slow    stage=FoldM mon=slow<d>:<base>              Combine takes d virtual ms, t<d> moves let time pass: Combine
                                                      calls of different goroutines overlap deterministically
  ref     stage=FoldM mon=[slow<d>:]ref:<base>        reference-typed carrier (*cell), Empty() returns a fresh cell,
                                                      Combine accumulates in place into its left operand
  same    stage=FoldM mon=[slow<d>:]ref:same:<base>  as ref, but equal element values are THE SAME *cell object: one caller-
                                                      owned object occurs several times in the input (a shared constant)
Every ref script ends with r1, the harness's inspection of the caller's side after the run: every cell handed over must
still hold the value it was sent with (with a fresh Empty() the accumulators are the library's, the elements are not; each
element is combined once, i.e. read once), and the sequential left fold over the very same objects must still be the
value fork.Fold delivered ("equal to pipe.Fold's left fold of the same input").
The FoldM families are outside what the model expresses (no clock in Go/ForkFold, the ref adapter holds one
element): direct oracle only, no model comparison (see go/harness/lockstep/forkfold_test.go).
"""
import contextlib, json, os, re
import vlib, lockstep as ls

MONOIDS = {
    "sum": (0, lambda a, b: a + b),
    "prod": (1, lambda a, b: (a * b) % ls.MOD),
    "max": (-1000000, lambda a, b: a if a > b else b),
    "min": (1000000, lambda a, b: a if a < b else b),
    "and": (1048575, lambda a, b: a & b),
    "or": (0, lambda a, b: a | b),
}
# identity differs from the Go zero value
NONZERO_ID = ["prod", "min", "and", "max"]


def base_monoid(mon):
    """mon = [slow<d>:][ref:]<base>"""
    return mon.split(":")[-1]


def variant(cfg):
    p = cfg["mon"].split(":")[:-1]
    v = "+".join(("slow" if x.startswith("slow") else x) for x in p) or "plain"
    return v


def gen_script(rng, maxlen=8, pars=None, mons=None, extra="", len8=4):
    par = rng.choice(pars or [1, 2, 2, 3, 4, 8])
    n = rng.choice([0, 0, 1, 2]) if rng.random() < 0.25 else rng.randrange(0, (maxlen if par <= 2 else 5 if par == 3 else 4 if par < 8 else len8) + 1)
    xs = [rng.randrange(1, 60) for _ in range(n)]
    mon = rng.choice(mons or sorted(MONOIDS))
    cfg = "stage=Fold pkg=fork par=%d cap=%d mon=%s%s" % (par, rng.choice([0, 1, 2, 5]), mon, extra)
    sends = ["s%d" % x for x in xs] + ["c0"]
    recvs = ["r0"] * rng.randrange(0, 3)
    body = ls.interleave(rng, [sends, recvs])
    return cfg + " | " + " ".join(body + ["r0", "r0", "r0", "z"])


def gen_long(rng):
    """inputs of 65..320 elements (batching, buffers, internal chunk sizes); the model's state set grows too fast for
    these: direct oracle only (cfg long=1)"""
    par = rng.choice([1, 2, 3, 4, 8])
    n = rng.choice([65, 66, 100, 127, 128, 129, 200, 320])
    xs = [rng.randrange(1, 60) for _ in range(n)]
    mon = rng.choice(sorted(MONOIDS))
    cap = rng.choice([0, 1, 5, 64, 100, 200])
    cfg = "stage=Fold pkg=fork par=%d cap=%d mon=%s long=1" % (par, cap, mon)
    sends = ["s%d" % x for x in xs]
    if cap >= 64:
        # bursts: as many sends as the input buffer holds, back to back (the workers meet a full buffer, not one element
        # at a time); a send that finds the buffer full does not complete and is not part of the input
        k = rng.choice([64, cap])
        sends = ["b" + ",".join(sends[i:i + k]) for i in range(0, len(sends), k)]
    return cfg + " | " + " ".join(sends + ["c0", "r0", "r0", "r0", "z"])


def gen_procs(rng):
    """few scheduler processors, many workers; monoids whose identity is not the zero value are favoured"""
    procs = rng.choice([1, 2, 2])
    mons = NONZERO_ID if rng.random() < 0.75 else None
    return gen_script(rng, pars=[2, 3, 4, 4, 8, 8], mons=mons, extra=" procs=%d" % procs, len8=2)  # (the model's state set for par=8 grows fast with the input length)


def gen_variant(rng, slow, ref, same=False, vec=False):
    """FoldM: slow and / or reference-typed monoid. Ends with enough virtual time for every Combine to return.
    same: the input is drawn from 1..3 distinct values, equal values being one shared object (ref:same)."""
    par = rng.choice([1, 1, 2, 3, 4, 8] if same else [1, 2, 2, 3, 4, 8])
    n = rng.choice([0, 1, 2]) if rng.random() < 0.2 else rng.randrange(1, 8)
    xs = [rng.randrange(1, 60) for _ in range(n)]
    d = rng.choice([1, 2, 5]) if slow else 0
    base = rng.choice(sorted(MONOIDS))
    if same:
        n = rng.randrange(2, 9)
        pool = [rng.randrange(1, 60) for _ in range(rng.choice([1, 1, 2, 3]))]
        xs = [rng.choice(pool) for _ in range(n)]
        if rng.random() < 0.6:
            base = rng.choice(["sum", "prod"])   # not idempotent: an element combined with itself shows in the value
    # vec: the carrier is a slice type (values of it cannot be compared with ==), Empty and Combine build fresh values
    mon = ("slow%d:" % d if slow else "") + ("vec:" if vec else "") + ("ref:" if ref else "") + ("same:" if same else "") + base
    extra = " procs=%d" % rng.choice([1, 2]) if rng.random() < 0.25 else ""
    cfg = "stage=FoldM pkg=fork par=%d cap=%d mon=%s%s" % (par, rng.choice([0, 1, 2, 5, 8]), mon, extra)
    sends = ["s%d" % x for x in xs] + ["c0"]
    recvs = ["r0"] * rng.randrange(0, 3)
    pauses = ["t%d" % rng.choice([1, d, 2 * d + 1]) for _ in range(rng.randrange(0, 4))] if slow else []
    body = ls.interleave(rng, [sends, recvs, pauses])
    # (n + par + 1) Combine calls in a row take at most 17 * 5 virtual ms
    return cfg + " | " + " ".join(body + ["t1000", "r0", "r0", "r0", "z"] + (["r1"] if ref else []))


def is_ref(cfg):
    return "ref" in cfg["mon"].split(":")[:-1]


def inspect_inputs(script, tr, want, got, key):
    """ref scripts: the harness's view of the caller's cells (pseudo output r1: w<orig>=<now>,…/f<fold>) after the result
    channel was closed"""
    vs, closed = [], False
    for mv, res, _ in tr.steps:
        if mv == "r0" and res == "closed":
            closed = True
        if mv != "r1" or not closed or not res.startswith("w") or "/f" not in res:
            continue
        cells, _, refold = res[1:].partition("/f")
        pairs = [tuple(int(v) for v in p.split("=")) for p in cells.split(",") if p]
        changed = [(o, n) for o, n in pairs if o != n]
        xs = tr.sent.get(0, [])
        if changed or int(refold) != want:
            vs.append(vlib.Violation("impl", "fork.Fold par=%s over the %s monoid (Empty() returns a fresh accumulator, Combine accumulates into its left operand and only reads "
                                     "the right one) modified its input %s: %s; it delivered %s, the sequential fold of the very same input objects now gives %s, of the input as sent %s"
                                     % (tr.cfg["par"], tr.cfg["mon"], xs, ", ".join("the element sent as %d now holds %d" % c for c in changed) or "-", got, refold, want),
                                     case=script, expected={"elements": [o for o, _ in pairs], "fold": want}, got={"elements": [n for _, n in pairs], "fold": int(refold), "delivered": got},
                                     key=dict(key, **{"class": "input-modified"})))
        break
    return vs


def evaluate(script, tr):
    cfg = tr.cfg
    e, op = MONOIDS[base_monoid(cfg["mon"])]
    xs = tr.sent.get(0, [])
    want = e
    for x in xs:
        want = op(want, x)
    key = {"stage": "Fold", "pkg": "fork", "mon": cfg["mon"]}
    how = "par=%s" % cfg["par"] + (" GOMAXPROCS=%s" % cfg["procs"] if "procs" in cfg else "")
    vs = []
    got = [int(t[1:]) if re.fullmatch(r"-?\d+", t[1:]) else t[1:] for t in tr.recv.get(0, []) if t[0] == "v"]
    if 0 in tr.closed:
        if got != [want]:
            vs.append(vlib.Violation("impl", "fork.Fold %s over the %s monoid delivered %s for input %s; the sequential fold is %s" % (how, cfg["mon"], got, xs, want),
                                     case=script, expected=[want], got=got, key=key))
    elif 0 in tr.closed_in:
        vs.append(vlib.Violation("impl", "fork.Fold: result channel not closed after the input was closed and the result received", case=script, got=got, key=key))
    elif got and got != [want]:
        pass  # input not closed: nothing may have been delivered yet
    if got and 0 not in tr.closed_in:
        vs.append(vlib.Violation("impl", "fork.Fold delivered %s before its input was closed" % got, case=script, key=key))
    if is_ref(cfg) and 0 in tr.closed_in:
        vs += inspect_inputs(script, tr, want, got, key)
    for pos, n in tr.census:
        # goroutine exit is claimed by C06/C09, not by C10: no violation here (the model comparison still sees it)
        if False and 0 in tr.closed and n != 0:
            vs.append(vlib.Violation("impl", "fork.Fold: %d goroutine(s) alive after the result channel closed" % n, case=script, key=key))
    return vs


@contextlib.contextmanager
def gomaxprocs(n):
    """the harness processes started inside the block inherit GOMAXPROCS=<n> (None: the machine's default)"""
    old = os.environ.get("GOMAXPROCS")
    if n is not None:
        os.environ["GOMAXPROCS"] = str(n)
    try:
        yield
    finally:
        if n is not None:
            if old is None:
                os.environ.pop("GOMAXPROCS", None)
            else:
                os.environ["GOMAXPROCS"] = old


def judge_all(ctx, binp, scripts):
    """ls.judge for a mixed bag of scripts: every script runs in a harness process with the GOMAXPROCS it asks for
    (procs=<n>; default: the machine's); stage=Fold scripts are then compared with the Lean model in ONE oracle pass,
    stage=FoldM scripts are not (direct oracle only); crashes are attributed, the direct oracle `evaluate` and the
    teardown leak check are applied to all. Returns [(script, Trace or None)]."""
    cfgs = [ls.parse_cfg(s) for s in scripts]
    obs, crashes = [None] * len(scripts), {}
    for procs in sorted({c.get("procs") for c in cfgs}, key=str):
        idx = [i for i, c in enumerate(cfgs) if c.get("procs") == procs]
        with gomaxprocs(procs):
            o, cr = ls.run_scripts(ctx, binp, [scripts[i] for i in idx])
        for j, i in enumerate(idx):
            obs[i] = o[j]
        for j, txt in cr.items():
            crashes[idx[j] if j >= 0 else -1] = txt
    midx = [i for i, c in enumerate(cfgs) if c["stage"] == "Fold" and not c.get("long")]
    verdicts = dict(zip(midx, ls.oracle_check(ctx, [scripts[i] for i in midx], [obs[i] for i in midx], sub="forkfold")))
    out = []
    for i, s in enumerate(scripts):
        cfg = cfgs[i]
        ctx.hist("stage", "fork.Fold")
        if i in crashes:
            txt = crashes[i]
            cls = "deadlock" if "deadlock" in txt else ("panic" if "panic" in txt else "crash")
            m = re.search(r"panic: ([^\n]*)", txt)
            ctx.violations.append(vlib.Violation("impl", "fork.Fold (%s monoid): the library crashed: %s" % (cfg["mon"], m.group(1) if m else cls), case=s,
                                                 got=txt[-1500:], key={"stage": "Fold", "pkg": "fork", "class": cls}))
            out.append((s, None))
            continue
        if obs[i] is None:
            ctx.broken.append({"kind": "correspondence", "detail": "no observation for script", "case": s})
            out.append((s, None))
            continue
        tr = ls.Trace(s, obs[i])
        out.append((s, tr))
        ctx.hist("completed_sends", sum(len(v) for v in tr.sent.values()))
        if i not in verdicts:
            ctx.cov["direct_oracle_only"] = ctx.cov.get("direct_oracle_only", 0) + 1
        elif verdicts[i] == "ok":
            ctx.cov["traces_validated_against_impl"] += 1
        else:
            ctx.broken.append({"kind": "correspondence", "detail": "model does not admit the implementation's observations", "case": s,
                               "impl": " ".join(obs[i]), "model": verdicts[i]})
        ctx.violations += evaluate(s, tr)
        if tr.end and tr.end != (0, 0) and ls.census_claimed(ctx):
            ctx.violations.append(vlib.Violation("impl", "fork.Fold: %d output(s) never closed / %d goroutine(s) left after cancel, close and drain" % tr.end,
                                                 case=s, key={"stage": "Fold", "pkg": "fork", "class": "leak"}))
        if i % 131 == 0:
            ctx.sample({"script": s, "observations": " ".join(obs[i]), "model": verdicts.get(i, "not compared (direct oracle only)")}, limit=8)
    if -1 in crashes:
        ctx.broken.append({"kind": "correspondence", "detail": "harness failed: " + crashes[-1][-800:]})
    return out


def run(ctx):
    ctx.cov["rule"] = ("script = fork.Fold with par in {1,2,3,4,8}, input capacity 0/1/2/5, commutative monoid in {sum, prod mod p, max, min, bit-and, bit-or} (zero and non-zero "
                       "identities), inputs of length 0..8 incl. empty and shorter than par, sends/close interleaved with receives on the result channel; non-trivial = par >= 2 and at least 2 elements. "
                       "Families (distribution.variant / distribution.procs): plain; procs = the same scripts with the harness process limited to GOMAXPROCS 1 or 2 and par up to 8 "
                       "(non-zero identities favoured), both compared with the Lean model; slow = Combine takes 1/2/5 virtual ms under synctest and the script lets time pass in t<d> moves, so "
                       "Combine calls of different goroutines overlap; ref = reference-typed carrier (*cell; Empty() returns a fresh cell, Combine accumulates in place into its left operand), "
                       "par = 1 included; same = ref with equal element values being ONE shared *cell object (2..8 elements over 1..3 distinct objects, sum/prod favoured: "
                       "distribution.ref_max_occurrences_of_one_object); every ref script ends with an inspection of the caller's cells after the result channel closed "
                       "(distribution.ref_inputs_inspected): each still holds the value it was sent with and the left fold over the same objects equals the delivered value. "
                       "slow and ref scripts (coverage.direct_oracle_only) are NOT compared with the model (it has no clock; the *cell adapter holds one element): they are "
                       "judged by the direct oracle only: exactly one value, equal to the sequential fold of the completed sends, then closed, no goroutine left.")
    ctx.assumptions += ls.ASSUME
    ls.regen_stages(ctx, pipe=False, fork=True)
    ctx.prove()
    if ctx.thorough():
        ctx.leanchecker()
    if ctx.replay:
        scripts = [json.load(open(ctx.replay))["case"]]
    else:
        k = 10 if ctx.thorough() else 1
        scripts = [gen_script(ctx.rng) for _ in range(400 * k)]
        scripts += [gen_procs(ctx.rng) for _ in range(100 * k)]
        scripts += [gen_long(ctx.rng) for _ in range(12 * k)]
        scripts += [gen_variant(ctx.rng, True, False) for _ in range(80 * k)]
        scripts += [gen_variant(ctx.rng, False, True, same=True) for _ in range(60 * k)]
        scripts += [gen_variant(ctx.rng, True, True, same=True) for _ in range(20 * k)]
        scripts += [gen_variant(ctx.rng, False, True) for _ in range(60 * k)]
        scripts += [gen_variant(ctx.rng, True, True) for _ in range(40 * k)]
        scripts += [gen_variant(ctx.rng, False, False, vec=True) for _ in range(40 * k)]
        scripts += [gen_variant(ctx.rng, True, False, vec=True) for _ in range(10 * k)]
    binp, err = ls.build(ctx)
    if binp is None:
        ctx.broken.append({"kind": "correspondence", "detail": "lock-step harness does not build against /repo/pipe", "log": err})
        return
    for s, tr in judge_all(ctx, binp, scripts):
        if tr is not None:
            ctx.hist("par", tr.cfg["par"])
            ctx.hist("monoid", base_monoid(tr.cfg["mon"]))
            ctx.hist("variant", variant(tr.cfg))
            ctx.hist("procs", tr.cfg.get("procs", "default"))
            ctx.hist("len", len(tr.sent.get(0, [])))
            if is_ref(tr.cfg):
                xs = tr.sent.get(0, [])
                if "same" in tr.cfg["mon"].split(":"):
                    ctx.hist("ref_max_occurrences_of_one_object", max([xs.count(x) for x in xs] or [0]))
                ctx.hist("ref_inputs_inspected", sum(1 for mv, res, _ in tr.steps if mv == "r1" and res.startswith("w")))
            ctx.count(s, nontrivial=int(tr.cfg["par"]) >= 2 and len(tr.sent.get(0, [])) >= 2)
    if ctx.thorough() and not ctx.replay:
        ls.stress(ctx, ["forkfold"], 15, {"stage": "Fold", "pkg": "fork"})
