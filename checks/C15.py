"""C15 — key-value iterator combinators keep list semantics and key/value pairing.

Tie: H.  Lean model `Golem.Model.PairIter` (pair.go + seq.go, `Key()` and `Value()` modelled as separate
functions following Go's method promotion), theorems in `Props/C15.lean` (`eval_eq_denote`, `map_keeps_keys`,
`callbacks_get_matching_pair`, `forEach_stops_at_first_error`, ...).  Correspondence: mixed pair/seq expression
trees are interpreted by go/harness/iter (real pair.* and seq.* combinators; the drain reads Key() and Value()
separately at every position; pair.ForEach / seq.ForEach with an error injected at a visit index) and by
`oracle C15` (the model's `eval` / `evalForEach`).  Direct oracle: this file computes the list-of-pairs semantics
itself.  Keys always differ from values and the function families are asymmetric in (key, value), so a swapped
or desynchronised key/value shows.

Other element types and callback arguments (checks/iterx.py, go/harness/iter/{types,ref}.go): the harness builders are
generic in K, V of pair.Seq[K,V] and E of seq.Seq[E]; every case is evaluated, in the same process and in an order that
changes from case to case, at (int,int,int), (int,string,string), (int,I,I) for an interface type I whose 0 is the nil
interface value, and (any,string,int); all results must agree (direct oracle only: the model is compared on the int
part).  Every callback logs the key and value (or element) it is called with; the logged calls must be among those an
eager evaluation with the list functions makes ("predicates and join functions receiving the matching key and value").

case line:  <errAt> <S|P> <expr>     (grammar: see lean/Golem/Driver/C15.lean)
"""
import json
import vlib
from checks import iterx

S_UNARY = ("TW", "DW", "FI", "MP")
P_UNARY = ("PTW", "PDW", "PFI", "PMP")
S_OPS = ("F", "S", "PL", "JN", "TS") + S_UNARY
P_OPS = ("PF", "PPL", "PJN", "FS") + P_UNARY
# binder ops: op -> (kind of first kid, kind of body, number of variables bound in the body)
BINDERS = {"JN": ("S", "S", 1), "TS": ("P", "S", 2), "PJN": ("P", "P", 2), "FS": ("S", "P", 1)}


def kind(n):
    return "S" if n[0] in S_OPS else "P"


# ------------------------------------------------------------------ syntax

def term_tok(t):
    return str(t) if isinstance(t, int) else "$%d:%d" % t


def parse_term(s):
    if s.startswith("$"):
        i, c = s[1:].split(":")
        return (int(i), int(c))
    return int(s)


def toks(n):
    op, fn, terms, kids = n
    if op == "S":
        return ["S", str(len(terms))] + [term_tok(t) for t in terms]
    if op in ("F", "PF"):
        return [op] + [term_tok(t) for t in terms]
    if op in S_UNARY or op in P_UNARY:
        return [op, fn] + toks(kids[0])
    return [op] + toks(kids[0]) + toks(kids[1])


def parse(ts, pos=0):
    op = ts[pos]
    if op == "F":
        return ("F", None, [parse_term(ts[pos + 1])], []), pos + 2
    if op == "PF":
        return ("PF", None, [parse_term(ts[pos + 1]), parse_term(ts[pos + 2])], []), pos + 3
    if op == "S":
        n = int(ts[pos + 1])
        return ("S", None, [parse_term(t) for t in ts[pos + 2:pos + 2 + n]], []), pos + 2 + n
    if op in S_UNARY or op in P_UNARY:
        k, p = parse(ts, pos + 2)
        return (op, ts[pos + 1], [], [k]), p
    if op in ("PL", "PPL") or op in BINDERS:
        a, p = parse(ts, pos + 1)
        b, p = parse(ts, p)
        return (op, None, [], [a, b]), p
    raise ValueError("bad token " + op)


def tmod(a, b):
    r = abs(a) % abs(b)
    return -r if a < 0 else r


def env_at(env, i):
    return env[i] if 0 <= i < len(env) else 0


def term_val(t, env):
    return t if isinstance(t, int) else env_at(env, t[0]) + t[1]


def pred1(fn, env):
    name, _, k = fn.partition(":")
    k = int(k) if k else None
    return {"lt": lambda v: v < k, "ge": lambda v: v >= k, "even": lambda v: tmod(v, 2) == 0,
            "odd": lambda v: tmod(v, 2) != 0, "T": lambda v: True, "N": lambda v: False,
            "ltv": lambda v: v < env_at(env, k), "nev": lambda v: v != env_at(env, k)}[name]


def map1(fn, env):
    name, _, k = fn.partition(":")
    k = int(k) if k else None
    return {"inc": lambda v: v + 1, "dbl": lambda v: v * 2, "neg": lambda v: -v, "mod3": lambda v: tmod(v, 3),
            "addv": lambda v: v + env_at(env, k)}[name]


def pred2(fn, env):
    name, _, c = fn.partition(":")
    c = int(c) if c else None
    return {"klt": lambda k, v: k < c, "kge": lambda k, v: k >= c, "vlt": lambda k, v: v < c, "vge": lambda k, v: v >= c,
            "sumlt": lambda k, v: k + v < c, "knev": lambda k, v: k != env_at(env, c), "vltv": lambda k, v: v < env_at(env, c),
            "keven": lambda k, v: tmod(k, 2) == 0, "kodd": lambda k, v: tmod(k, 2) != 0,
            "veven": lambda k, v: tmod(v, 2) == 0, "vodd": lambda k, v: tmod(v, 2) != 0,
            "kltv": lambda k, v: k < v, "T": lambda k, v: True, "N": lambda k, v: False}[name]


def map2(fn, env):
    name, _, c = fn.partition(":")
    c = int(c) if c else None
    return {"subk": lambda k, v: v - k, "kx10": lambda k, v: 10 * k + v, "vinc": lambda k, v: v + 1,
            "onlyk": lambda k, v: k, "addv": lambda k, v: v + env_at(env, c)}[name]


def takewhile(f, l):
    out = []
    for x in l:
        if not f(x):
            break
        out.append(x)
    return out


def dropwhile(f, l):
    i = 0
    while i < len(l) and f(l[i]):
        i += 1
    return l[i:]


def denote(n, env, stats=None):
    """List semantics: ints for seq expressions, (key, value) tuples for pair expressions."""
    out = denote1(n, env, stats)
    if stats is not None and any((x[1] if isinstance(x, tuple) else x) == 0 for x in out):
        stats["zero_seen"] = 1           # a 0 element / value somewhere in the expression: the nil interface value at the interface typings
    return out


def denote1(n, env, stats):
    op, fn, terms, kids = n
    if op == "F":
        return [term_val(terms[0], env)]
    if op == "S":
        return [term_val(t, env) for t in terms]
    if op == "PF":
        return [(term_val(terms[0], env), term_val(terms[1], env))]
    if op in S_UNARY or op in P_UNARY:
        l = denote(kids[0], env, stats)
        if op == "MP":
            f = map1(fn, env)
            out = [f(x) for x in l]
            if stats is not None and 0 in out:
                stats["map_zero"] = stats.get("map_zero", 0) + 1     # at the interface typings: a mapping returning nil
            return out
        if op == "PMP":
            f = map2(fn, env)
            out = [(k, f(k, v)) for k, v in l]          # keys untouched
            if stats is not None and any(v == 0 for _, v in out):
                stats["map_zero"] = stats.get("map_zero", 0) + 1
            return out
        if op in S_UNARY:
            p = pred1(fn, env)
        else:
            p2 = pred2(fn, env)
            p = lambda kv: p2(kv[0], kv[1])
        base = op[-2:]
        if base == "TW":
            return takewhile(p, l)
        if base == "DW":
            return dropwhile(p, l)
        return [x for x in l if p(x)]
    if op in ("PL", "PPL"):
        return denote(kids[0], env, stats) + denote(kids[1], env, stats)
    if op in BINDERS:
        out = []
        for x in denote(kids[0], env, stats):
            bound = list(x) if isinstance(x, tuple) else [x]   # pair: $0 = key, $1 = value
            r = denote(kids[1], bound + env, stats)
            if stats is not None:
                stats["join_calls"] += 1
                stats["join_nil"] += 0 if r else 1
            out += r
        return out
    raise ValueError(op)


def show(l):
    return " ".join(("%d:%d" % x) if isinstance(x, tuple) else str(x) for x in l)


def depth(n):
    return 1 + max([depth(k) for k in n[3]] or [0])


def ops(n, acc):
    acc[n[0]] = acc.get(n[0], 0) + 1
    for k in n[3]:
        ops(k, acc)
    return acc


def crossings(n):
    return (1 if n[0] in ("TS", "FS") else 0) + sum(crossings(k) for k in n[3])


def stack(n):
    """(length of the longest chain of unary combinators applied DIRECTLY to each other, the same one twice in a row?)"""
    best, same = 0, False
    unary = S_UNARY + P_UNARY

    def go(m, run):
        nonlocal best, same
        run = run + 1 if m[0] in unary else 0
        best = max(best, run)
        for k in m[3]:
            if m[0] in unary and k[0] == m[0]:
                same = True
            go(k, run)
    go(n, 0)
    return best, same


def expected(errat, n):
    l = denote(n, [])
    if 0 <= errat < len(l):
        vis, err = l[:errat + 1], "E%d" % errat
    else:
        vis, err = l, "-"
    return "%s|%s|%s" % (show(l), show(vis), err)


def case_line(errat, n):
    return "%d %s %s" % (errat, kind(n), " ".join(toks(n)))


def parse_case(line):
    w = line.split()
    return int(w[0]), parse(w[2:])[0]


# ------------------------------------------------------------------ generators

def gen_term(rng, envd, small):
    if envd > 0 and rng.random() < 0.55:
        return (rng.randrange(envd), rng.choice([0, 0, 1] if small else [0, 0, 1, -1, 2]))
    return rng.randrange(0, 5) if small else rng.randrange(-3, 8)


def gen_pred1(rng, envd, small):
    if envd > 0 and rng.random() < 0.25:
        return rng.choice(["ltv:%d", "nev:%d"]) % rng.randrange(envd)
    if small:
        return rng.choice(["lt:2", "lt:3", "even", "odd", "T", "N", "ge:2", "lt:12", "ge:11"])
    return rng.choice(["lt:%d" % rng.randrange(-1, 25), "ge:%d" % rng.randrange(-1, 25), "even", "odd", "T", "N"])


def gen_map1(rng, envd, small):
    if envd > 0 and rng.random() < 0.25:
        return "addv:%d" % rng.randrange(envd)
    return rng.choice(["inc", "dbl"] if small else ["inc", "dbl", "neg", "mod3"])


def gen_pred2(rng, envd, small):
    if envd > 0 and rng.random() < 0.2:
        return rng.choice(["knev:%d", "vltv:%d"]) % rng.randrange(envd)
    c = rng.choice([2, 3, 12, 13]) if small else rng.randrange(-1, 25)
    return rng.choice(["klt:%d" % c, "kge:%d" % c, "vlt:%d" % c, "vge:%d" % c, "sumlt:%d" % (c + 10),
                       "keven", "kodd", "veven", "vodd", "kltv", "T", "N"])


def gen_map2(rng, envd, small):
    if envd > 0 and rng.random() < 0.2:
        return "addv:%d" % rng.randrange(envd)
    return rng.choice(["subk", "kx10", "vinc", "onlyk"])


def gen_pf(rng, envd, small):
    """pair.From with key != value (value = something + 10 or more, or 0 under a non-zero literal key)."""
    k = gen_term(rng, envd, small)
    if envd > 0 and rng.random() < 0.5:
        v = (rng.randrange(envd), rng.choice([10, 11, 20]))
    else:
        v = rng.randrange(10, 20)
    if isinstance(k, int) and k != 0 and rng.random() < 0.1:
        v = 0                 # still different from the key; at the interface typings of the harness: the nil interface value
    return ("PF", None, [k, v], [])


def gen_s(rng, d, envd=0, maxlen=3, small=True, pcross=0.3):
    if d <= 1 or rng.random() < 0.12:
        if rng.random() < 0.3:
            return ("F", None, [gen_term(rng, envd, small)], [])
        n = rng.choice([0, 1, 1, 2, 3]) if small else rng.randrange(0, maxlen + 1)
        return ("S", None, [gen_term(rng, envd, small) for _ in range(n)], [])
    if d >= 2 and rng.random() < pcross:
        return ("TS", None, [], [gen_p(rng, d - 1, envd, maxlen, small, pcross), gen_s(rng, rng.randrange(1, d), envd + 2, maxlen, small, pcross)])
    op = rng.choice(["TW", "DW", "FI", "MP", "PL", "PL", "JN", "JN"])
    if op in ("TW", "DW", "FI"):
        return (op, gen_pred1(rng, envd, small), [], [gen_s(rng, d - 1, envd, maxlen, small, pcross)])
    if op == "MP":
        return (op, gen_map1(rng, envd, small), [], [gen_s(rng, d - 1, envd, maxlen, small, pcross)])
    if op == "PL":
        return (op, None, [], [gen_s(rng, d - 1, envd, maxlen, small, pcross), gen_s(rng, d - 1, envd, maxlen, small, pcross)])
    return (op, None, [], [gen_s(rng, d - 1, envd, maxlen, small, pcross), gen_s(rng, rng.randrange(1, d), envd + 1, maxlen, small, pcross)])


def gen_p(rng, d, envd=0, maxlen=3, small=True, pcross=0.3):
    if d <= 1 or rng.random() < 0.1:
        return gen_pf(rng, envd, small)
    op = rng.choice(["PTW", "PDW", "PFI", "PMP", "PPL", "PPL", "PJN", "FS", "FS", "FS"])
    if op in ("PTW", "PDW", "PFI"):
        return (op, gen_pred2(rng, envd, small), [], [gen_p(rng, d - 1, envd, maxlen, small, pcross)])
    if op == "PMP":
        return (op, gen_map2(rng, envd, small), [], [gen_p(rng, d - 1, envd, maxlen, small, pcross)])
    if op == "PPL":
        return (op, None, [], [gen_p(rng, d - 1, envd, maxlen, small, pcross), gen_p(rng, d - 1, envd, maxlen, small, pcross)])
    if op == "PJN":
        return (op, None, [], [gen_p(rng, d - 1, envd, maxlen, small, pcross), gen_p(rng, rng.randrange(1, d), envd + 2, maxlen, small, pcross)])
    return (op, None, [], [gen_s(rng, d - 1, envd, maxlen, small, pcross), gen_p(rng, rng.randrange(1, d), envd + 1, maxlen, small, pcross)])


def enumerate_small(maxd):
    """All pair expressions and all seq expressions containing a ToSeq, depth <= maxd, tiny alphabet."""
    memo = {}

    def leaves_s(envd):
        out = [("S", None, [], []), ("S", None, [1], []), ("S", None, [1, 2], []), ("S", None, [2, 1, 3], []), ("F", None, [2], [])]
        if envd:
            out += [("F", None, [(0, 0)], []), ("S", None, [(0, 0), (envd - 1, 1)], [])]
        return out

    def leaves_p(envd):
        out = [("PF", None, [1, 11], []), ("PF", None, [2, 12], [])]
        if envd == 1:
            out += [("PF", None, [(0, 0), (0, 10)], [])]
        if envd >= 2:
            out += [("PF", None, [(0, 0), (1, 1)], []), ("PF", None, [(1, 0), (0, 0)], [])]
        return out

    def go(k, d, envd):
        key = (k, d, envd)
        if key in memo:
            return memo[key]
        if k == "S":
            if d <= 1:
                out = leaves_s(envd)
            else:
                sub = go("S", d - 1, envd)
                out = list(sub)
                for s in sub:
                    for p in ["lt:2", "even", "T", "N"] + (["nev:0"] if envd else []):
                        out += [("TW", p, [], [s]), ("DW", p, [], [s]), ("FI", p, [], [s])]
                    out.append(("MP", "dbl", [], [s]))
                body = go("S", d - 1, envd + 1)
                for a in sub:
                    out += [("PL", None, [], [a, b]) for b in sub]
                    out += [("JN", None, [], [a, b]) for b in body]
                body2 = go("S", d - 1, envd + 2)
                for a in go("P", d - 1, envd):
                    out += [("TS", None, [], [a, b]) for b in body2]
        else:
            if d <= 1:
                out = leaves_p(envd)
            else:
                sub = go("P", d - 1, envd)
                out = list(sub)
                for s in sub:
                    for p in ["klt:2", "vlt:12", "keven", "T", "N"] + (["knev:0"] if envd else []):
                        out += [("PTW", p, [], [s]), ("PDW", p, [], [s]), ("PFI", p, [], [s])]
                    out.append(("PMP", "subk", [], [s]))
                body2 = go("P", d - 1, envd + 2)
                for a in sub:
                    out += [("PPL", None, [], [a, b]) for b in sub]
                    out += [("PJN", None, [], [a, b]) for b in body2]
                body1 = go("P", d - 1, envd + 1)
                for a in go("S", d - 1, envd):
                    out += [("FS", None, [], [a, b]) for b in body1]
        memo[key] = out
        return out

    def has_pair(n):
        return n[0] in P_OPS or n[0] == "TS" or any(has_pair(k) for k in n[3])
    return go("P", maxd, 0) + [t for t in go("S", maxd, 0) if has_pair(t)]


def deep(f, d):
    """call the generator until the tree really is deep (the generators stop early with some probability)"""
    for _ in range(20):
        t = f()
        if depth(t) >= max(2, d - 2):
            break
    return t


def gen_midnil(rng):
    """Joins whose function returns nil for elements in the MIDDLE of the left-hand sequence (after a non-empty
    inner sequence, before another one): the retry loops of join/toSeq/fromSeq Next() are only exercised by these."""
    n = rng.randrange(3, 6)
    keys = [rng.randrange(0, 10) for _ in range(n)]
    keys[rng.randrange(1, n - 1)] |= 1          # an odd key strictly inside
    keys[0] &= ~1                               # first and last even: non-empty inner sequences around it
    keys[-1] &= ~1
    kind = rng.choice(["PJN", "PJN", "TS", "FS", "JN"])
    if kind in ("PJN", "TS"):
        lhs = ("PF", None, [keys[0], 10 + keys[0]], [])
        for k in keys[1:]:
            lhs = ("PPL", None, [], [lhs, ("PF", None, [k, 10 + k], [])])
        if kind == "PJN":
            body = ("PFI", "keven", [], [("PF", None, [(0, 0), (1, 5)], [])])
        else:
            body = ("FI", "even", [], [("F", None, [(0, 0)], [])])
        return (kind, None, [], [lhs, body])
    lhs = ("S", None, keys, [])
    if kind == "FS":
        body = ("PFI", "keven", [], [("PF", None, [(0, 0), (0, 10)], [])])
    else:
        body = ("FI", "even", [], [("F", None, [(0, 0)], [])])
    return (kind, None, [], [lhs, body])


def gen_mixed(rng):
    """Joins whose function returns a BARE singleton (Plus(From x, nil) is the From object itself) for some elements of
    the left-hand sequence and a two-element sequence for others, the singleton coming first: anything a join iterator
    remembers about the shape of the first inner sequence must not leak into the later ones."""
    n = rng.randrange(2, 5)
    keys = [rng.randrange(0, 10) for _ in range(n)]
    keys[0] |= 1                                  # first element: the filter below rejects it -> bare singleton
    keys[rng.randrange(1, n)] &= ~1               # a later one: accepted -> two elements
    kind = rng.choice(["FS", "FS", "PJN", "TS", "JN"])
    if kind in ("PJN", "TS"):
        lhs = ("PF", None, [keys[0], 10 + keys[0]], [])
        for k in keys[1:]:
            lhs = ("PPL", None, [], [lhs, ("PF", None, [k, 10 + k], [])])
        if kind == "PJN":
            body = ("PPL", None, [], [("PF", None, [(0, 0), (1, 3)], []), ("PFI", "keven", [], [("PF", None, [(0, 0), (1, 5)], [])])])
        else:
            body = ("PL", None, [], [("F", None, [(1, 1)], []), ("FI", "even", [], [("F", None, [(0, 0)], [])])])
        return (kind, None, [], [lhs, body])
    lhs = ("S", None, keys, [])
    if kind == "FS":
        body = ("PPL", None, [], [("PF", None, [(0, 0), (0, 11)], []), ("PFI", "keven", [], [("PF", None, [(0, 0), (0, 20)], [])])])
    else:
        body = ("PL", None, [], [("F", None, [(0, 7)], []), ("FI", "even", [], [("F", None, [(0, 0)], [])])])
    return (kind, None, [], [lhs, body])


def gen_stacked(rng):
    """2-4 unary combinators applied DIRECTLY to each other's result (the same one repeated, with another function, more often
    than not) over a pair source of 3-6 elements (or a seq source, under a ToSeq): what a combinator does when its argument IS
    another combinator's iterator (two filters fused into one, a map of a map, ...) shows only on such stacks, and only when the
    source is long enough for elements to be rejected after the first accepted one.  Some values are 0 (the nil interface value
    at the interface typings), keys stay different from values."""
    n = rng.randrange(3, 7)
    keys = [rng.randrange(1, 10) for _ in range(n)]
    if rng.random() < 0.35:                          # pair.FromSeq over the keys
        t = ("FS", None, [], [("S", None, keys, []), ("PF", None, [(0, 0), (0, rng.choice([10, 11, 20]))], [])])
    else:                                            # Plus of pair.From
        vals = [0 if rng.random() < 0.2 else rng.randrange(10, 25) for _ in keys]
        t = ("PF", None, [keys[0], vals[0]], [])
        for k, v in zip(keys[1:], vals[1:]):
            t = ("PPL", None, [], [t, ("PF", None, [k, v], [])])
    op = rng.choice(P_UNARY)
    for _ in range(rng.randrange(2, 5)):
        if rng.random() < 0.4:
            op = rng.choice(P_UNARY)
        t = (op, gen_map2(rng, 0, False) if op == "PMP" else gen_pred2(rng, 0, False), [], [t])
    if rng.random() < 0.25:                          # the same for the seq combinators, fed by ToSeq
        t = ("TS", None, [], [t, ("S", None, [(0, 0), (1, 0)], [])])
        op = rng.choice(S_UNARY)
        for _ in range(rng.randrange(2, 4)):
            if rng.random() < 0.4:
                op = rng.choice(S_UNARY)
            t = (op, gen_map1(rng, 0, False) if op == "MP" else gen_pred1(rng, 0, False), [], [t])
    return t


def make_cases(ctx, boost):
    rng = ctx.rng
    trees = [gen_midnil(rng) for _ in range((1500 if ctx.thorough() else 150) * boost)]
    trees += [gen_mixed(rng) for _ in range((1000 if ctx.thorough() else 100) * boost)]
    trees += [gen_stacked(rng) for _ in range((3000 if ctx.thorough() else 300) * boost)]
    small = enumerate_small(3)
    if ctx.thorough():
        trees += small
        for d in (3, 4):
            trees += [gen_p(rng, d, small=True) for _ in range(4000 * boost)]
            trees += [gen_s(rng, d, small=True, pcross=0.5) for _ in range(2000 * boost)]
        for d in (5, 6, 7):
            trees += [deep(lambda: gen_p(rng, d, maxlen=4, small=False), d) for _ in range(8000 * boost)]
            trees += [deep(lambda: gen_s(rng, d, maxlen=4, small=False, pcross=0.4), d) for _ in range(6000 * boost)]
    else:
        trees += rng.sample(small, 2000 * boost)
        trees += [gen_p(rng, rng.choice([3, 4]), small=True) for _ in range(800 * boost)]
        trees += [gen_s(rng, rng.choice([3, 4]), small=True, pcross=0.5) for _ in range(400 * boost)]
        trees += [deep(lambda: gen_p(rng, 5, maxlen=4, small=False), 5) for _ in range(250 * boost)]
        trees += [deep(lambda: gen_s(rng, 5, maxlen=4, small=False, pcross=0.4), 5) for _ in range(150 * boost)]
    nexh = len(small) if ctx.thorough() else 0          # the exhaustive part is never thinned
    cases = []
    for idx, t in enumerate(trees):
        try:
            l = denote(t, [])
        except RecursionError:
            continue
        if len(l) > 400:
            continue
        if not l and idx >= nexh and rng.random() < 0.5:
            continue                     # thin out the (many) random expressions with an empty result
        r = rng.random()
        errat = -1 if r < 0.3 or not l else (rng.randrange(len(l)) if r < 0.9 else len(l) + rng.randrange(2))
        cases.append(case_line(errat, t))
    return cases


# ------------------------------------------------------------------ shrinking

def shrink_candidates(n):
    op, fn, terms, kids = n
    for k in kids:
        if kind(k) == kind(n):
            yield k
    if op == "S" and terms:
        for i in range(len(terms)):
            yield (op, fn, terms[:i] + terms[i + 1:], kids)
    for i, k in enumerate(kids):
        for k2 in shrink_candidates(k):
            yield (op, fn, terms, kids[:i] + [k2] + kids[i + 1:])


def closed(n, envd=0):
    op, fn, terms, kids = n
    for t in terms:
        if not isinstance(t, int) and t[0] >= envd:
            return False
    if fn and ":" in fn and fn.split(":")[0] in ("ltv", "nev", "addv", "knev", "vltv") and int(fn.split(":")[1]) >= envd:
        return False
    if op in BINDERS:
        return closed(kids[0], envd) and closed(kids[1], envd + BINDERS[op][2])
    return all(closed(k, envd) for k in kids)


def shrink(ctx, binp, case, fails):
    errat, t = parse_case(case)
    for _ in range(40):
        cands = [c for c in shrink_candidates(t) if closed(c)][:300]
        lines = [case_line(errat, c) for c in cands]
        if not lines:
            break
        try:
            _, impl, _ = ctx.run_harness(binp, ["C15"], lines, timeout=120)
        except Exception:
            break
        hit = next((c for c, l, i in zip(cands, lines, impl) if fails(l, i)), None) if len(impl) == len(lines) else None
        if hit is None:
            break
        t = hit
    return case_line(errat, t)


# ------------------------------------------------------------------ the check

def core(line):
    """impl line without the src= / ty= / calls= / order= fields: the evaluation at K = V = E = int."""
    return iterx.core(line)


def run(ctx):
    ctx.cov["rule"] = ("case = (errAt, kind, expression tree over pair.From/TakeWhile/DropWhile/Filter/Map/Plus/Join/ToSeq/FromSeq and the seq combinators; "
                       "keys differ from values in every pair source; predicate/mapping families asymmetric in (key,value); join bodies are expressions over the bound key/value; "
                       "non-trivial = depth >= 2 and non-empty result or a nil-returning join call; distinct by case line. "
                       "Every case is also evaluated by the harness at the typings (K,V,E) = (int,string,string), (int,I,I) with I an interface type whose 0 is the nil interface value, "
                       "and (any,string,int), in the same process, in an order (int first / another typing first) fixed by a hash of the case line: distribution.retyped_evaluations "
                       "counts these evaluations (one drain + one ForEach each); they are judged by the direct oracle only (agreement with the int result), the model is compared on the int part. "
                       "distribution.callback_argument_check: cases whose callback calls (callback, environment, key, value) were all found among the calls of an eager list evaluation (ok)")
    ctx.assumptions += ["linear use: an expression is built once and each sub-iterator is handed to exactly one combinator",
                        "user functions are total and pure; join functions return a fresh Seq per call",
                        "pair.takeWhile/filter/plus/join/toSeq/fromSeq are modelled by signature-indexed constructors shared with their seq.go twins (the Go texts are copies of each other); a divergence of one copy is caught by the correspondence, not by the proof",
                        "Go panics are modelled as Except; fuel exhaustion is proved unreachable for fuel cost(e)"]
    ctx.prove()
    if ctx.thorough():
        ctx.leanchecker()

    binp, err = ctx.harness("iter", {"github.com/fogfish/golem/trait": vlib.REPO + "/trait"})
    if binp is None:
        ctx.broken.append({"kind": "correspondence", "detail": "harness does not build against /repo/trait", "log": err})
        return
    boost = 4 if ctx.broken else 1
    cases = make_cases(ctx, boost)
    if ctx.replay:
        rp = json.load(open(ctx.replay))
        if rp.get("case"):          # a concrete failing input; otherwise (broken obligation/tie) rerun the whole budget
            cases = [rp["case"]]
    try:
        rc, impl, err = ctx.run_harness(binp, ["C15"], cases, timeout=900)
    except Exception as ex:
        ctx.broken.append({"kind": "correspondence", "detail": "harness did not terminate: %r" % ex})
        return
    if len(impl) != len(cases):
        ctx.broken.append({"kind": "correspondence", "detail": "harness produced %d lines for %d cases (rc=%s): %s" % (len(impl), len(cases), rc, err[-500:])})
    model = ctx.oracle("C15", cases)
    n = min(len(impl), len(cases))
    ctx.diff(cases[:n], [core(i) for i in impl[:n]], model[:n], "Model.PairIter eval/evalForEach vs real pair+seq combinators")

    def fails(line, got):
        ea, t = parse_case(line)
        return core(got) != expected(ea, t) or not iterx.extras_ok(got)

    reported = 0
    for c, got in zip(cases, impl):
        ea, t = parse_case(c)
        stats = {"join_calls": 0, "join_nil": 0}
        l = denote(t, [], stats)
        d = depth(t)
        ctx.count(c, nontrivial=d >= 2 and (len(l) > 0 or stats["join_nil"] > 0))
        ctx.hist("kind", kind(t))
        ctx.hist("depth", d)
        ctx.hist("result_len", len(l) if len(l) < 10 else "10+")
        ctx.hist("pair_seq_crossings", min(crossings(t), 4))
        ctx.hist("errAt", "none" if ea < 0 else ("past-end" if ea >= len(l) else "inside"))
        if stats["join_calls"]:
            ctx.hist("join_nil_results", "all" if stats["join_nil"] == stats["join_calls"] else ("some" if stats["join_nil"] else "none"))
        iterx.record(ctx, got)
        ctx.hist("nil_interface_values", "returned by a mapping" if stats.get("map_zero") else ("elsewhere in the expression" if stats.get("zero_seen") else "none"))
        chain, same = stack(t)
        ctx.hist("direct_unary_stack", chain)
        ctx.hist("same_unary_combinator_twice_in_a_row", same)
        dist = ctx.cov["distribution"].setdefault("combinator", {})
        for k, v in ops(t, {}).items():
            dist[k] = dist.get(k, 0) + v
        want = expected(ea, t)
        if core(got) != want or not iterx.extras_ok(got):
            reported += 1
            if reported <= 3:
                small = shrink(ctx, binp, c, fails) if not ctx.replay else c
                try:
                    _, g2, _ = ctx.run_harness(binp, ["C15"], [small], timeout=120)
                    sgot = g2[0] if g2 else got
                except Exception:
                    small, sgot = c, got
                if not fails(small, sgot):          # state-dependent and not reproduced by the rerun: keep the observed one
                    small, sgot = c, got
                sea, st = parse_case(small)
                what, cls = iterx.classify("C15", sgot, core(sgot) == expected(sea, st))
                if what is None:
                    what, cls = "draining / ForEach over the pair/seq expression does not yield the (key,value) list given by the list functions", "list"
                ctx.violations.append(vlib.Violation("impl", what, case=small, expected=expected(sea, st) + iterx.TAIL_OK, got=sgot,
                                                     key={"top": st[0], "class": cls, "original_case": c}))
        elif d >= 3 and len(l) > 1 and crossings(t) > 0:
            ctx.sample({"case": c, "impl": got, "model_and_list_semantics": want})
