"""Extra stage families for C06 (sources, throttling) — filled in as their models are built."""


def run_extra(ctx):
    return
