"""Extra stage families for C06 (sources, throttling): each optional module contributes scripts + a direct oracle."""
import importlib


def run_extra(ctx):
    for name in ("C06_sources", "C06_throttle"):
        try:
            mod = importlib.import_module("checks." + name)
        except ModuleNotFoundError:
            continue
        mod.run_extra(ctx)
