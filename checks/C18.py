"""C18 — the skip list behaves as an ordered map under any operation history.
Tie: H. Theorems over Golem.Model.Skiplist (Props/C18.lean); the real list (internal/maplike staged as module
github.com/fogfish/golem) is run on operation histories and prints return value + String() after every operation;
the heights its random source drew are read off that output and fed to the model, which must then reproduce every
answer and the complete finger structure.  Direct oracle: a Python dict as the reference map + sortedness /
forward-pointer checks on the printed form."""
import functools, itertools, json, os, shutil
import vlib

LEVELS = 22
KEYS3 = [1, 2, 3]


# ------------------------------------------------------------------ keys, orders
def skey(i):
    """string key for index i >= 0: base-5 over a..e without padding (lexicographic order differs from numeric)"""
    s = ""
    while True:
        s = "ab%de"[i % 5] + s   # (a key that contains a formatting verb must print as it is)
        i //= 5
        if i == 0:
            return s


def keyfun(kt, order):
    conv = int if kt == "int" else str
    if order == "nat":
        return conv, (lambda a, b: (a > b) - (a < b))
    return conv, (lambda a, b: (b > a) - (b < a))


# ------------------------------------------------------------------ generators
def exhaustive(n):
    """all histories of length n over 3 keys; only length n is needed: every prefix is checked too (output after every op)"""
    alphabet = [("P", k) for k in KEYS3] + [("G", k) for k in KEYS3] + [("R", k) for k in KEYS3]
    for hist in itertools.product(alphabet, repeat=n):
        yield [(o, k, 10 * (i + 1) + k) if o == "P" else (o, k, None) for i, (o, k) in enumerate(hist)]


PROFILES = {"balanced": (45, 25, 30), "grow": (70, 15, 15), "churn": (40, 10, 50), "read": (30, 55, 15)}


def random_history(rng, length, universe):
    prof = rng.choice(sorted(PROFILES))
    wp, wg, wr = PROFILES[prof]
    lo = -(universe // 2)
    recent, ops = [], []
    for i in range(length):
        if recent and rng.random() < 0.35:
            k = rng.choice(recent[-6:])          # repeated puts, remove-then-reinsert, double remove
        else:
            k = lo + rng.randrange(universe)
        recent.append(k)
        x = rng.randrange(100)
        if x < wp:
            ops.append(("P", k, 0 if rng.random() < 0.03 else i + 1))
        elif x < wp + wg:
            ops.append(("G", k, None))
        else:
            ops.append(("R", k, None))
    return ops, prof


def render(kt, order, ops, heights=None):
    lo = min([k for _, k, _ in ops] + [0])
    ks = (lambda k: str(k)) if kt == "int" else (lambda k: skey(k - lo))
    out = [kt, order]
    for i, (o, k, v) in enumerate(ops):
        if o == "P":
            out.append("P:%s:%d" % (ks(k), v) + ("" if heights is None else ":%d" % heights[i]))
        else:
            out.append("%s:%s" % (o, ks(k)))
    return " ".join(out)


CORPUS = [
    "int nat P:1:1 P:2:2 P:3:3 P:4:4 P:5:5 P:6:6 P:7:7 P:8:8 P:9:9 G:1 G:9 G:10 R:1 R:9 R:5 G:5 G:4 R:5 P:5:55 G:5",
    "int nat P:9:1 P:8:2 P:7:3 P:6:4 P:5:5 P:4:6 P:3:7 P:2:8 P:1:9 R:9 R:8 R:1 G:1 G:2 P:2:20 P:2:21 G:2 R:2 R:2 G:2",
    "int rev P:1:1 P:2:2 P:3:3 G:2 R:2 G:2 P:2:5 G:2 P:0:7 G:0 R:0 G:0 R:3 R:1 R:2 G:1",
    "int nat G:0 R:0 P:0:0 G:0 P:0:4 G:0 R:0 G:0 P:-1:3 P:0:1 R:-1 G:0",
    "str nat P:b:1 P:a:2 P:ba:3 P:ab:4 G:ba R:b G:b P:b:9 G:b R:a R:ab R:ba R:b G:a",
    "str rev P:b:1 P:a:2 P:ba:3 P:ab:4 G:ba R:b G:b P:b:9 G:b R:a R:ab R:ba R:b G:a",
]


def gen_cases(ctx, scale=1):
    rng = ctx.rng
    cases = list(CORPUS)
    n = 5 if ctx.thorough() else 4
    for ops in exhaustive(n):
        cases.append(render("int", "nat", ops))
        kt, order = rng.choice([("int", "rev"), ("str", "nat"), ("str", "rev")])
        if ctx.thorough() or rng.random() < 0.25:
            cases.append(render(kt, order, ops))
    ctx.hist("generator", "exhaustive-len%d-3keys" % n)
    if ctx.thorough():
        plan = [(3000 * scale, 60, (3, 8, 40, 1000)), (200 * scale, 400, (6, 30)), (100 * scale, 400, (300, 100000))]
    else:
        plan = [(600 * scale, 60, (3, 8, 40, 1000)), (40 * scale, 400, (6, 30)), (20 * scale, 400, (300, 100000))]
    for count, maxlen, universes in plan:
        for _ in range(count):
            length = maxlen if maxlen > 60 and rng.random() < 0.5 else rng.randrange(1, maxlen + 1)
            u = rng.choice(universes)
            kt, order = rng.choice(["int", "str"]), rng.choice(["nat", "rev"])
            ops, prof = random_history(rng, length, u)
            cases.append(render(kt, order, ops))
            ctx.hist("profile", prof)
            ctx.hist("universe", u)
    return cases


# ------------------------------------------------------------------ reading the implementation's output
def parse_printed(s):
    nodes = []
    for part in s.split(";"):
        if not part.startswith("["):
            return None
        j = part.find("]")
        if j < 0:
            return None
        rest = part[j + 1:]
        n = 0
        if "~" in rest:
            rest, cnt = rest.rsplit("~", 1)
            if not cnt.isdigit():
                return None
            n = int(cnt)
        nodes.append((part[1:j], (rest.split(",") if rest else []) + ["nil"] * n))
    return nodes


def split_ops(line):
    """impl/model line -> list of (ret, printed string) or None"""
    out = []
    for seg in line.split(" | "):
        f = seg.split(" ", 1)
        if len(f) != 2:
            return None
        out.append((f[0], f[1]))
    return out


def observed_heights(case, impl):
    """per op: number of fingers of the node carrying the Put's key in the printed form after that op (0 if absent)"""
    toks = case.split()[2:]
    segs = split_ops(impl) or []
    hs = []
    for i, t in enumerate(toks):
        h = 0
        if t[0] == "P" and i < len(segs):
            nodes = parse_printed(segs[i][1])
            k = t.split(":")[1]
            for key, fingers in (nodes or [])[1:]:
                if key == k:
                    h = len(fingers)
                    break
        hs.append(h)
    return hs


def with_heights(case, hs):
    w = case.split()
    return " ".join(w[:2] + [(t + ":%d" % h) if t[0] == "P" else t for t, h in zip(w[2:], hs)])


# ------------------------------------------------------------------ direct oracle (independent of the Lean model)
def direct(ctx, case, impl):
    """Evaluate C18 on one implementation line. Returns a Violation or None; records distributions."""
    w = case.split()
    kt, order, toks = w[0], w[1], w[2:]
    conv, cmp = keyfun(kt, order)
    segs = split_ops(impl)

    def bad(i, what, expected, got):
        prefix = " ".join(w[:2] + toks[:i + 1])
        return vlib.Violation("impl", what, case=prefix, expected=expected, got=got,
                              key={"op": toks[i][0] if i < len(toks) else "?", "keys": kt, "order": order})
    if segs is None or len(segs) != len(toks):
        return bad(len(segs or []), "harness output is not one '<ret> <printed>' segment per operation (panic or malformed String())",
                   "%d segments" % len(toks), impl[-300:])
    ref = {}
    for i, (t, (ret, pr)) in enumerate(zip(toks, segs)):
        f = t.split(":")
        k = conv(f[1])
        if f[0] == "P":
            want = "_"
            fresh = k not in ref
            ref[k] = int(f[2])
        elif f[0] == "G":
            want = str(ref.get(k, 0))
        else:
            want = str(ref.pop(k, 0))
        if ret != want:
            return bad(i, "%s answers differently from an ordinary map" % {"P": "Put", "G": "Get", "R": "Remove"}[f[0]], want, ret)
        nodes = parse_printed(pr)
        if not nodes:
            return bad(i, "String() output is malformed", "one '{key | fingers}' line per node", pr[:300])
        try:
            live = [(conv(key), fingers) for key, fingers in nodes[1:]]
        except ValueError:
            return bad(i, "String() output is malformed", "keys of the list's key type", pr[:300])
        keys = [kf[0] for kf in live]
        want_keys = sorted(ref, key=functools.cmp_to_key(cmp))
        if keys != want_keys:
            asc = all(cmp(a, b) < 0 for a, b in zip(keys, keys[1:]))
            return bad(i, "printed form does not list exactly the live keys in strictly ascending order"
                       + ("" if asc else " (not ascending)"), " ".join(map(str, want_keys)), " ".join(map(str, keys)))
        for key, fingers in live:
            if len(fingers) < 1:
                return bad(i, "a linked node has no forward pointer slot (height < 1)", ">= 1 finger", "%s: none" % key)
            for fg in fingers:
                if fg != "nil":
                    try:
                        ok = cmp(key, conv(fg)) < 0
                    except ValueError:
                        ok = False
                    if not ok:
                        return bad(i, "a forward pointer does not lead to a larger key", "%s -> larger key" % key, "%s -> %s" % (key, fg))
        if f[0] == "P" and fresh:
            ctx.hist("observed_height", len(dict(live)[k]))
    return None


def nontrivial(case):
    ops = {t[0] for t in case.split()[2:]}
    return "P" in ops and len(ops) >= 2


def process(ctx, binp, cases, label):
    rc, impl, err = ctx.run_harness(binp, [], cases)
    if impl and impl[-1].startswith("hang ") and len(impl) <= len(cases):
        c = cases[len(impl) - 1]
        n = int(impl[-1].split()[1])
        w = c.split()
        ctx.violations.append(vlib.Violation("impl", "an operation (or String() after it) does not terminate: the finger chains contain a cycle",
                                             case=" ".join(w[:3 + n]), expected="an answer like an ordinary map", got="no answer within the watchdog period",
                                             key={"op": w[2 + n][0] if 2 + n < len(w) else "?", "keys": w[0], "order": w[1]}))
        ctx.note("%s: harness stopped at history %d (hang); only the histories before it are evaluated" % (label, len(impl)))
        impl = impl[:-1]
        cases = cases[:len(impl)]
    if len(impl) != len(cases):
        ctx.broken.append({"kind": "correspondence", "detail": "%s: harness produced %d lines for %d cases: %s" % (label, len(impl), len(cases), err[-500:])})
        impl = impl + ["<no output>"] * (len(cases) - len(impl))
    if not cases:
        return
    ocases = [with_heights(c, observed_heights(c, i)) for c, i in zip(cases, impl)]
    model = ctx.oracle("C18", ocases)
    ctx.diff(ocases, impl, model, "Model.Skiplist (fed the observed heights) vs real skip list: answers and finger structure after every op")
    nops = 0
    for c, oc, got, m in zip(cases, ocases, impl, model):
        w = c.split()
        ctx.count(c, nontrivial(c))
        n = len(w) - 2
        nops += n
        ctx.hist("keys/order", w[0] + "/" + w[1])
        ctx.hist("length", n if n <= 5 else ("6-20" if n <= 20 else "21-60" if n <= 60 else "61-400"))
        for t in w[2:]:
            ctx.hist("op", t[0])
        v = direct(ctx, c, got)
        if v is not None:
            if len(ctx.violations) < 500:
                ctx.violations.append(v)
        elif got == m and 8 <= n <= 20 and " ".join(w[:2]) not in [" ".join(s["case"].split()[:2]) for s in ctx.cov["samples"]]:
            ctx.sample({"case": oc, "impl": got[:700], "model": m[:700]})
    ctx.violations.sort(key=lambda v: len((v.case or "").split()))   # report the shortest failing history first
    del ctx.violations[20:]
    ctx.cov["operations_run"] = ctx.cov.get("operations_run", 0) + nops
    ctx.note("%s: %d histories, %d operations, %d violations so far" % (label, len(cases), nops, len(ctx.violations)))


def run(ctx):
    ctx.cov["rule"] = ("case = one operation history (key type, order, ops); exhaustive histories of length 4 (quick) / 5 (thorough) over 3 keys and "
                       "9 op kinds under int/natural order plus a second key-type/order, seeded random histories up to length 60 / 400 over universes of 3..100000 keys; "
                       "after EVERY operation the return value and the whole printed form are compared with the model and with a dict; "
                       "non-trivial = history contains a Put and at least one other op kind; distinct by case line; "
                       "heights are drawn by the implementation's own clock-seeded source and differ from run to run (histogram 'observed_height')")
    ctx.assumptions += ["node heights: the theorems hold for every height sequence with 1 <= h <= levels; math/rand and the float probability table are not modelled "
                        "(every observed node is checked to have >= 1 and <= 22 fingers through the printed form the model must reproduce)",
                        "the comparison trait is a pure total function satisfying the order laws stated in Props/C18.lean (TotalOrder)"]
    ctx.prove()
    if ctx.thorough():
        ctx.leanchecker()
    dst = os.path.join(ctx.tmp, "h-skiplist")

    def stage(d):
        st = os.path.join(d, "staged")
        os.makedirs(st)
        src = os.path.join(vlib.REPO, "internal/maplike")
        shutil.copytree(src, os.path.join(st, "maplike"), ignore=shutil.ignore_patterns("*_test.go"))
        open(os.path.join(st, "go.mod"), "w").write(
            "module github.com/fogfish/golem\n\ngo 1.20\n\nrequire github.com/fogfish/golem/pure v0.0.0\n"
            "replace github.com/fogfish/golem/pure => %s\n" % os.path.join(vlib.REPO, "pure"))
    binp, err = ctx.harness("skiplist", {"github.com/fogfish/golem": os.path.join(dst, "staged"),
                                         "github.com/fogfish/golem/pure": os.path.join(vlib.REPO, "pure")}, stage=stage)
    if binp is None:
        ctx.broken.append({"kind": "correspondence", "detail": "harness does not build against a staged copy of /repo/internal/maplike", "log": err})
        return
    if ctx.replay:
        case = json.load(open(ctx.replay))["case"]
        process(ctx, binp, [case] * 50, "replay x50 (heights are re-drawn on every run)")
        return
    process(ctx, binp, gen_cases(ctx), "generated")
    if ctx.broken and not ctx.violations:
        ctx.note("a proof obligation or the correspondence broke: searching a failing input on an enlarged budget")
        process(ctx, binp, gen_cases(ctx, scale=5), "enlarged")
