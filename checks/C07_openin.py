"""C07, fail-fast with the input LEFT OPEN, and the kind of the error a failing element returns.

Property text: under Lift/LiftF the stage "delivers exactly the results of the elements before the first failure,
delivers that first error once, and closes both channels without processing anything further".
Nothing in it depends on the input being closed, nor on the type of the error. This module adds

* scripts in which the input is never closed by the environment and sends go on after the failing element
  (a live producer upstream), with receives in both orders and a goroutine census, and
* the direct oracle `after_failure` for exactly that statement. It is applied by checks/C07.evaluate to EVERY
  Lift/LiftF script (closed inputs included): the first failure has happened once the stage has taken the
  first failing element off its input (the harness' functions are not gated and fail at once, the fail-fast
  error channel has capacity 1 and is empty, so at the next quiescent point the stage is through its abort
  path). From then on, without any cancel:
    - nothing further is consumed: (#completed sends - len(in)) stays at (index of the first failing element + 1);
    - both channels are closed: a receive gives a still buffered value / the error / `closed`, never `empty`;
    - the stage's goroutine is gone: a census gives 0.
* ERROR_KINDS: cfg key `ek=` (go/harness/lockstep/errkinds_test.go) — errors wrapping context.Canceled /
  context.DeadlineExceeded returned by the user function while the pipeline context is alive. The tokens are
  unchanged (`e<element>`), so the model comparison (`oracle lockstep`, which has no notion of error types)
  still runs on these scripts; what is claimed about them is the property's statement as evaluated by
  checks/C07.evaluate (and checks/C11.evaluate for the sources).
"""
import vlib, lockstep as ls

STAGES = ["Map", "FMap"]
ERROR_KINDS = ["canceled", "deadline", "deep", "elemctx", "eof", "value"]     # besides the plain errors.New (no `ek=` key)


def with_kind(script, ek):
    """the same script with the failing elements returning an error of kind `ek`"""
    if not ek:
        return script
    cfg, sep, moves = script.partition(" | ")
    return cfg + " ek=" + ek + sep + moves


def pick_kind(rng):
    return rng.choice([None, None] + ERROR_KINDS)


def nimg(st, x):
    return len(ls.g_fmap(x)) if st == "FMap" else 1


def mk_open(rng, st, cap, xs, fail, ys, order, ek=None, lazy=False):
    """Lift/LiftF, input never closed: sends of xs interleaved with receives, drain, census, then the sends ys
    (a producer that keeps going) interleaved with receives, census, applied multiset."""
    cfg = "stage=%s mode=lift cap=%d fail=%s sched=openin" % (st, cap, ",".join(map(str, fail)))
    a, b = ("r0", "r1") if order == "values-first" else ("r1", "r0")
    total = sum(nimg(st, x) for x in xs) + 1
    if lazy:
        body = ls.interleave(rng, [["s%d" % x for x in xs], [rng.choice(["r0", "r1"]) for _ in range(rng.randrange(0, 2 * len(xs) + 1))]])
    else:
        body = []
        for x in xs:
            body += ["s%d" % x] + [a, b] * max(1, nimg(st, x))
    body += [a, b] * (total + 2) + ["z"]
    for y in ys:
        body += ["s%d" % y] + ([a, b] if rng.random() < 0.5 else [])
    body += [a, b, "z", "a"]
    return with_kind(cfg + " | " + " ".join(body), ek)


def exhaustive(rng, maxn):
    """every position of the (single) failing element in inputs up to maxn, a consumer that keeps up, capacities 0/1/3,
    both receive orders; cap+2 further sends after the drain"""
    out = []
    for st in STAGES:
        for cap in (0, 1, 3):
            for n in range(1, maxn + 1):
                xs = [4, 5, 7, 8, 10][:n]
                for fpos in range(n):
                    for order in ("values-first", "errors-first"):
                        out.append(mk_open(rng, st, cap, xs, [xs[fpos]], [11, 13, 14, 16, 17][:cap + 2], order, ek=pick_kind(rng)))
    return out


def gen(rng, n, maxlen):
    out = []
    for _ in range(n):
        st = rng.choice(STAGES)
        cap = rng.choice([0, 1, 1, 3])
        k = rng.randrange(1, maxlen + 1)
        zs = rng.sample(range(1, 40), k + cap + 2)
        xs, ys = zs[:k], zs[k:]
        fail = [x for x in xs if rng.random() < 0.35] or [rng.choice(xs)]
        fail += [y for y in ys if rng.random() < 0.3]
        out.append(mk_open(rng, st, cap, xs, fail, ys, rng.choice(["values-first", "errors-first"]), ek=pick_kind(rng), lazy=rng.random() < 0.5))
    return out


def after_failure(script, tr):
    """direct oracle, see the module text; evaluated on the observations alone"""
    cfg = tr.cfg
    st, mode = cfg["stage"], cfg.get("mode", "pure")
    if mode != "lift" or cfg.get("gated", "0") != "0" or st not in STAGES:
        return []
    fail = set(int(x) for x in cfg.get("fail", "").split(",") if x)
    key = {"stage": st, "mode": mode, "class": "after-first-failure"}
    vs = []
    sent = []
    first = None        # index (in `sent`) of the first failing element
    fpoint = None       # position from which the stage has taken that element
    said = set()
    for pos, (mv, res, ln) in enumerate(tr.steps):
        if mv[0] == "x":
            break       # what happens after a cancel is C06's subject
        if mv[0] == "b":
            return vs   # bursts: observations are not taken move by move
        if mv[0] == "s" and res == "ok":
            sent.append(int(mv[1:]))
            if first is None and sent[-1] in fail:
                first = len(sent) - 1
        if first is None:
            continue
        lin = int(ln.split(";")[0].split(",")[0])
        consumed = len(sent) - lin
        if fpoint is None and consumed >= first + 1:
            fpoint = pos
        if fpoint is None:
            continue
        what = None
        # the property's proviso: "provided the error channel is read" — closure and exit are only demanded once the
        # first error has been received (a stage waiting to hand its error over has not violated anything)
        if pos >= fpoint and mv == "r1" and res.startswith("e"):
            said.add("err-received")
        if consumed != first + 1 and "consumed" not in said:
            said.add("consumed")
            what = ("%s/lift with failing %s: the stage took %d element(s) off its input, the first failure was at element #%d (%d) — "
                    "it kept consuming its still open input after the first failure" % (st, sorted(fail), consumed, first + 1, sent[first]))
            vs.append(vlib.Violation("impl", what, case=script, expected=first + 1, got=consumed, key=key))
        if pos > fpoint and "err-received" in said and mv[0] == "r" and res == "empty" and ("open", mv) not in said:
            said.add(("open", mv))
            what = ("%s/lift with failing %s: %s channel still open (receive gives `empty`) after the first failure (element %d) with the input not closed and no cancel"
                    % (st, sorted(fail), "value" if mv == "r0" else "error", sent[first]))
            vs.append(vlib.Violation("impl", what, case=script, expected="closed", got="empty", key=key))
        if pos > fpoint and "err-received" in said and mv == "z" and int(res) != 0 and "z" not in said:
            said.add("z")
            what = "%s/lift with failing %s: %s goroutine(s) of the stage alive after the first failure (element %d)" % (st, sorted(fail), res, sent[first])
            vs.append(vlib.Violation("impl", what, case=script, expected=0, got=int(res), key=key))
    return vs


def record(ctx, scripts, traces):
    for s, tr in zip(scripts, traces):
        if tr is None:
            continue
        c = tr.cfg
        ctx.hist("mode", c["mode"])
        ctx.hist("error_kind", c.get("ek", "plain"))
        ctx.hist("input", "left-open")
        nf = len([x for x in c.get("fail", "").split(",") if x])
        ctx.hist("failing", nf)
        xs = tr.sent.get(0, [])
        fs = set(int(x) for x in c.get("fail", "").split(",") if x)
        first = next((i for i, x in enumerate(xs) if x in fs), None)
        nafter = 0 if first is None else len([m for m in tr.moves[tr.moves.index("s%d" % xs[first]) + 1:] if m[0] == "s"])
        ctx.hist("sends_attempted_after_first_failure", min(nafter, 8))
        ctx.count(s, nontrivial=first is not None and nafter > 0)
