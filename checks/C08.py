"""C08 — the unbounded channel (pipe.New) is FIFO, lossless, duplicate-free and never blocks senders.
Tie: H lock-step (testing/synctest) against the pump network lean/Golem/Go/Unbound.lean (`oracle unbound`);
direct oracle = the property evaluated on what the environment saw (values whose send returned ok vs values
received, `full` answers before cancel/close, close of the receive side, goroutine census, crashes)."""
import json, itertools, os, re, subprocess
import vlib, lockstep as ls

CAPS = [0, 1, 2, 4]


def tail(total):
    """drain until closed, then census"""
    return ["r0"] * (total + 3) + ["z"]


def gen_script(rng):
    cap = rng.choice(CAPS)
    vals = rng.sample(range(1, 200), 40)
    vi = 0
    moves, outstanding = [], 0
    for _ in range(rng.randrange(1, 5)):
        # refill: a burst of sends with a few receives in between ...
        k = rng.randrange(1, 7)
        burst = []
        for _ in range(k):
            burst.append("s%d" % vals[vi])
            vi += 1
        part = ["r0"] * rng.randrange(0, k + 1)
        moves += ls.interleave(rng, [burst, part])
        outstanding = max(0, outstanding + k - len(part))
        # ... then (mostly) drain to empty, once in a while one receive too many (`empty`)
        if rng.random() < 0.75:
            moves += ["r0"] * (outstanding + (1 if rng.random() < 0.3 else 0))
            outstanding = 0
        if rng.random() < 0.3:
            moves.append("z")
    total = vi
    # bursts: group a few consecutive moves into one `b…` move (made back to back, the pump is not awaited in between)
    if rng.random() < 0.6:
        i, grouped = 0, []
        while i < len(moves):
            k = rng.choice([1, 1, 2, 3, 5, 7])
            grp = [m for m in moves[i:i + k] if m != "z"]
            if k > 1 and len(grp) > 1:
                grouped.append("b" + ",".join(grp))
            else:
                grouped += moves[i:i + k]
            i += k
        moves = grouped
    # end of stream: cancel, close by the sender, both in either order, or neither — at any position
    kind = rng.choice(["x", "x", "c0", "c0", "x c0", "c0 x", ""])
    for ev in kind.split():
        # mostly in the later part of the script (an early end of stream makes the rest trivial)
        pos = rng.randrange(len(moves) // 2 if rng.random() < 0.7 else 0, len(moves) + 1)
        if pos < len(moves) and moves[pos][0] == "b" and "x" not in moves[pos] and rng.random() < 0.7:
            # as the LAST move of a burst: the pump meets the cancel / the close with values still in the input buffer
            # (a cancel is never followed by a send or close in the same burst: the harness refuses those by a flag,
            # the model by the state of `in`, which the pump may not have closed yet)
            moves[pos] += "," + ev
        else:
            moves.insert(pos, ev)
    if kind and rng.random() < 0.3:
        # a late send / a second cancel after the end of stream (refused / harmless)
        moves.insert(rng.randrange(0, len(moves) + 1), rng.choice(["s%d" % vals[vi], "x"]))
    return "stage=New cap=%d | %s" % (cap, " ".join(moves + tail(total)))


def exhaustive():
    """every word over {send, receive} up to 5 moves x caps {0,1,2} x cancel / close / both at every position,
    the same words as bursts, and deep drain-and-refill backlogs"""
    out = []
    for cap in (0, 1, 2):
        for n in range(0, 6):
            for w in itertools.product("sr", repeat=n):
                base, v = [], 10
                for ch in w:
                    if ch == "s":
                        v += 1
                        base.append("s%d" % v)
                    else:
                        base.append("r0")
                ns = v - 10
                for ev in (["x"], ["c0"], ["x", "c0"], ["c0", "x"]):
                    for pos in range(len(base) + 1):
                        mv = list(base)
                        mv[pos:pos] = ev
                        out.append("stage=New cap=%d | %s" % (cap, " ".join(mv + tail(ns))))
    # the same words made as ONE burst ending in the cancel / close: the pump meets the end of stream with values
    # still in `in` (non-quiescent schedules); and a burst of sends followed by a quiescent cancel / close
    for cap in (0, 1, 2, 4):
        for n in range(1, 6):
            for w in itertools.product("sr", repeat=n):
                if "s" not in w:
                    continue
                base, v = [], 10
                for ch in w:
                    if ch == "s":
                        v += 1
                        base.append("s%d" % v)
                    else:
                        base.append("r0")
                for ev in ("x", "c0"):
                    out.append("stage=New cap=%d | b%s %s" % (cap, ",".join(base + [ev]), " ".join(tail(v - 10))))
                    if n > 1:
                        out.append("stage=New cap=%d | b%s %s %s" % (cap, ",".join(base), ev, " ".join(tail(v - 10))))
    # deep backlogs that drain to empty and refill three times (recycled queue nodes), every end position
    for cap in (0, 1, 4):
        base, v = [], 100
        for burst in (5, 3, 6):
            for _ in range(burst):
                v += 1
                base.append("s%d" % v)
            base += ["r0"] * burst
        for ev in ("x", "c0"):
            for pos in range(len(base) + 1):
                mv = list(base)
                mv.insert(pos, ev)
                out.append("stage=New cap=%d | %s" % (cap, " ".join(mv + tail(14))))
    return out


def passthrough_then_backlog(cap, k, m, end):
    """k values pass end to end one by one, then the receiver falls behind by m values, then the stream ends (close by
    the sender / cancel) and is drained: internal storage that was cycled through k times before it has to grow"""
    mv, v = [], 1
    for _ in range(k):
        mv += ["s%d" % v, "r0"]
        v += 1
    for _ in range(m):
        mv.append("s%d" % v)
        v += 1
    mv.append(end)
    return "stage=New cap=%d | " % cap + " ".join(mv + ["r0"] * (m + 3) + ["z"])


CORPUS = [passthrough_then_backlog(c, k, m, e) for (c, k, m, e) in
          [(0, 20, 17, "c0"), (0, 16, 33, "x"), (2, 40, 70, "c0"), (1, 17, 18, "x"), (4, 33, 40, "c0"), (0, 3, 20, "c0")]] + [
    # bursts: sends and the cancel / close made back to back, so that the pump meets them with values still in `in`
    "stage=New cap=4 | bs1,s2,s3,s4,s5,x r0 r0 r0 r0 r0 r0 r0 r0 z",
    "stage=New cap=2 | s1 s2 bs3,s4,s5,x r0 r0 r0 r0 r0 r0 r0 r0 z",
    "stage=New cap=4 | bs1,s2,s3,s4,s5,c0 r0 r0 r0 r0 r0 r0 r0 r0 z",
    "stage=New cap=1 | bs1,s2,r0,s3,r0,x r0 r0 r0 r0 r0 z",
    # values parked in the input buffer at cancel (lost by the pre-fix pump)
    "stage=New cap=4 | s1 s2 s3 s4 s5 s6 x r0 r0 r0 r0 r0 r0 r0 r0 z",
    "stage=New cap=1 | s1 s2 s3 x r0 r0 r0 r0 r0 z",
    # close by the sender with a backlog (the pre-fix pump dropped the backlog and closed `in` twice)
    "stage=New cap=0 | s1 s2 s3 s4 s5 c0 r0 r0 r0 r0 r0 r0 r0 z",
    "stage=New cap=2 | s1 s2 s3 s4 s5 c0 x r0 r0 r0 r0 r0 r0 r0 z",
    # drain to empty and refill: recycled queue nodes
    "stage=New cap=0 | s1 s2 s3 r0 r0 r0 r0 s4 s5 r0 r0 r0 s6 r0 r0 s7 s8 s9 x r0 r0 r0 r0 z",
    "stage=New cap=2 | s1 s2 s3 s4 s5 s6 s7 r0 r0 r0 r0 r0 r0 r0 r0 s8 s9 s10 s11 r0 r0 r0 r0 r0 c0 r0 z",
    # nothing ever sent
    "stage=New cap=0 | x r0 z", "stage=New cap=3 | c0 r0 z", "stage=New cap=0 | z r0 x z r0 z",
]


def flat(tr):
    """steps with bursts expanded: (move, result, inside a burst)"""
    out = []
    for mv, res, _ in tr.steps:
        if mv[0] == "b":
            subs, ress = [m for m in mv[1:].split(",") if m], res.split(",")
            out += [(m, r, True) for m, r in zip(subs, ress)]
        else:
            out.append((mv, res, False))
    return out


def profile(tr):
    """(max backlog reached, number of times the backlog was drained to empty and refilled)"""
    out, mx, cycles, was_empty_after_fill = 0, 0, 0, False
    for mv, res, _ in flat(tr):
        if mv[0] == "s" and res == "ok":
            if out == 0 and was_empty_after_fill:
                cycles += 1
                was_empty_after_fill = False
            out += 1
            mx = max(mx, out)
        elif mv[0] == "r" and res.startswith("v"):
            out -= 1
            if out == 0:
                was_empty_after_fill = True
    return mx, cycles


def evaluate(script, tr):
    cap = int(tr.cfg.get("cap", 0))
    key = {"stage": "New", "cap": cap}
    vs = []
    # cfg presend: values sent right after New returned, before the pump took a step (all complete: at most cap of them)
    sent, got = [int(x) for x in tr.cfg.get("presend", "").split(",") if x], []
    ended = None          # first cancel / close-by-sender move
    closed_seen = False
    for pos, (mv, res, burst) in enumerate(flat(tr)):
        c = mv[0]
        if c == "s":
            if res == "ok":
                sent.append(int(mv[1:]))
            elif res == "full" and ended is None and not burst:
                # (inside a burst the pump has had no chance to run: `full` then says nothing about the receiver)
                vs.append(vlib.Violation("impl", "New(cap=%d): a send found the send side full before any cancel/close: the sender would wait (move %d, %s)" % (cap, pos, mv),
                                         case=script, expected="ok", got="full", key=dict(key, **{"class": "sender-waits"})))
        elif c in "xc" and res == "ok" and ended is None:
            ended = (pos, mv)
        elif c == "r":
            if res == "closed":
                if not closed_seen and got != sent:
                    vs.append(vlib.Violation("impl", "New(cap=%d): the receive side closed after delivering %s although the completed sends are %s (end of stream by %s)" % (cap, got, sent, ended[1] if ended else "?"),
                                             case=script, expected=sent, got=got, key=dict(key, **{"class": "lost-at-" + (ended[1] if ended else "none")})))
                if ended is None:
                    vs.append(vlib.Violation("impl", "New(cap=%d): the receive side closed without cancel or close of the send side" % cap, case=script, key=dict(key, **{"class": "spurious-close"})))
                closed_seen = True
            elif res.startswith("v"):
                got.append(int(res[1:]))
                if closed_seen:
                    vs.append(vlib.Violation("impl", "New(cap=%d): a value arrived after the receive side was seen closed" % cap, case=script, key=key))
                if got != sent[:len(got)]:
                    vs.append(vlib.Violation("impl", "New(cap=%d): received %s is not a prefix of the completed sends %s (lost, duplicated, reordered or invented value)" % (cap, got, sent),
                                             case=script, expected=sent[:len(got)], got=got, key=dict(key, **{"class": "not-fifo"})))
                    return vs
        elif c == "z":
            # not part of C08's statement (C06 owns goroutine exit): recorded, compared with the model, no violation
            if False and closed_seen and int(res) != 0:
                vs.append(vlib.Violation("impl", "New(cap=%d): %s goroutine(s) alive after the receive side closed" % (cap, res), case=script, key=dict(key, **{"class": "leak"})))
    # the scripts end with more receives than values: after cancel/close the close must have been seen
    if ended is not None and tr.complete and tr.moves[-1] == "z" and not closed_seen:
        nr = sum(1 for mv, res, _ in flat(tr)[ended[0]:] if mv == "r0")
        if nr > len(sent):
            vs.append(vlib.Violation("impl", "New(cap=%d): after %s and %d receives the receive side is still open" % (cap, ended[1], nr), case=script, key=dict(key, **{"class": "never-closes"})))
    return vs


RACE_KEY = {"stage": "New", "class": "cancel-close-race"}
RACE_WHAT = ("pipe.New: close of the send side racing with cancel (between the pump's empty non-blocking drain and its own close(in)) "
             "panics the library goroutine with 'close of closed channel'")


def race_stress(ctx, binp, ms=20000):
    """thorough tier: free-running cancel || close-by-sender on the real code (go/harness/lockstep/unbound_race_test.go).
    A reproduction of the known race is reported under RACE_KEY; a non-reproduction is no alarm; any other crash or a
    lost / reordered value is a violation of its own."""
    out = os.path.join(ctx.tmp, "race.out")
    env = dict(os.environ, UNBOUND_RACE_MS=str(ms), UNBOUND_RACE_OUT=out, UNBOUND_RACE_SEED=str(ctx.seed), GOMAXPROCS="4")
    try:
        p = subprocess.run([binp, "-test.run", "TestUnboundRace$", "-test.count=1", "-test.timeout=%ds" % (ms // 1000 + 120)],
                           env=env, capture_output=True, text=True, timeout=ms // 1000 + 180)
        rc, txt = p.returncode, p.stdout[-3000:] + p.stderr[-6000:]
    except subprocess.TimeoutExpired:
        rc, txt = -1, "timeout"
    res = open(out).read().strip() if os.path.exists(out) else ""
    if rc == 0:
        ctx.cov["race_repro"] = "not reproduced (%s, GOMAXPROCS=4, %d ms)" % (res, ms)
        return
    # the known race needs both the cancel and the close: a crash while only one of them was used (phase A) is something else
    lib_close = "phase=B" in res and "panic: close of closed channel" in txt and "pipe/v2.New" in txt and "unbound.go" in txt
    if lib_close:
        ctx.cov["race_repro"] = "reproduced on the real code: library goroutine panicked with 'close of closed channel' in pipe.New (GOMAXPROCS=4)"
        ctx.violations.append(vlib.Violation("impl", RACE_WHAT, case="free-running: k sends; go cancel(); go close(snd) (staggered); drain", got=txt[-1500:], key=dict(RACE_KEY)))
    elif "LOSS" in res or "LOSS" in txt or "sent 1.." in txt:
        ctx.cov["race_repro"] = "values lost or reordered under cancel || close: " + res
        ctx.violations.append(vlib.Violation("impl", "New: under concurrent cancel and close by the sender the receiver did not obtain exactly the completed sends: " + (res or txt[-300:]),
                                             case="free-running: k sends; go cancel(); go close(snd); drain", got=txt[-1500:], key={"stage": "New", "class": "race-loss"}))
    else:
        ctx.cov["race_repro"] = "stress run failed otherwise"
        ctx.violations.append(vlib.Violation("impl", "New: the free-running cancel || close stress crashed: " + (txt.strip().split("\n")[0] if txt.strip() else "rc=%d" % rc),
                                             case="free-running: k sends; go cancel(); go close(snd); drain", got=txt[-1500:], key={"stage": "New", "class": "race-crash"}))


def types_phase(ctx, binp):
    """pipe.New at other element types (string, any, a non-empty interface type; 0 is the nil interface value): what was
    sent is what is received, in order, then the receive side closes (go/harness/lockstep/unbound_types_test.go). Direct
    oracle only: the model is about the channel structure, not about the element type."""
    rng = ctx.rng
    n = 400 if ctx.thorough() else 60
    lines = []
    for _ in range(n):
        k = rng.randrange(0, 9)
        vals = [rng.choice([0, 0, rng.randrange(1, 50)]) for _ in range(k)]
        lines.append("%d %s %s" % (rng.choice([0, 1, 2, 4]), rng.choice("cx"), " ".join(map(str, vals))))
    fin, fout = os.path.join(ctx.tmp, "types.in"), os.path.join(ctx.tmp, "types.out")
    todo = list(enumerate(lines))
    for attempt in range(6):
        if not todo:
            break
        open(fin, "w").write("\n".join(l for _, l in todo) + "\n")
        if os.path.exists(fout):
            os.remove(fout)
        env = dict(os.environ, UNBOUND_TYPES_IN=fin, UNBOUND_TYPES_OUT=fout)
        try:
            p = subprocess.run([binp, "-test.run", "TestUnboundTypes$", "-test.count=1", "-test.timeout=120s"], env=env, capture_output=True, text=True, timeout=180)
            rc, txt = p.returncode, p.stdout[-2000:] + p.stderr[-4000:]
        except subprocess.TimeoutExpired:
            rc, txt = -1, "timeout"
        done, started = {}, None
        if os.path.exists(fout):
            for l in open(fout).read().split("\n"):
                if l.startswith("#"):
                    started = int(l[1:])
                elif l:
                    i, _, r = l.partition(" ")
                    done[int(i)] = r
        for i, r in sorted(done.items()):
            idx, line = todo[i]
            ctx.hist("element_types_runs", "string+any+iface+struct{}")
            ctx.count("types " + line, nontrivial=len(line.split()) > 2)
            if any(not part.strip().endswith(":ok") for part in r.split("|")):
                ctx.violations.append(vlib.Violation("impl", "pipe.New over another element type (0 = the nil interface value) does not deliver exactly what was sent, in order, before closing: " + r,
                                                     case="types " + line, expected="ok", got=r, key={"stage": "New", "class": "element-type"}))
        if rc == 0:
            todo = []
        elif started is not None and started not in done:
            idx, line = todo[started]
            m = re.search(r"panic: ([^\n]*)", txt)
            ctx.violations.append(vlib.Violation("impl", "pipe.New over another element type (0 = the nil interface value): the library crashed: " + (m.group(1) if m else txt.strip()[:200]),
                                                 case="types " + line, got=txt[-1500:], key={"stage": "New", "class": "element-type-crash"}))
            todo = todo[started + 1:]
        else:
            ctx.broken.append({"kind": "correspondence", "detail": "element-type run of pipe.New failed: " + txt[-600:]})
            break


def run(ctx):
    ctx.cov["rule"] = ("script = capacity + environment moves on the pair returned by pipe.New (non-blocking send, close by the sender, non-blocking receive, "
                       "cancel, goroutine census) replayed under testing/synctest, the end of stream (cancel / close / both) at random resp. every position, "
                       "backlogs that drain to empty and refill; non-trivial = a send completed and something was observed on the receive side; distinct by script text")
    ctx.assumptions += ls.ASSUME + ["sync.Pool is modelled as 'Get returns any pooled node or a fresh one' (Model/Queue); the network model carries the abstract backlog list, "
                                    "justified by queue_refines_fifo"]
    ls.regen_stages(ctx, pipe=False, fork=False, sources=False, text=True, cfg=True)
    ctx.prove()
    if ctx.thorough():
        ctx.leanchecker()
    # known finding, reproduced at model level: the faithful model reaches a panic when the sender closes after cancel
    if any(n == "cancel_close_race_panics" and ok for (n, _, ok) in ctx.obligations):
        ctx.violations.append(vlib.Violation("impl", RACE_WHAT, case="cancel(); pump: Done arm, inner select default; sender: close(snd); pump: close(in)",
                                             theorem="cancel_close_race_panics", key=dict(RACE_KEY)))
    if ctx.replay:
        scripts = [json.load(open(ctx.replay))["case"]]
    else:
        n = 6000 if ctx.thorough() else 600
        scripts = CORPUS + [gen_script(ctx.rng) for _ in range(n)]
        # a pair created under a context that is already done, and sent to at once (at most cap values: they all complete)
        for cap in [c for c in CAPS if c >= 1] + [1, 4]:
            k = ctx.rng.randrange(0, cap + 1)
            vals = ctx.rng.sample(range(1, 200), k)
            scripts.append("stage=New cap=%d pre=1 presend=%s | x %s z" % (cap, ",".join(map(str, vals)), " ".join(["r0"] * (k + 2))))
        if ctx.thorough():
            scripts += exhaustive()
    # the pipe.New files of the harness are behind a build tag: they need the `closesInOnCancel` / burst hooks of
    # lockstep_test.go and must not break the other lock-step checks on a tree that lacks them
    rep = {"github.com/fogfish/golem/pipe/v2": vlib.REPO + "/pipe", "github.com/fogfish/golem/pure": vlib.REPO + "/pure"}
    binp, err = ctx.harness("lockstep", rep, test=True, tags="verif,lockstep_unbound", suffix="-unbound")
    if binp is None:
        ctx.broken.append({"kind": "correspondence", "detail": "lock-step harness does not build against /repo/pipe", "log": err})
        return
    traces = ls.judge(ctx, scripts, evaluate, sub="unbound", binp=binp, record=False)
    if not ctx.replay:
        types_phase(ctx, binp)
    if ctx.thorough() and not ctx.replay:
        race_stress(ctx, binp)
    for tr in traces:
        if tr is None:
            continue
        fl = flat(tr)
        nsent = sum(1 for m, r, _ in fl if m[0] == "s" and r == "ok")
        ctx.count(tr.script, nontrivial=nsent > 0 and any(m == "r0" and (r == "closed" or r.startswith("v")) for m, r, _ in fl))
        ctx.hist("completed_sends_incl_bursts", nsent)
        mx, cyc = profile(tr)
        ctx.hist("cap", tr.cfg.get("cap"))
        ctx.hist("max_backlog", mx)
        ctx.hist("drain_refill_cycles", cyc)
        ev = [m for m, _, _ in flat(tr) if m in ("x", "c0")]
        ctx.hist("bursts", sum(1 for m in tr.moves if m[0] == "b"))
        ctx.hist("end_of_stream", "+".join(ev[:2]) if ev else "none")
