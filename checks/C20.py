"""C20 — PipeN composes left to right, each function exactly once.
Tie: T (regenerated Gen/PipeN.lean, theorems pipeN_kleisli/pipeN_pure by rfl) + direct oracle and
spec correspondence on a staged copy of internal/pipe with call-logging non-commuting functions."""
import os, shutil
import vlib
from checks import C20_prog

P = 1000003


def gen_cases(ctx, per_n):
    cases = []
    for n in range(2, 21):
        for k in range(per_n):
            x = ctx.rng.randrange(0, P) if k > 1 else (1 if k else -1)   # -1: nil interface argument
            ab = []
            for i in range(n):
                ab += [ctx.rng.randrange(2, 1000), ctx.rng.randrange(1, 1000)]
            cases.append(" ".join(map(str, [n, x] + ab)))
    return cases


def gen_cases_one(ctx, n):
    ab = []
    for i in range(n):
        ab += [ctx.rng.randrange(2, 1000), ctx.rng.randrange(1, 1000)]
    return " ".join(map(str, [n, ctx.rng.randrange(0, P)] + ab))


def expect(case):
    v = list(map(int, case.split()))
    n, x = v[0], v[1]
    if x == -1:
        x = 0
    for i in range(n):
        x = (v[2 + 2 * i] * x + v[3 + 2 * i]) % P
    one = "%d | %s" % (x, " ".join(str(i + 1) for i in range(n)))
    return one + " || " + one


def run(ctx):
    ctx.cov["rule"] = ("cases = (N, x, affine coefficients a_i,b_i) for N=2..20, seeded; stage i is x -> (a_i*x+b_i) mod 1000003 and logs i; "
                       "non-trivial = every case (all a_i>=2 pairwise non-commuting with overwhelming probability); distinct by case line; "
                       "`prog` cases (checks/C20_prog.py, direct oracle only - the model's line protocol has one composition per case): several "
                       "compositions built one after another in one process and each called right after it was built and again after all exist: "
                       "composed functions as first/middle/last step of further compositions (nest), one composed function shared by 2..4 outer "
                       "compositions (share), sibling closures of one function literal at the same positions of compositions of one arity (sib), "
                       "a step re-entering the composed function it is part of (rec), random DAGs of these (mix); expected = plain nesting")
    ctx.assumptions += ["user functions are modelled as Kleisli arrows of an arbitrary monad (covers counting, logging, failure, state)",
                        "Go evaluates f(g(x)) innermost call first (translator emits binds in that order)"]
    ctx.xlate("pipen", "PipeN.lean", ["internal/pipe/pipe.go"])
    ctx.prove()
    if ctx.thorough():
        ctx.leanchecker()

    def stage(dst):
        os.makedirs(os.path.join(dst, "pipen"), exist_ok=True)
        shutil.copy(os.path.join(vlib.REPO, "internal/pipe/pipe.go"), os.path.join(dst, "pipen/pipe.go"))
    binp, err = ctx.harness("pipen", {}, stage=stage)
    if binp is None:
        ctx.broken.append({"kind": "correspondence", "detail": "harness does not build against /repo/internal/pipe", "log": err})
        return
    per_n = 400 if ctx.thorough() else 40
    if ctx.broken:
        per_n *= 10  # failing-input search on an enlarged budget
    cases = gen_cases(ctx, per_n)
    if ctx.replay:
        import json
        cases = [json.load(open(ctx.replay))["case"]]
    # reentrancy: one composed function called concurrently with different arguments (direct oracle only)
    pcases, pviol = [], []   # failures of the concurrent part are reported after the (deterministic) sequential ones
    if ctx.replay and cases[0].startswith("prog "):
        run_prog(ctx, binp, [(cases[0], "replay", {})])
        return
    if not ctx.replay or cases[0].startswith("par "):
        for n in range(2, 21):
            for _ in range(3 if ctx.thorough() or ctx.broken else 1):
                pcases.append("par " + gen_cases_one(ctx, n))
        if ctx.replay:
            pcases, cases = cases, []
        rcp, pimpl, perr = ctx.run_harness(binp, [], pcases)
        for c, got in zip(pcases, pimpl):
            ctx.count(c)
            ctx.hist("concurrent_N", c.split()[1])
            if got != "ok":
                n = int(c.split()[1])
                pviol.append(vlib.Violation("impl", "Pipe%s called concurrently from 8 goroutines does not return f_N(...f_1(a)) for every call: %s" % ("" if n == 2 else n, got),
                                                     case=c, expected="ok", got=got, key={"N": n, "class": "concurrent"}))
        if len(pimpl) != len(pcases):
            ctx.broken.append({"kind": "correspondence", "detail": "harness produced %d lines for %d concurrent cases: %s" % (len(pimpl), len(pcases), perr[-500:])})
    ident_replay = []
    if ctx.replay and cases and cases[0].split()[0] in ("ident", "panicid"):
        ident_replay, cases = cases, []
    rc, impl, err = ctx.run_harness(binp, [], cases)
    model = ctx.oracle("C20", cases)
    ctx.diff(cases, impl, model, "KChain.run spec vs real PipeN")
    sviol = []
    for c, got in zip(cases, impl):
        ctx.count(c)
        ctx.hist("N", c.split()[0])
        want = expect(c)
        if got != want:
            n = int(c.split()[0])
            sviol.append(vlib.Violation("impl", "Pipe%s does not return f_N(...f_1(a)) with each function applied once in order" % ("" if n == 2 else n),
                                                 case=c, expected=want, got=got, key={"N": n}))
        elif len(ctx.cov["samples"]) < 4 and c.split()[0] in ("2", "9", "20"):
            ctx.sample({"case": c, "impl": got, "model": want})
    if len(impl) != len(cases):
        ctx.broken.append({"kind": "correspondence", "detail": "harness produced %d lines for %d cases: %s" % (len(impl), len(cases), err[-500:])})
    # a one-composition case that fails only because of what the process composed BEFORE it is no replay by itself: such
    # failures are listed after the self-contained `prog` cases (which build their whole history in one line)
    later = []
    if sviol and not ctx.replay:
        rc1, alone, _ = ctx.run_harness(binp, [], [sviol[0].case])
        if alone and alone[0] == expect(sviol[0].case):
            for v in sviol:
                v.what += " (in a process that had built other compositions before; the first such case passes when it is run alone)"
            later, sviol = sviol, []
    ctx.violations += sviol
    # identity of the values handed along (direct oracle only): the steps see and return the very objects — a slice
    # argument with its capacity, a pointer into it, a resource with a Close method nobody is entitled to call
    icases = ["ident %d %d" % (n, k) for n in range(2, 21) for k in (1, 3)]
    # a step that panics: the caller recovers the very value the step panicked with, every time, and the composed function
    # is as good as new afterwards (also after 70 000 recovered panics)
    icases += ["panicid %d %d %d" % (n, k, 3) for n in range(2, 21) for k in sorted({1, (n + 1) // 2, n})]
    icases += ["panicid %d %d %d" % (n, ctx.rng.randrange(1, n + 1), 70000) for n in ((2, 3, 20) if not ctx.thorough() else range(2, 21))]
    if ctx.replay:
        icases = ident_replay
    if icases:
        rci, iimpl, ierr = ctx.run_harness(binp, [], icases)
        for c, got in zip(icases, iimpl):
            ctx.count(c)
            ctx.hist("identity_N", c.split()[1])
            want = " | ".join(["same cap=8 open"] * int(c.split()[2])) if c.startswith("ident ") else "same ok"
            if got != want and c.startswith("panicid "):
                n = int(c.split()[1])
                ctx.violations.append(vlib.Violation("impl", "Pipe%s: when step %s panics, the composed function does not panic with that very value, or is not usable afterwards (%s recovered calls, then one with a good argument): %s"
                                                     % ("" if n == 2 else n, c.split()[2], c.split()[3], got), case=c, expected=want, got=got, key={"N": n, "class": "panic-identity"}))
            elif got != want:
                n = int(c.split()[1])
                ctx.violations.append(vlib.Violation("impl", "Pipe%s does not hand on the very values its steps return (argument slice, pointer into it, a resource with a Close method): %s" % ("" if n == 2 else n, got),
                                                     case=c, expected=want, got=got, key={"N": n, "class": "identity"}))
        if len(iimpl) != len(icases):
            ctx.broken.append({"kind": "correspondence", "detail": "harness produced %d lines for %d identity cases: %s" % (len(iimpl), len(icases), ierr[-500:])})
    if not ctx.replay:
        per_family = 1200 if ctx.thorough() else 120
        if ctx.broken:
            per_family *= 5
        run_prog(ctx, binp, C20_prog.gen_cases(ctx.rng, per_family))
    ctx.violations += later + pviol


def run_prog(ctx, binp, pc):
    """several compositions in one process (checks/C20_prog.py): direct oracle only"""
    lines = [c for c, _, _ in pc]
    rc, impl, err = ctx.run_harness(binp, [], lines)
    fails = []
    for (c, fam, info), got in zip(pc, impl):
        ctx.count(c)
        ctx.hist("prog_family", fam)
        ctx.hist("prog_compositions", len(C20_prog.groups(c)))
        if fam in ("nest", "share"):
            ctx.hist("prog_%s_position" % fam, info["where"])
            ctx.hist("prog_%s_base_arity" % fam, info["base"])
        if "depth" in info:
            ctx.hist("prog_reentry_depth", info["depth"])
        want = C20_prog.prog_expect(c)
        if got != want:
            fails.append([c, fam, got, want, ""])
        elif fam in ("share", "rec") and sum(1 for x in ctx.cov["samples"] if str(x.get("case", "")).startswith("prog")) < 2:
            ctx.sample({"case": c, "impl": got[:300]}, limit=8)
    # all lines of a run share one process: a line may fail because of what EARLIER lines composed. The first failing line that
    # also fails in a process of its own (a replay that needs nothing else) is reported first.
    # (candidates taken family by family in turn, at most 300 processes)
    rank, seen = [], {}
    for f in fails:
        seen[f[1]] = seen.get(f[1], 0) + 1
        rank.append((seen[f[1]], len(rank)))
    for _, k in sorted(rank)[:300]:
        f = fails[k]
        if len(pc) == 1:
            break
        rc1, alone, _ = ctx.run_harness(binp, [], [f[0]])
        if alone and alone[0] != f[3]:
            f[2] = alone[0]
            fails.insert(0, fails.pop(k))
            break
        f[4] = " (in the process that had run the earlier cases; the case passes in a process of its own)"
    for c, fam, got, want, rem in fails:
        ctx.violations.append(vlib.Violation("impl", "a function composed by Pipe/PipeN does not return f_N(...f_1(a)) of the functions supplied to it "
                                             "when several compositions exist in the process (%s): %s%s" % (fam, C20_prog.describe(c, got), rem),
                                             case=c, expected=want, got=got, key={"class": "prog", "family": fam}))
    if len(impl) != len(lines):
        ctx.broken.append({"kind": "correspondence", "detail": "harness produced %d lines for %d prog cases: %s" % (len(impl), len(lines), err[-500:])})
