"""C06, share of the source stages Emit / Unfold: no panic, delivered is a prefix of the uncancelled
stream, after cancel the goroutine exits and both channels close even if nobody receives again
(Emit's time.Sleep is not cancellable: after at most one more tick per free buffer slot + one).
Lock-step on the virtual clock against `oracle timed`; evaluator shared with checks/C11.py."""
import lockstep as ls
from checks import C11


def gen(rng, thorough):
    sc = []
    caps = [0, 1, 2, 3]
    for cap in caps:
        for freq in ([1000, 7] if thorough else [1000]):
            for mode, fail in (("pure", ()), ("lift", (1,)), ("try", (0, 2)), ("try", (0, 1, 2, 3, 4, 5, 6, 7, 8, 9, 10, 11, 12))):
                sc += C11.emit_cancel_points(cap, freq, mode, fail)
    # cancel before anything, cancel while the buffer is full / the error channel is full, never receive
    for cap in caps:
        for mode, fail in (("pure", ()), ("try", tuple(range(12)))):
            for idle in (0, 1, cap, cap + 1, cap + 3):
                mv = (["t%d" % (1000 * idle)] if idle else []) + ["x"] + C11.tail_after_cancel(cap, 1000, "Emit")
                sc.append(C11.emit_cfg(cap, 1000, mode, fail, "idle-cancel") + " | " + " ".join(mv))
    for cap in caps:
        for fn in (1, 2, 3):
            for mode, fail in (("pure", ()), ("lift", (C11.unfold_values(fn, 1, 3)[2],)), ("try", (C11.unfold_values(fn, 1, 3)[2],)), ("try", (0, 1))):
                n = cap + 5
                for ci in range(0, n + 1, 1 if thorough else 2):
                    sc.append(C11.unfold_script(rng, cap, fn, 1, mode, fail, n, cancel_at=ci, sched="cancel"))
    for _ in range(3000 if thorough else 400):
        cap, freq = rng.choice(caps), rng.choice([1000, 7, 1])
        mode = rng.choice(["pure", "try", "lift"])
        fail = tuple(sorted(i for i in range(6) if rng.random() < 0.4)) if mode != "pure" else ()
        sc.append(C11.emit_random(rng, cap, freq, mode, fail, rng.randrange(2, 16)))
    return sc


def run_extra(ctx):
    scripts = gen(ctx.rng, ctx.thorough())
    trs = ls.judge(ctx, scripts, C11.evaluate, sub="timed", record=False)
    for s, tr in zip(scripts, trs):
        if tr is not None:
            ctx.hist("source_mode", tr.cfg.get("mode", "pure"))
            ctx.count(s, nontrivial=tr.cancel_at is not None and bool(tr.census))
