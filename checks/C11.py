"""C11 — Unfold and Emit produce the exact successive sequence, paced, until cancelled.
Tie: H lock-step on the virtual clock (testing/synctest) against the timed network model
lean/Golem/Go/Sources.lean through `oracle timed`; direct oracles below are evaluated on the
implementation's observations alone.

Script moves: t<d> advance the virtual clock by d ms | r0 receive from out | r1 receive from exx |
x cancel | z goroutine census | v call log of the user function (arg,ms,arg,ms,...).
This module also serves checks/C06_sources.py and checks/C07_sources.py (same evaluator)."""
import itertools, json
import vlib, lockstep as ls

MOD = ls.MOD


def emit_val(i):
    return 10 * i + 3


def step_val(fn, x):
    if fn == 1:
        return x + 1
    if fn == 2:
        return 2 * x
    return (3 * x + 1) % MOD


def cfg_of(tr):
    c = tr.cfg
    fail = set(int(x) for x in c.get("fail", "").split(",") if x)
    mode = c.get("mode", "pure")
    if mode == "pure":
        fail = set()
    return dict(stage=c["stage"], mode=mode, cap=int(c.get("cap", 0)), freq=int(c.get("freq", 1000)),
                fn=int(c.get("fn", 2)), seed=int(c.get("seed", 0)), fail=fail, sched=c.get("sched", ""))


def is_prefix(a, b):
    return len(a) <= len(b) and b[:len(a)] == a


# ------------------------------------------------------------------ generators
def tail_after_cancel(cap, freq, stage):
    """nobody receives: census now and after each further tick; then drain both; census"""
    t = ["z"]
    if stage == "Emit":
        for _ in range(2 * cap + 2):
            t += ["t%d" % freq, "z"]
    t += ["r0"] * (cap + 2) + ["r1"] * (cap + 2) + ["z", "v"]
    return t


def emit_cfg(cap, freq, mode="pure", fail=(), sched=""):
    s = "stage=Emit cap=%d freq=%d mode=%s" % (cap, freq, mode)
    if fail:
        s += " fail=%s" % ",".join(map(str, fail))
    if sched:
        s += " sched=%s" % sched
    return s


def unfold_cfg(cap, fn, seed, mode="pure", fail=(), sched=""):
    s = "stage=Unfold cap=%d fn=%d seed=%d mode=%s" % (cap, fn, seed, mode)
    if fail:
        s += " fail=%s" % ",".join(map(str, fail))
    if sched:
        s += " sched=%s" % sched
    return s


def keepup(cap, freq, n, mode="pure", fail=()):
    """a consumer that keeps up: every tick receive from both channels; probes inside the tick must be empty"""
    mv = ["r0"]
    for k in range(n):
        if k % 2 == 0 and freq > 1:
            mv += ["t%d" % (freq - 1), "r0", "t1"]
        else:
            mv += ["t%d" % freq]
        mv += ["r0", "r1"]
    mv += ["r0", "r1", "v"]
    return emit_cfg(cap, freq, mode, fail, "keepup") + " | " + " ".join(mv)


def emit_random(rng, cap, freq, mode, fail, n, cancel=True):
    ds = [freq, freq, freq, 2 * freq, 3 * freq, max(1, freq // 2), max(1, freq - 1), freq + 1, 1]
    mv = []
    for _ in range(n):
        r = rng.random()
        if r < 0.35:
            mv.append("t%d" % rng.choice(ds))
        elif r < 0.7:
            mv.append("r0")
        elif r < 0.85:
            mv.append("r1")
        elif r < 0.93:
            mv += ["r0", "r1", "v"]
        else:
            mv.append("z")
    if cancel and rng.random() < 0.8:
        mv.insert(rng.randrange(len(mv) + 1), "x")
        mv += ["x"] + tail_after_cancel(cap, freq, "Emit")
    else:
        mv += ["r0", "r1"] * (cap + 1) + ["r0", "r1", "v"]
    return emit_cfg(cap, freq, mode, fail, "random") + " | " + " ".join(mv)


def emit_burst(rng, cap, freq, mode, fail):
    """slow consumer: long idle periods, then bursts of receives (back-pressure on a full buffer)"""
    mv = []
    for _ in range(rng.randrange(1, 4)):
        mv.append("t%d" % (freq * rng.randrange(cap + 1, cap + 5)))
        mv += ["r0"] * rng.randrange(1, cap + 3) + ["r1"] * rng.randrange(0, cap + 2)
    mv += ["r0", "r1"] * (cap + 1) + ["r0", "r1", "v"]
    if rng.random() < 0.5:
        mv += ["x"] + tail_after_cancel(cap, freq, "Emit")
    return emit_cfg(cap, freq, mode, fail, "burst") + " | " + " ".join(mv)


def emit_cancel_points(cap, freq, mode, fail):
    """cancel at every position of a fixed consumer script; nobody receives afterwards"""
    base = []
    for k in range(cap + 3):
        base += ["t%d" % freq, "r0"]
        if k % 2:
            base += ["r1"]
    base += ["t%d" % (freq * (cap + 2))]
    out = []
    for i in range(len(base) + 1):
        mv = base[:i] + ["x"] + tail_after_cancel(cap, freq, "Emit")
        out.append(emit_cfg(cap, freq, mode, fail, "cancel") + " | " + " ".join(mv))
    return out


def unfold_script(rng, cap, fn, seed, mode, fail, n, cancel_at=None, sched="random"):
    mv = []
    for _ in range(n):
        r = rng.random()
        if r < 0.6:
            mv.append("r0")
        elif r < 0.8:
            mv.append("r1")
        elif r < 0.88:
            mv.append("t%d" % rng.choice([1, 1000]))
        elif r < 0.95:
            mv.append("v")
        else:
            mv.append("z")
    if cancel_at is not None:
        mv = mv[:cancel_at] + ["x"] + tail_after_cancel(cap, 1000, "Unfold")
    else:
        mv += ["v"]
    return unfold_cfg(cap, fn, seed, mode, fail, sched) + " | " + " ".join(mv)


def unfold_values(fn, seed, n):
    xs, s = [], seed
    for _ in range(n):
        xs.append(s)
        s = step_val(fn, s)
    return xs


DRAIN_AFTER_CANCEL = 64


def gen_c11(rng, thorough):
    sc = []
    caps = [0, 1, 2, 3]
    freqs = [1000, 250, 7, 1] if thorough else [1000, 7]
    # Emit, keeping-up consumer
    for cap in caps:
        for freq in freqs:
            sc.append(keepup(cap, freq, 6))
            sc.append(keepup(cap, freq, 6, "try", (1, 2, 4)))
            sc.append(keepup(cap, freq, 6, "try", (0,)))
            sc.append(keepup(cap, freq, 5, "lift", (3,)))
    # Emit, every cancel point
    for cap in caps:
        for freq in freqs[:2]:
            sc += emit_cancel_points(cap, freq, "pure", ())
            sc += emit_cancel_points(cap, freq, "try", (1, 2))
            if thorough:
                sc += emit_cancel_points(cap, freq, "lift", (2,))
    # Emit, slow / bursty / random consumers
    nrand = 6000 if thorough else 900
    for _ in range(nrand):
        cap, freq = rng.choice(caps), rng.choice(freqs)
        mode = rng.choice(["pure", "pure", "try", "lift"])
        fail = tuple(sorted(i for i in range(6) if rng.random() < 0.3)) if mode != "pure" else ()
        if rng.random() < 0.3:
            sc.append(emit_burst(rng, cap, freq, mode, fail))
        else:
            sc.append(emit_random(rng, cap, freq, mode, fail, rng.randrange(4, 22)))
    # Unfold: step-function family x capacities x cancel at every point
    for cap in caps:
        for fn in (1, 2, 3):
            seed = rng.choice([0, 1, 5, 17, 333334])
            n = cap + 6
            sc.append(unfold_script(rng, cap, fn, seed, "pure", (), n))
            for ci in range(0, n + 1, 1 if thorough else 2):
                sc.append(unfold_script(rng, cap, fn, seed, "pure", (), n, cancel_at=ci, sched="cancel"))
    # cancel, then a consumer that keeps receiving: the source must stop and close (a `select` with the send arm and the
    # Done arm both ready is a coin flip, so a correct source survives k further receives with probability 2^-k)
    for cap in caps:
        for fn in (1, 3):
            pre = ["r0"] * rng.randrange(0, 3)
            sc.append(unfold_cfg(cap, fn, rng.choice([1, 5, 17]), "pure", (), "drain") + " | " + " ".join(pre + ["x"] + ["r0"] * (cap + DRAIN_AFTER_CANCEL + 2) + ["z"]))
        for freq in freqs[:2]:
            pre = ["t%d" % freq, "r0"] * rng.randrange(0, 3)
            post = []
            for _ in range(cap + DRAIN_AFTER_CANCEL + 2):
                post += ["t%d" % freq, "r0"]
            sc.append(emit_cfg(cap, freq, "pure", (), "drain") + " | " + " ".join(pre + ["x"] + post + ["z"]))
    # a context that is ALREADY cancelled when the source is created (cfg pre=1; the script's first move is the cancel the
    # model sees: a goroutine started under a cancelled context does what one cancelled before its first step does)
    for cap in caps:
        for fn in (1, 3):
            sc.append(unfold_cfg(cap, fn, rng.choice([1, 5, 17]), rng.choice(["pure", "lift", "try"]), (), "drain") + " pre=1 | " + " ".join(["x"] + ["r0", "r1"] * (cap + 4) + ["r0"] * DRAIN_AFTER_CANCEL + ["r1", "z"]))
        for freq in freqs[:2]:
            post = []
            for _ in range(cap + 4):
                post += ["t%d" % freq, "r0", "r1"]
            sc.append(emit_cfg(cap, freq, rng.choice(["pure", "lift", "try"]), (), "drain") + " pre=1 | " + " ".join(["x"] + post + ["r1", "z"]))
    for _ in range(2500 if thorough else 300):
        cap, fn, seed = rng.choice(caps), rng.choice([1, 2, 3]), rng.choice([0, 1, 2, 5, 17, 999999])
        mode = rng.choice(["pure", "pure", "lift", "try"])
        vals = unfold_values(fn, seed, 8)
        fail = tuple(sorted(set(v for v in vals if rng.random() < 0.25))) if mode != "pure" else ()
        n = rng.randrange(3, 16)
        sc.append(unfold_script(rng, cap, fn, seed, mode, fail, n, cancel_at=rng.randrange(n + 1) if rng.random() < 0.6 else None))
    return sc


# ------------------------------------------------------------------ a consumer parked on the output across cancel
KEEP_LIMIT = 100


def has_keeper(script):
    return any(m.startswith("k") for m in script.split("|", 1)[1].split()) if "|" in script else False


def gen_keeper(rng, thorough):
    sc = []
    for cap in (0, 1, 2, 3):
        for fn in (1, 2, 3):
            for rep in range(4 if thorough else 1):
                pre = ["r0"] * rng.randrange(0, 4)
                # work=1: the step function takes a (virtual) millisecond, so the consumer is already parked when it returns
                sc.append(unfold_cfg(cap, fn, rng.choice([1, 5, 17]), "pure", (), "keep") + " work=%d | " % rng.choice([0, 1, 1]) + " ".join(pre + ["k0_%d" % KEEP_LIMIT, "z"]))
        for freq in (7, 1000):
            pre = ["t%d" % freq, "r0"] * rng.randrange(0, 3)
            sc.append(emit_cfg(cap, freq, "pure", (), "keep") + " | " + " ".join(pre + ["k0_%d" % KEEP_LIMIT, "z"]))
    return sc


def evaluate_keeper(script, tr):
    """k<out>_<limit> -> n<total>_<after cancel>_<closed seen>: after cancel the source must stop and close although the
    consumer keeps receiving. On the unchanged code each hand-over after cancel is a fair choice between the send and
    ctx.Done(): more than 64 further values have probability 2^-64."""
    c = cfg_of(tr)
    vs = []
    for mv, res, _ in tr.steps:
        if mv[0] == "k" and res.startswith("n"):
            total, after, closed = res[1:].split("_")
            if int(after) > DRAIN_AFTER_CANCEL:
                vs.append(vlib.Violation("impl", "%s: %s values delivered after cancel to a consumer that is parked on the channel and keeps receiving (close seen: %s): "
                                         "the source does not stop and close after cancel" % (c["stage"], after, closed), case=script, expected="stops after a few values and closes",
                                         got=res, key={"stage": c["stage"], "mode": c["mode"], "class": "keeps-producing-after-cancel"}))
        elif mv[0] == "z" and res not in ("0",):
            vs.append(vlib.Violation("impl", "%s: %s library goroutine(s) alive after cancel and a consumer that drained to the close" % (c["stage"], res), case=script,
                                     key={"stage": c["stage"], "mode": c["mode"], "class": "leak-after-cancel"}))
    return vs


# ------------------------------------------------------------------ direct oracle
def call_log(res):
    xs = [int(x) for x in res.strip("()").split(",") if x]
    return list(zip(xs[0::2], xs[1::2]))


def evaluate(script, tr):
    c = cfg_of(tr)
    st, mode, cap, freq, fail = c["stage"], c["mode"], c["cap"], c["freq"], c["fail"]
    key = {"stage": st, "mode": mode}
    vs = []

    def bad(what, **kw):
        vs.append(vlib.Violation("impl", "%s/%s cap=%d: %s" % (st, mode, cap, what), case=script, key=dict(key, **kw.pop("key", {})), **kw))

    # replay the observations with the virtual clock
    T = 0
    vals, errs = [], []          # (value, time)
    cancel_T = cancel_free = None
    recv_since_cancel = False
    vals_after_cancel = 0
    exited = False               # a census of 0 was seen
    closed = set()
    last_log = None
    settle = []                  # trailing results since the last time step, to find "drained and at rest" points
    for pos, (mv, res, ln) in enumerate(tr.steps):
        l0, l1 = [int(x) for x in ln.split(";")[1].split(",")]
        if l0 > cap:
            bad("len(out)=%d exceeds the capacity" % l0)
        k = mv[0]
        if k == "t":
            T += int(mv[1:])
            settle = []
        elif k == "r":
            ch = int(mv[1:])
            if res == "closed":
                closed.add(ch)
            elif res == "empty":
                if exited:
                    bad("channel %d is still open (receive gives `empty`) after the goroutine has exited" % ch, key={"class": "not-closed"})
            elif res[0] == "v":
                vals.append((int(res[1:]), T))
                if cancel_T is not None:
                    recv_since_cancel = True
                    vals_after_cancel += 1
                    if vals_after_cancel == cap + DRAIN_AFTER_CANCEL + 1:
                        bad("%d values delivered after cancel to a consumer that keeps receiving: the source does not stop and close after cancel" % vals_after_cancel,
                            key={"class": "keeps-producing-after-cancel"})
            elif res[0] == "e":
                errs.append((int(res[1:]), T))
                if cancel_T is not None:
                    recv_since_cancel = True
            settle.append((mv, res))
        elif k == "x":
            # cancel is idempotent: every `x` is a fresh reference point "cancelled, nobody has received since"
            cancel_T = T
            cancel_free = (cap - l0) + ((cap - l1) if mode == "try" else 0)
            recv_since_cancel = False
        elif k == "z":
            n = int(res)
            if n == 0:
                exited = True
            if n > 1:
                bad("%d library goroutines" % n)
            if cancel_T is not None and not recv_since_cancel and n != 0:
                # Unfold leaves at its select at once; Emit's Sleep is not cancellable: it wakes up, calls f once,
                # and leaves at the select — unless the send arm is also ready (free buffer space), which may be
                # chosen at most `free` times
                need = 0 if st == "Unfold" else (cancel_free + 1) * freq
                if T - cancel_T >= need:
                    bad("goroutine still alive %d ms after cancel with nobody receiving (free buffer slots at cancel: %d, frequency %d)" % (T - cancel_T, cancel_free, freq),
                        key={"class": "leak-after-cancel"})
        elif k == "v":
            log = call_log(res)
            if last_log is not None and not is_prefix(last_log, log):
                bad("call log shrank or changed: %s then %s" % (last_log, log))
            last_log = log
            check_calls(c, log, T, bad)
            # drained and at rest: both channels just gave `empty` with no time passing since => every call made so far
            # has handed over its result
            if cancel_T is None and len(settle) >= 2 and {settle[-1], settle[-2]} == {("r0", "empty"), ("r1", "empty")}:
                check_settled(c, log, [v for v, _ in vals], [e for e, _ in errs], bad)
    check_sequence(c, [v for v, _ in vals], [e for e, _ in errs], closed, cancel_T is not None, bad)
    if st == "Emit":
        # the k-th value is never available before k ticks have elapsed
        for k, (v, t) in enumerate(vals, start=1):
            if t < k * freq:
                bad("value #%d (%d) received at virtual time %d ms < %d ticks of %d ms" % (k, v, t, k, freq), key={"class": "pacing"})
        for e, t in errs:
            if t < (e + 1) * freq:
                bad("error of index %d received at %d ms, before %d ticks" % (e, t, e + 1), key={"class": "pacing"})
        if c["sched"] == "keepup":
            check_keepup(c, tr, bad)
    return vs


def check_calls(c, log, T, bad):
    st, freq = c["stage"], c["freq"]
    if st == "Emit":
        if [a for a, _ in log] != list(range(len(log))):
            bad("function called on indices %s, expected 0,1,2,... each once" % [a for a, _ in log], key={"class": "calls"})
        for i, (a, t) in enumerate(log):
            if t < (i + 1) * freq:
                bad("call #%d (index %d) at virtual time %d ms, before %d ticks of %d ms" % (i, a, t, i + 1, freq), key={"class": "pacing"})
            if i and t - log[i - 1][1] < freq:
                bad("two calls within one tick: at %d ms and %d ms (frequency %d)" % (log[i - 1][1], t, freq), key={"class": "pacing"})
    else:
        # each call is applied to the value delivered last: seed, f seed, ... (a failing call returns 0 in this family)
        s = c["seed"]
        for a, _ in log:
            if a != s:
                bad("function applied to %d, expected %s (calls %s)" % (a, "no further call after the fail-fast error" if s is None else "the current seed %d" % s, [x for x, _ in log]), key={"class": "calls"})
                break
            if a in c["fail"]:
                if c["mode"] == "lift":
                    s = None
                else:
                    s = 0
            else:
                s = step_val(c["fn"], a)


def expected(c, n):
    """(values, errors, closes) of the uncancelled stream over the first n indices / steps; closes: the stream ends by itself"""
    st, mode, fail = c["stage"], c["mode"], c["fail"]
    vals, errs = [], []
    if st == "Emit":
        for i in range(n):
            if i in fail:
                errs.append(i)
                if mode == "lift":
                    return vals, errs, True
            else:
                vals.append(emit_val(i))
        return vals, errs, False
    s = c["seed"]
    for _ in range(n):
        vals.append(s)
        if s in fail:
            errs.append(s)
            if mode == "lift":
                return vals, errs, True
            return vals, errs, None   # Unfold under Try after a failure: not claimed by the property (model only)
        s = step_val(c["fn"], s)
    return vals, errs, False


def check_sequence(c, vals, errs, closed, cancelled, bad):
    n = len(vals) + len(errs) + 2
    wv, we, ends = expected(c, n)
    if ends is None:
        # Unfold/Try: the stream up to and including the first failing seed is the plain sequence
        if not (is_prefix(vals, wv) or is_prefix(wv, vals)):
            bad("values %s diverge from the successive sequence %s before any failure" % (vals, wv), expected=wv, got=vals, key={"class": "sequence"})
        return
    if not is_prefix(vals, wv):
        bad("values received %s, not a prefix of the successive sequence %s (gap, repeat or reordering)" % (vals, wv), expected=wv, got=vals, key={"class": "sequence"})
    if not is_prefix(errs, we):
        bad("errors received %s, expected a prefix of %s" % (errs, we), expected=we, got=errs, key={"class": "errors"})
    if 0 in closed and 1 in closed and not cancelled:
        if not ends:
            bad("both channels closed without cancel and without a fail-fast error", key={"class": "closed-early"})
        elif vals != wv or errs != we:
            bad("fail-fast: delivered %s / %s, expected exactly %s / %s" % (vals, errs, wv, we), expected=[wv, we], got=[vals, errs], key={"class": "lift"})
    if (0 in closed) != (1 in closed) and not cancelled and ends is False:
        bad("a channel closed without cancel", key={"class": "closed-early"})


def check_settled(c, log, vals, errs, bad):
    wv, we, ends = expected(c, len(log))
    if ends is None or c["stage"] != "Emit":
        return
    if vals != wv or errs != we:
        bad("after %d calls with both channels drained: values %s errors %s, expected %s / %s (lost, duplicated or invented element)" % (len(log), vals, errs, wv, we),
            expected=[wv, we], got=[vals, errs], key={"class": "settled"})


def check_keepup(c, tr, bad):
    """consumer receives from both channels at every tick: index i is delivered at time (i+1)*freq exactly"""
    freq, mode, fail = c["freq"], c["mode"], c["fail"]
    T = 0
    stopped = False
    seen = set()
    i = 0
    steps = tr.steps
    while i < len(steps):
        mv, res, _ = steps[i]
        if mv[0] == "t":
            T += int(mv[1:])
        elif mv == "r0" and not stopped:
            if T % freq == 0 and T > 0 and T not in seen:
                seen.add(T)
                idx = T // freq - 1
                r1 = steps[i + 1][1] if i + 1 < len(steps) and steps[i + 1][0] == "r1" else None
                if idx in fail:
                    want0 = "closed" if mode == "lift" else "empty"
                    if res != want0 or (r1 is not None and r1 != "e%d" % idx):
                        bad("keeping-up consumer at tick %d: got %s / %s, expected %s / e%d" % (idx + 1, res, r1, want0, idx), key={"class": "one-per-tick"})
                    if mode == "lift":
                        stopped = True
                else:
                    if res != "v%d" % emit_val(idx) or (r1 is not None and r1 != "empty"):
                        bad("keeping-up consumer at tick %d (t=%d ms): got %s / %s, expected v%d / empty" % (idx + 1, T, res, r1, emit_val(idx)), key={"class": "one-per-tick"})
            elif res != "empty":
                bad("keeping-up consumer: a second value (%s) within one tick at t=%d ms" % (res, T), key={"class": "one-per-tick"})
        i += 1


def record(ctx, scripts, traces):
    for s, tr in zip(scripts, traces):
        if tr is None:
            continue
        c = cfg_of(tr)
        ctx.hist("mode", c["mode"])
        ctx.hist("cap", c["cap"])
        ctx.hist("schedule", c["sched"] or "-")
        ctx.hist("failing", len(c["fail"]))
        ctx.hist("values_received", len(tr.values(0)))
        ctx.hist("cancel", "none" if tr.cancel_at is None else ("pos%d" % min(tr.cancel_at, 12)))
        if c["stage"] == "Emit":
            ctx.hist("freq", c["freq"])
        else:
            ctx.hist("fn", c["fn"])
        ticks = any(m[0] == "t" for m in tr.moves)
        ctx.count(s, nontrivial=len(tr.values(0)) > 0 and (ticks or c["stage"] == "Unfold"))


ASSUME = ["time.Sleep / virtual clock: timers fire exactly when due under testing/synctest (EAGER semantics of Go/Sources.lean); "
          "lower bounds are proved for late timers too, the exact one-per-tick statement only for the eager model",
          "the user function is pure and total; Unfold's function family returns (0, err) on a failing argument"]


def run(ctx):
    ctx.cov["rule"] = ("script = Emit/Unfold config (capacity 0-3, frequency, step function, error mode + failing set) + environment moves on the virtual clock "
                       "(advance, receive from out / exx, cancel, census, call log): keeping-up consumer, cancel at every point, slow/bursty/random consumers; "
                       "non-trivial = at least one value received (Emit: and time advanced); distinct by script text")
    ctx.assumptions += ls.ASSUME[:2] + ls.ASSUME[3:] + ASSUME
    ls.regen_stages(ctx, pipe=False, fork=False, sources=True)
    ctx.prove()
    if ctx.thorough():
        ctx.leanchecker()
    if ctx.replay:
        scripts = [json.load(open(ctx.replay))["case"]]
    else:
        scripts = gen_c11(ctx.rng, ctx.thorough())
    keep = [s for s in scripts if has_keeper(s)]
    scripts = [s for s in scripts if not has_keeper(s)]
    trs = ls.judge(ctx, scripts, evaluate, sub="timed", record=False)
    record(ctx, scripts, trs)
    if keep or not ctx.replay:
        # a consumer PARKED on the output while the context is cancelled (move k<out>_<limit>): the oracle's network has no
        # such move; judged by the direct oracle alone
        if not ctx.replay:
            keep = gen_keeper(ctx.rng, ctx.thorough())
        ktr = ls.judge_direct(ctx, keep, evaluate_keeper, "consumer parked on the output across cancel")
        for s, tr in zip(keep, ktr):
            if tr is not None:
                ctx.count(s, nontrivial=True)
