"""C17 — built-in Eq/Ord instances, ContraMap, From wrappers, Monoid constructors.
Tie: T (Gen/Pure.lean regenerated from pure/{eq,ord,monoid,semigroup} + pure/types.go; theorems of Props/C17
over the generated definitions, for every monad) + H (Model/GoOrd: Go's ==,< on int and byte strings) +
differential run of the real packages against the hand mirror (oracle) and against Python's int / bytes
comparison (direct oracle) on boundary ints, prefix / non-ASCII / invalid-UTF-8 strings, non-injective
projections, asymmetric base instances and non-commutative operations, with call traces."""
import itertools, json, os
import vlib

FILES = ["pure/eq", "pure/ord", "pure/monoid", "pure/semigroup", "pure/types.go"]  # a directory = all non-test files of the package
MIN, MAX = -2 ** 63, 2 ** 63 - 1
INTS = [MIN, MIN + 1, -2 ** 53, -2 ** 32, -2 ** 31 - 1, -2 ** 31, -256, -255, -10, -2, -1, 0, 1, 2, 9, 10, 11, 255, 256,
        2 ** 31 - 1, 2 ** 31, 2 ** 32, 2 ** 53, MAX - 1, MAX]
STRS = [b"", b"\x00", b"\x00\x00", b"a", b"A", b"aa", b"ab", b"abc", b"abd", b"b", b"a\x00", b"a\xff", b"z", b"\x7f", b"\x80",
        "é".encode(), b"e", b"\xc3", b"\xc3\x28", b"\xc3\xa9a", "日本".encode(), "日".encode(), b"\xe6\x97", b"\xff", b"\xfe\xff",
        b"\xff\x00", "z".encode() + "é".encode(), "\U0001F600".encode(), b"\xf0\x9f\x98", b"\xed\xa0\x80", "ｚ".encode()]
ALPHA = [0x00, 0x61, 0x62, 0x7f, 0x80, 0xa9, 0xc3, 0xff]


def hx(b):
    return b.hex() if b else "-"


def unhx(s):
    return b"" if s == "-" else bytes.fromhex(s)


def cmp(a, b):
    return -1 if a < b else (1 if a > b else 0)


def wrap(z):
    return (z + 2 ** 63) % 2 ** 64 - 2 ** 63


def tdiv(x, k):
    q = abs(x) // k
    return q if x >= 0 else -q


def projs(k, s):
    if k == 0:
        return len(s)
    if k == 1:
        return s[0] if s else -1
    return sum(s) % 7


def odd(x, y):
    return 5 if x < y else (-7 if x == y else 0)


def tf(b):
    return "true" if b else "false"


def expect(case):
    """The property evaluated directly (Python ints / bytes), independent of the Lean model."""
    w = case.split()
    op, a = w[0], w[1:]
    I = lambda xs: [int(x) for x in xs]
    S = lambda xs: [unhx(x) for x in xs]
    if op == "eqi":
        x, y = I(a); return tf(x == y)
    if op == "eqs":
        x, y = S(a); return tf(x == y)
    if op == "ordi":
        x, y = I(a); return str(cmp(x, y))
    if op == "ords":
        x, y = S(a); return str(cmp(x, y))
    if op in ("tri", "trs"):
        x, y, z = I(a) if op == "tri" else S(a)
        return " ".join([str(cmp(x, y)), str(cmp(y, x)), str(cmp(y, z)), str(cmp(x, z)), tf(x == y), tf(y == x), tf(y == z), tf(x == z), tf(x == x)])
    if op in ("cme", "cmo"):
        k, x, y = I(a)
        px, py = tdiv(x, k), tdiv(y, k)
        r = tf(px < py) if op == "cme" else str(odd(px, py))
        return "%s | p:%d p:%d b:%d:%d" % (r, x, y, px, py)
    if op in ("cmes", "cmos"):
        k = int(a[0]); x, y = S(a[1:])
        px, py = projs(k, x), projs(k, y)
        r = tf(px == py) if op == "cmes" else str(cmp(px, py))
        return "%s | p:%s p:%s" % (r, hx(x), hx(y))
    if op == "fre":
        x, y = I(a); return "%s | b:%d:%d" % (tf(x < y), x, y)
    if op == "fro":
        x, y = I(a); return "%d | b:%d:%d" % (odd(x, y), x, y)
    if op == "sgi":
        x, y = I(a); return "%d | s:%d:%d" % (wrap(x - y), x, y)
    if op == "sgs":
        x, y = S(a); return "%s | s:%s:%s" % (hx(x + y), hx(x), hx(y))
    if op in ("moi", "mfi", "mmi"):
        e, x, y = I(a); return "%d %d | s:%d:%d" % (e, wrap(x - y), x, y)
    if op in ("mos", "mfs"):
        e, x, y = S(a); return "%s %s | s:%s:%s" % (hx(e), hx(x + y), hx(x), hx(y))
    raise ValueError(case)


WHAT = {
    "eqi": "eq.Int.Equal disagrees with ==", "eqs": "eq.String.Equal disagrees with == on byte strings",
    "ordi": "ord.Int.Compare is not LT/EQ/GT exactly as the built-in order", "ords": "ord.String.Compare is not LT/EQ/GT exactly as the built-in (bytewise) order",
    "tri": "eq.Int/ord.Int on a triple disagree with the built-in order", "trs": "eq.String/ord.String on a triple disagree with the built-in order",
    "cme": "eq.ContraMap.Equal is not base.Equal(proj(a), proj(b)) with the projection applied to a then b",
    "cmo": "ord.ContraMap.Compare is not base.Compare(proj(a), proj(b)) with the projection applied to a then b",
    "cmes": "eq.ContraMap over eq.Int is not eq.Int on the projections", "cmos": "ord.ContraMap over ord.Int is not ord.Int on the projections",
    "fre": "eq.From(f).Equal(a,b) is not f(a,b)", "fro": "ord.From(f).Compare(a,b) is not f(a,b)",
    "sgi": "semigroup.From(op).Combine(a,b) is not op(a,b)", "sgs": "semigroup.From(op).Combine(a,b) is not op(a,b)",
    "moi": "monoid.FromOp(e,op): Empty() is not e or Combine(a,b) is not op(a,b)", "mos": "monoid.FromOp(e,op): Empty() is not e or Combine(a,b) is not op(a,b)",
    "mfi": "monoid.From(e,s): Empty() is not e or Combine(a,b) is not s.Combine(a,b)", "mmi": "monoid.From(e,m) over a semigroup that is itself a monoid: Empty() is not e or Combine(a,b) is not m.Combine(a,b)", "mfs": "monoid.From(e,s): Empty() is not e or Combine(a,b) is not s.Combine(a,b)",
}


def laws(op, got):
    """Equivalence / total-order laws checked on the implementation's own answers for a triple."""
    w = got.split()
    if len(w) != 9:
        return "unreadable"
    try:
        cab, cba, cbc, cac = map(int, w[:4])
    except ValueError:
        return "unreadable"
    eab, eba, ebc, eac, eaa = [x == "true" for x in w[4:]]
    if any(c not in (-1, 0, 1) for c in (cab, cba, cbc, cac)):
        return "Compare returned a value other than LT, EQ, GT"
    if cab != -cba:
        return "Compare is not antisymmetric (Compare(a,b) vs Compare(b,a))"
    if cab <= 0 and cbc <= 0 and cac > 0 or cab < 0 and cbc < 0 and cac >= 0:
        return "Compare is not transitive"
    if not eaa:
        return "Equal is not reflexive"
    if eab != eba:
        return "Equal is not symmetric"
    if eab and ebc and not eac:
        return "Equal is not transitive"
    if (cab == 0) != eab or (cbc == 0) != ebc or (cac == 0) != eac:
        return "Compare = EQ does not coincide with Equal"
    return None


def rand_int(rng):
    r = rng.random()
    if r < 0.3:
        return rng.choice(INTS)
    if r < 0.6:
        return rng.randrange(-50, 50)
    if r < 0.8:
        return max(MIN, min(MAX, rng.choice(INTS) + rng.randrange(-3, 4)))
    return rng.randrange(MIN, MAX + 1)


def long_str(rng):
    # strings longer than a machine word over a small alphabet (so that two of them share blocks and differ in several
    # positions of one block: what a word-at-a-time comparison would get wrong)
    return bytes(rng.choice(b"01ab/") for _ in range(rng.choice([8, 9, 15, 16, 17, 24, 33])))


def mutate(rng, s):
    # a relative of s: some positions changed (possibly in opposite directions), or cut, or extended
    s = bytearray(s)
    for _ in range(rng.choice([1, 2, 2, 3, 4])):
        if s:
            s[rng.randrange(len(s))] = rng.choice(b"01ab/")
    r = rng.random()
    if r < 0.15 and s:
        del s[rng.randrange(len(s)):]
    elif r < 0.3:
        s += bytes(rng.choice(b"01ab/") for _ in range(rng.randrange(1, 9)))
    return bytes(s)


def rand_str(rng):
    r = rng.random()
    if r < 0.15:
        return long_str(rng)
    if r < 0.35:
        return rng.choice(STRS)
    if r < 0.55:  # a prefix / extension / one-byte change of a pool string
        s = rng.choice(STRS)
        k = rng.randrange(0, len(s) + 1)
        return s[:k] + bytes(rng.choice(ALPHA) for _ in range(rng.randrange(0, 2)))
    return bytes(rng.choice(ALPHA) if rng.random() < 0.8 else rng.randrange(256) for _ in range(rng.randrange(0, 7)))


def gen_cases(ctx, scale):
    rng = ctx.rng
    th = ctx.thorough()
    cases = []
    # all pairs of the boundary pools
    for x, y in itertools.product(INTS, INTS):
        cases += ["eqi %d %d" % (x, y), "ordi %d %d" % (x, y)]
    for x, y in itertools.product(STRS, STRS):
        cases += ["eqs %s %s" % (hx(x), hx(y)), "ords %s %s" % (hx(x), hx(y))]
    n = (6000 if th else 400) * scale
    for _ in range(n):
        x, y, z = rand_int(rng), rand_int(rng), rand_int(rng)
        if rng.random() < 0.3:
            y = x
        if rng.random() < 0.2:
            z = rng.choice([x, y])
        cases += ["tri %d %d %d" % (x, y, z), "ordi %d %d" % (x, y), "eqi %d %d" % (y, z)]
        a, b, c = rand_str(rng), rand_str(rng), rand_str(rng)
        if rng.random() < 0.25:
            b = a
        elif len(a) >= 8 and rng.random() < 0.7:
            b = mutate(rng, a)
        if rng.random() < 0.2:
            c = rng.choice([a, b])
        elif len(b) >= 8 and rng.random() < 0.5:
            c = mutate(rng, b)
        cases += ["trs %s %s %s" % (hx(a), hx(b), hx(c)), "ords %s %s" % (hx(a), hx(b)), "eqs %s %s" % (hx(b), hx(c))]
        k = rng.choice([1, 2, 3, 10, 1000, 2 ** 31, 2 ** 62])
        cases += ["cme %d %d %d" % (k, x, y), "cmo %d %d %d" % (k, y, z), "fre %d %d" % (x, z), "fro %d %d" % (x, y),
                  "sgi %d %d" % (x, y), "moi %d %d %d" % (z, x, y), "mfi %d %d %d" % (x, y, z), "mmi %d %d %d" % (z, x, y)]
        ks = rng.randrange(0, 3)
        cases += ["cmes %d %s %s" % (ks, hx(a), hx(b)), "cmos %d %s %s" % (ks, hx(b), hx(c)), "sgs %s %s" % (hx(a), hx(b)),
                  "mos %s %s %s" % (hx(c), hx(a), hx(b)), "mfs %s %s %s" % (hx(a), hx(b), hx(c))]
    if th:
        small_i = [MIN, -1, 0, 1, 2, MAX]
        small_s = [b"", b"a", b"ab", b"b", "é".encode(), b"\xc3", b"\xff"]
        for t in itertools.product(small_i, repeat=3):
            cases.append("tri %d %d %d" % t)
        for t in itertools.product(small_s, repeat=3):
            cases.append("trs %s %s %s" % tuple(map(hx, t)))
    return cases


def swapped(case):
    w = case.split()
    if w[0] in ("cme", "cmo", "cmes", "cmos"):
        return " ".join([w[0], w[1], w[3], w[2]])
    if w[0] in ("moi", "mfi", "mmi", "mos", "mfs"):
        return " ".join([w[0], w[1], w[3], w[2]])
    if len(w) == 3:
        return " ".join([w[0], w[2], w[1]])
    return None


def run(ctx):
    ctx.cov["rule"] = ("case = one call of an instance/wrapper with concrete arguments (ints incl. int64 boundaries; strings as raw bytes incl. empty, prefixes, non-ASCII, invalid UTF-8); "
                       "non-trivial = eq*/tr* cases always; every other case only if exchanging its two arguments changes the expected result line (argument order is observable); distinct by case line")
    ctx.assumptions += [
        "Go's built-in == and < on int are equality/order of the mathematical integer; on string they are bytewise (Model/GoOrd, validated on every run against the real code)",
        "user-supplied functions and interface methods are Kleisli arrows of an arbitrary monad (covers logging, counting, failure); Go evaluates call arguments left to right",
        "translator maps a > b to goLt b a (Go spec: x > y is y < x)",
    ]
    ctx.xlate("pure", "Pure.lean", FILES)
    ctx.prove()
    if ctx.thorough():
        ctx.leanchecker()
    binp, err = ctx.harness("pure", {"github.com/fogfish/golem/pure": os.path.join(vlib.REPO, "pure")})
    if binp is None:
        ctx.broken.append({"kind": "correspondence", "detail": "harness does not build against /repo/pure", "log": err})
        return
    cases = gen_cases(ctx, 10 if ctx.broken else 1)  # enlarged budget once something broke
    probe_only = None
    if ctx.replay:
        cases = [json.load(open(ctx.replay))["case"]]
        if cases[0].startswith("probe "):
            probe_only, cases = cases[0][len("probe "):], []
    rc, impl, err = ctx.run_harness(binp, [], cases) if cases else (0, [], "")
    if len(impl) != len(cases):
        ctx.broken.append({"kind": "correspondence", "detail": "harness produced %d lines for %d cases (rc=%s): %s" % (len(impl), len(cases), rc, err[-500:])})
        return
    if not ctx.replay or probe_only is not None:
        # "Empty is the given element" where a copy would lose nil-ness or identity; ContraMap over pointer- and
        # interface-typed arguments (direct oracle only)
        prc, plines, perr = ctx.run_harness(binp, ["probe"], [])
        for l in plines:
            if not l.strip() or (probe_only is not None and l.rsplit(" ", 1)[0] != probe_only):
                continue
            ctx.count("probe " + l.rsplit(" ", 1)[0], True)
            ctx.hist("op", "probe")
            if not l.endswith(" ok"):
                what = ("ContraMap does not give the base instance's result on the projections of pointer- / interface-typed arguments (nil included; the projection is defined on nil): "
                        if "ContraMap" in l else "monoid.From/FromOp: Empty() is not the given element (nil-ness or identity of a slice, map, pointer or interface value lost): ")
                ctx.violations.append(vlib.Violation("impl", what + l, case="probe " + l.rsplit(" ", 1)[0], expected="ok", got=l, key={"op": "probe"}))
        if prc != 0 or len(plines) < 5:
            ctx.broken.append({"kind": "correspondence", "detail": "probe run of the pure harness failed: rc=%s %s" % (prc, perr[-300:])})
    model = ctx.oracle("C17", cases)
    ctx.diff(cases, impl, model, "hand mirror (Model/GoOrd + Driver/C17) vs real pure/eq, ord, monoid, semigroup")
    for c, got in zip(cases, impl):
        op = c.split()[0]
        want = expect(c)
        sw = swapped(c)
        ctx.count(c, op in ("eqi", "eqs", "tri", "trs") or (sw is not None and expect(sw) != want))
        ctx.hist("op", op)
        if op in ("ordi", "ords"):
            ctx.hist("ordering", want)
        if got != want:
            ctx.violations.append(vlib.Violation("impl", WHAT[op], case=c, expected=want, got=got, key={"op": op}))
            continue
        if op in ("tri", "trs"):
            bad = laws(op, got)
            if bad:
                ctx.violations.append(vlib.Violation("impl", bad, case=c, expected=want, got=got, key={"op": op, "law": bad}))
                continue
        if len(ctx.cov["samples"]) < 6 and op in ("cmo", "trs", "mos", "ords", "cme", "moi") and all(s["case"].split()[0] != op for s in ctx.cov["samples"]):
            ctx.sample({"case": c, "impl": got, "expected": want})
