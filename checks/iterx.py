"""Shared by C14 and C15: the extra fields of the go/harness/iter result line.

    <drained>|<visited>|<err>|src=<ok|MODIFIED>|ty=<ok|T:...>|calls=<ok|extra:...|unchecked>|order=<T,T,...>

`core` (the first three fields) is the evaluation at element type int: the part compared with the Lean model and
with the list semantics computed by the check.  `ty`: the same expression evaluated in the same process at the
other typings of the harness (go/harness/iter/types.go), projected back to int, must give the int result.
`calls`: every call of a user callback made by the real combinators must be one that an eager evaluation with the
list functions makes (go/harness/iter/ref.go).  `order`: the order in which the typings were run for this case.
"""
EXTRA = ("src", "ty", "calls", "order")

# typing label -> what the type parameters are (go/harness/iter/types.go)
TYPINGS = {
    "C14": {"int": "int", "string": "string (strconv)", "iface": "an interface type (0 = the nil interface value, otherwise a boxed int)"},
    "C15": {"int": "K = V = E = int", "string": "K = int, V = E = string (strconv)",
            "iface": "K = int, V = E = an interface type (0 = the nil interface value, otherwise a boxed int)",
            "keys": "K = any (0 = nil), V = string, E = int"},
}


def fields(line):
    """-> (core, {src, ty, calls, order}); a line without the fields (bad-case, a truncated line) gives empty strings."""
    core, f = [], {k: "" for k in EXTRA}
    for p in line.split("|"):
        k, eq, v = p.partition("=")
        if eq and k in EXTRA:
            f[k] = v
        else:
            core.append(p)
    return "|".join(core), f


def core(line):
    return fields(line)[0]


def extras_ok(line):
    f = fields(line)[1]
    return f["src"] == "ok" and f["ty"] == "ok" and not f["calls"].startswith("extra")


# the extra fields of a correct run, without the order (for the `expected` of a Violation)
TAIL_OK = "|src=ok|ty=ok|calls=ok"


def record(ctx, line):
    """evidence: the re-typed evaluations and the callback-argument checks really made"""
    f = fields(line)[1]
    order = [t for t in f["order"].split(",") if t]
    for t in order:
        if t != "int":
            ctx.hist("retyped_evaluations", t)          # one drain + one ForEach of the same expression at that typing
    if order:
        ctx.hist("typing_run_first", order[0])
        ctx.hist("typings_run_before_int", order.index("int") if "int" in order else "?")
    ctx.hist("callback_argument_check", f["calls"].split(":")[0] or "missing")


def classify(prop, line, core_ok):
    """-> (what, key-class) for an implementation line that is not as expected."""
    f = fields(line)[1]
    if not core_ok:
        return None, None                # the caller's own message: the int evaluation differs from the list
    if f["ty"] not in ("ok", ""):
        t = f["ty"].split(":")[0]
        return ("the same expression over element type %s (values injected from the int case, evaluated in the same process as the int run, "
                "results projected back) does not yield the list the list functions give: %s"
                % (TYPINGS[prop].get(t, t), f["ty"].split(":", 1)[1].replace("/", " | ") if ":" in f["ty"] else f["ty"])), "other-element-type"
    if f["calls"].startswith("extra"):
        call, _, t = f["calls"].split(":", 1)[1].rpartition("@")
        if call.startswith("after-stop:"):
            return ("ForEach does not stop with the first error returned: after the visitor had returned its error a user callback was still "
                    "called: %s (callback <op>.<function>#<node number in preorder>[environment](arguments), run at element type %s)"
                    % (call[len("after-stop:"):], TYPINGS[prop].get(t, t))), "callback-after-stop"
        return ("a predicate/map/join function was called on an element that the list functions never pass to it: %s "
                "(callback <op>.<function>#<node number in preorder>[environment](arguments), first seen in the run at element type %s)"
                % (call, TYPINGS[prop].get(t, t))), "callback-arguments"
    if f["src"] != "ok":
        return "a source slice was modified", "source-modified"
    return None, None
