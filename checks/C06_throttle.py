"""C06, share of pipe.Throttling: no panic; delivered is a prefix of the input; once the input is
closed and the output drained the data goroutine exits and `out` closes (the pacer may live until
cancel); once cancelled and the input closed both goroutines exit and `out` closes even if nobody
receives. Lock-step on the virtual clock against `oracle throttle`, cancel and close at every point.

Interval <= 0 (`gen_nonpositive`, used by this share of C06 only): `time.After(d)` with d <= 0 fires at once, the
stage degenerates to a plain copy and nothing about a rate is claimed (C13's generators and bound never see these
scripts); what C06 states — no panic in a library goroutine, prefix, close after drain, exit after cancel — is
evaluated by the same direct oracle. The model takes part: interval 0 is an ordinary instance of Go/Throttle.lean
(a timer due at once is a process move), a negative interval is read by the driver as interval 0."""
import vlib, lockstep as ls

STAGE = "Throttling"


NONPOSITIVE = [0, 0, -1, -250]


def gen_script(rng, maxlen=6, ivals=(10, 100)):
    ops, cap = rng.randrange(1, 4), rng.randrange(0, 3)
    ival = rng.choice(list(ivals))
    cfg = "stage=%s cap=%d ops=%d ival=%d" % (STAGE, cap, ops, ival)
    n = rng.randrange(0, maxlen + 1)
    xs = rng.sample(range(1, 40), n)
    sends = ["s%d" % x for x in xs] + ["c0"]
    recvs = ["r0"] * rng.randrange(0, n + 2)
    ticks = ["t%d" % max(0, rng.choice([1, ival // 2, ival, ival + 1, 2 * ival])) for _ in range(rng.randrange(0, 4))]
    body = ls.interleave(rng, [sends, recvs, ticks])
    if rng.random() < 0.3:
        body = [m for m in body if m[0] != "c"]
    if rng.random() < 0.8:
        body.insert(rng.randrange(0, len(body) + 1), "x")
    if rng.random() < 0.3:
        body.insert(rng.randrange(0, len(body) + 1), "z")
    tail = []
    if rng.random() < 0.6:
        # "even if nobody ever receives again": cancel + close, census straight away
        tail += ["x", "c0", "z"]
    tail += ["c0"]
    for _ in range((2 * cap + 1) // ops + 2):
        tail += ["r0"] * (2 * ops + cap + 2) + ["t%d" % (ival if ival > 0 else 1)]
    tail += ["r0", "r0", "z"]
    return cfg + " | " + " ".join(body + tail)


def exhaustive():
    """cancel and close at every position of a small script (thorough tier)"""
    out = []
    for ops in (1, 2):
        for cap in (0, 1):
            base = ["s3", "r0", "s4", "t10", "r0", "s5", "r0"]
            cfg = "stage=%s cap=%d ops=%d ival=10" % (STAGE, cap, ops)
            for ci in range(len(base) + 1):
                for xi in range(len(base) + 2):
                    mv = list(base)
                    mv.insert(ci, "c0")
                    mv.insert(xi, "x")
                    out.append(cfg + " | " + " ".join(mv + ["x", "c0", "z"] + ["r0"] * 4 + ["z"]))
    return out


def gen_scripts(rng, n):
    return [gen_script(rng) for _ in range(n)]


def gen_nonpositive(rng, n):
    """interval 0 and negative intervals: random scripts of the same shape + cancel and close at every point of a small one"""
    return [gen_script(rng, ivals=NONPOSITIVE) for _ in range(n)]


def exhaustive_nonpositive(ivals=(0, -1)):
    out = []
    for ival in ivals:
        for ops in (1, 2):
            for cap in (0, 1):
                base = ["s3", "r0", "s4", "t1", "r0", "s5", "r0"]
                cfg = "stage=%s cap=%d ops=%d ival=%d" % (STAGE, cap, ops, ival)
                for ci in range(0, len(base) + 1, 2):
                    for xi in range(0, len(base) + 2, 2):
                        mv = list(base)
                        mv.insert(ci, "c0")
                        mv.insert(xi, "x")
                        out.append(cfg + " | " + " ".join(mv + ["x", "c0", "z"] + ["r0"] * 4 + ["z"]))
    return out


def evaluate(script, tr, census=True):
    key = {"stage": STAGE}
    vs = []
    sent, got = [], []
    cancelled = closed_in = False
    ival = int(tr.cfg["ival"])
    t, both_at = 0, None      # virtual time; time at which "cancelled and input closed" became true
    dl = int(tr.cfg.get("dl", 0))    # context deadline: the runtime cancels the context at that virtual time
    for mv, res, _ in tr.steps:
        c = mv[0]
        if cancelled and closed_in and both_at is None:
            both_at = t
        if c == "t" and res == "ok":
            t += int(mv[1:])
            if dl and t >= dl:
                cancelled = True
        elif c == "s" and res == "ok":
            sent.append(int(mv[1:]))
        elif c == "c" and res == "ok":
            closed_in = True
        elif c == "x":
            cancelled = True
        elif c == "r":
            if res.startswith("v"):
                got.append(int(res[1:]))
                if got != sent[:len(got)]:
                    vs.append(vlib.Violation("impl", "Throttling: delivered %s is not a prefix of the input %s" % (got, sent), case=script,
                                             expected=sent[:len(got)], got=got, key=key))
                    break
            elif res == "empty":
                if cancelled and closed_in:
                    vs.append(vlib.Violation("impl", "Throttling: `out` neither closed nor readable after cancel with the input closed", case=script,
                                             expected="closed", got="empty", key=dict(key, **{"class": "no-close-after-cancel"})))
                elif closed_in and got == sent:
                    vs.append(vlib.Violation("impl", "Throttling: `out` not closed after the input was closed and everything delivered", case=script,
                                             expected="closed", got="empty", key=key))
            elif res == "closed":
                if not cancelled and got != sent:
                    vs.append(vlib.Violation("impl", "Throttling: `out` closed after %s of %s without cancellation" % (got, sent), case=script, key=key))
        elif c == "z" and census:
            n = int(res)
            # The data goroutine and the close of `out` do not depend on time. The property sets no deadline for
            # the pacer; the code leaves its timer select through ctx.Done at once (the model and the theorem
            # throttle_cancel_terminates say so, and a tree where it only leaves when the timer fires is reported
            # as a correspondence break), but the direct oracle only calls it a leak when both goroutines are
            # alive, or one is still alive after a whole interval of virtual time.
            if cancelled and closed_in and (n >= 2 or (n != 0 and both_at is not None and t - both_at >= ival)):
                vs.append(vlib.Violation("impl", "Throttling: %d goroutine(s) alive after cancel with the input closed" % n, case=script,
                                         key=dict(key, **{"class": "leak-after-cancel"})))
            elif closed_in and got == sent and "closed" in [r for (m, r, _) in tr.steps if m == "r0"] and n > 1:
                vs.append(vlib.Violation("impl", "Throttling: %d goroutines alive after close and drain (only the pacer may remain)" % n, case=script,
                                         key=dict(key, **{"class": "leak"})))
    return vs


def run_extra(ctx):
    n = 4000 if ctx.thorough() else 500
    scripts = gen_scripts(ctx.rng, n)
    if ctx.thorough():
        scripts += exhaustive()
    # interval <= 0: the stage is a plain copy; C06's statement only (no rate bound is claimed or evaluated)
    np = gen_nonpositive(ctx.rng, 800 if ctx.thorough() else 120) + exhaustive_nonpositive((0, -1, -250) if ctx.thorough() else (0, -1))
    ctx.cov["rule"] += ("; Throttling scripts also with interval 0 and negative intervals (distribution `throttle_interval`): time.After fires at once, the stage is a plain copy; "
                        "for those only C06's statement is evaluated (no panic, prefix, close after drain, exit after cancel), no rate bound; the model takes part with interval 0 "
                        "(a negative interval is read as 0 by the oracle driver)")
    for s in scripts + np:
        ctx.hist("throttle_interval", ls.parse_cfg(s)["ival"])
    ls.judge(ctx, scripts + np, evaluate, sub="throttle")
