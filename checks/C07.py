"""C07 — fail-fast (Lift/LiftF) and try-and-continue (Try/TryF) error modes, for every failure pattern.
Tie: H lock-step with the error channel as a second output; exhaustive failing subsets for short inputs."""
import itertools, json, os, subprocess
import vlib, lockstep as ls
from checks import C07_openin as OI

STAGES = ["Map", "FMap"]


def mk(rng, st, mode, cap, xs, fail, order, ek=None):
    cfg = "stage=%s mode=%s cap=%d fail=%s" % (st, mode, cap, ",".join(map(str, fail)))
    if ek:
        cfg += " ek=" + ek      # kind of the error returned by the failing elements (C07_openin.ERROR_KINDS)
    total = sum(len(ls.g_fmap(x)) if st == "FMap" else 1 for x in xs) + len(xs)
    sends = ["s%d" % x for x in xs] + ["c0"]
    if order == "values-first":
        recvs = ["r0", "r1"] * rng.randrange(0, len(xs) + 1)
    elif order == "errors-first":
        recvs = ["r1", "r0"] * rng.randrange(0, len(xs) + 1)
    else:
        recvs = [rng.choice(["r0", "r1"]) for _ in range(rng.randrange(0, 2 * len(xs) + 1))]
    body = ls.interleave(rng, [sends, recvs])
    tail = (["r0", "r1"] if order != "errors-first" else ["r1", "r0"]) * (total + 3)
    return cfg + " | " + " ".join(body + tail + ["a", "z"])


def gen(rng, n, maxlen):
    out = []
    for _ in range(n):
        st = rng.choice(STAGES)
        mode = rng.choice(["lift", "try"])
        k = rng.randrange(0, maxlen + 1)
        xs = rng.sample(range(1, 40), k)
        fail = [x for x in xs if rng.random() < 0.35]
        out.append(mk(rng, st, mode, rng.choice([0, 1, 1, 3]), xs, fail, rng.choice(["values-first", "errors-first", "mixed"]), ek=OI.pick_kind(rng)))
    return out


def exhaustive(rng, maxn):
    """every subset of failing positions for inputs up to maxn elements"""
    out = []
    for st in STAGES:
        for mode in ("lift", "try"):
            for cap in (0, 1, 3):
                for n in range(1, maxn + 1):
                    xs = [4, 5, 7, 8, 10][:n]
                    for mask in itertools.product([0, 1], repeat=n):
                        fail = [x for x, m in zip(xs, mask) if m]
                        out.append(mk(rng, st, mode, cap, xs, fail, rng.choice(["values-first", "errors-first"])))
    return out


def exhaustive_kinds(rng, maxn):
    """every subset of failing positions for inputs up to maxn elements, the failing elements returning errors that
    wrap context.Canceled / context.DeadlineExceeded (the pipeline context stays alive)"""
    out = []
    for ek in OI.ERROR_KINDS[:2]:
        for st in STAGES:
            for mode in ("lift", "try"):
                for cap in (0, 1, 3):
                    for n in range(1, maxn + 1):
                        xs = [4, 5, 7, 8, 10][:n]
                        for mask in itertools.product([0, 1], repeat=n):
                            fail = [x for x, m in zip(xs, mask) if m]
                            if fail:
                                out.append(mk(rng, st, mode, cap, xs, fail, rng.choice(["values-first", "errors-first"]), ek=ek))
    return out


def mk_stderr(rng, cap, xs, fail):
    """Map under Try wired through pipe.StdErr: the error channel is read by the library's own reader"""
    cfg = "stage=StdErrMap mode=try cap=%d fail=%s" % (cap, ",".join(map(str, fail)))
    sends = ["s%d" % x for x in xs] + ["c0"]
    recvs = ["r0"] * rng.randrange(0, len(xs) + 1)
    return cfg + " | " + " ".join(ls.interleave(rng, [sends, recvs]) + ["r0"] * (len(xs) + 3) + ["z"])


def gen_stderr(rng, n, maxlen):
    out = []
    for _ in range(n):
        k = rng.randrange(1, maxlen + 1)
        xs = rng.sample(range(1, 40), k)
        out.append(OI.with_kind(mk_stderr(rng, rng.choice([0, 0, 1, 2]), xs, [x for x in xs if rng.random() < 0.6]), OI.pick_kind(rng)))
    return out


def evaluate_stderr(script, tr):
    cfg = tr.cfg
    fail = set(int(x) for x in cfg.get("fail", "").split(",") if x)
    xs = tr.sent.get(0, [])
    want = [ls.f_map(x) for x in xs if x not in fail]
    vs = []
    key = {"stage": "StdErrMap", "mode": "try"}
    if 0 in tr.closed:
        if tr.values(0) != want:
            vs.append(vlib.Violation("impl", "Map/try through StdErr with failing %s on %s: delivered %s, expected %s" % (sorted(fail), xs, tr.values(0), want), case=script, key=key))
    elif 0 in tr.closed_in:
        vs.append(vlib.Violation("impl", "Map/try through StdErr with failing %s: value channel not closed after the input ended although the error channel is read by StdErr (stage blocked on its error channel?)" % sorted(fail),
                                 case=script, got=tr.recv.get(0), key=key))
    for pos, n in tr.census:
        if 0 in tr.closed and n != 0:
            vs.append(vlib.Violation("impl", "StdErr: %d goroutine(s) alive after the value channel closed" % n, case=script, key=key))
    return vs


def image(st, x):
    return ls.g_fmap(x) if st == "FMap" else [ls.f_map(x)]


def evaluate(script, tr):
    cfg = tr.cfg
    st, mode = cfg["stage"], cfg["mode"]
    fail = set(int(x) for x in cfg.get("fail", "").split(",") if x)
    xs = tr.sent.get(0, [])
    key = {"stage": st, "mode": mode}
    vs = []
    vals, errs = tr.values(0), tr.errors(1)
    done = 0 in tr.closed and 1 in tr.closed
    if mode == "lift":
        first = next((i for i, x in enumerate(xs) if x in fail), None)
        good = xs if first is None else xs[:first]
        want_v = [y for x in good for y in image(st, x)]
        want_e = [] if first is None else [xs[first]]
        want_applied = sorted(xs if first is None else xs[:first + 1])
    else:
        want_v = [y for x in xs if x not in fail for y in image(st, x)]
        want_e = [x for x in xs if x in fail]
        want_applied = sorted(xs)
    if done:
        if vals != want_v or errs != want_e:
            vs.append(vlib.Violation("impl", "%s/%s with failing %s on input %s: delivered values %s errors %s, expected %s / %s" % (st, mode, sorted(fail), xs, vals, errs, want_v, want_e),
                                     case=script, expected=[want_v, want_e], got=[vals, errs], key=key))
        if tr.applied is not None and tr.applied != want_applied:
            vs.append(vlib.Violation("impl", "%s/%s: function applied to %s, expected exactly %s" % (st, mode, tr.applied, want_applied), case=script,
                                     expected=want_applied, got=tr.applied, key=key))
    elif 0 in tr.closed_in:
        vs.append(vlib.Violation("impl", "%s/%s with failing %s: channels not both closed after the input ended and both outputs were drained (blocked forever?)" % (st, mode, sorted(fail)),
                                 case=script, got=[tr.recv.get(0), tr.recv.get(1), sorted(tr.closed)], key=key))
    # fail-fast: from the first failure on nothing further is consumed, both channels are closed, the goroutine is gone —
    # whether or not the input has been closed (checks/C07_openin.py)
    vs += OI.after_failure(script, tr)
    if vals[:len(want_v)] != vals and vals != want_v[:len(vals)]:
        vs.append(vlib.Violation("impl", "%s/%s: values %s are not a prefix of %s" % (st, mode, vals, want_v), case=script, key=key))
    # a census counts once both channels have been seen closed (scripts of C07_openin take one earlier as well)
    seen, closed_pos = set(), None
    for pos, (mv, res, _) in enumerate(tr.steps):
        if mv[0] == "r" and res == "closed":
            seen.add(mv)
            if closed_pos is None and {"r0", "r1"} <= seen:
                closed_pos = pos
    for pos, n in tr.census:
        if done and closed_pos is not None and pos > closed_pos and n != 0:
            vs.append(vlib.Violation("impl", "%s/%s: %d goroutine(s) alive after both channels closed" % (st, mode, n), case=script, key=key))
    return vs


def shared_morphism(ctx, binp):
    """one Lift/Try/LiftF/TryF value handed to two or three stages one after another, failures in each of them
    (go/harness/lockstep/sharedf_test.go); direct oracle only"""
    rng = ctx.rng
    lines = []
    for _ in range(120 if ctx.thorough() else 24):
        mode, stage, cap = rng.choice(["lift", "try"]), rng.choice(["Map", "FMap"]), rng.choice([0, 1, 3])
        ins = []
        for _ in range(rng.choice([2, 2, 3])):
            xs = [rng.choice([7, 14, 21, 28]) if rng.random() < 0.3 else rng.randrange(1, 50) for _ in range(rng.randrange(1, 7))]
            ins.append(" ".join(map(str, xs)))
        lines.append("%s %s %d | %s" % (mode, stage, cap, " | ".join(ins)))
    fin, fout = os.path.join(ctx.tmp, "sharedf.in"), os.path.join(ctx.tmp, "sharedf.out")
    open(fin, "w").write("\n".join(lines) + "\n")
    if os.path.exists(fout):
        os.remove(fout)
    env = dict(os.environ, SHAREDF_IN=fin, SHAREDF_OUT=fout)
    try:
        p = subprocess.run([binp, "-test.run", "TestSharedMorphism$", "-test.count=1", "-test.timeout=120s"], env=env, capture_output=True, text=True, timeout=180)
        rc, txt = p.returncode, p.stdout[-2000:] + p.stderr[-3000:]
    except subprocess.TimeoutExpired:
        rc, txt = -1, "timeout"
    done, started = {}, None
    if os.path.exists(fout):
        for l in open(fout).read().split("\n"):
            if l.startswith("#"):
                started = int(l[1:])
            elif l:
                i, _, r = l.partition(" ")
                done[int(i)] = r
    for i, r in sorted(done.items()):
        ctx.count("sharedf " + lines[i], nontrivial=True)
        ctx.hist("shared_morphism_value", lines[i].split()[0] + "/" + lines[i].split()[1])
        if r != "ok":
            ctx.violations.append(vlib.Violation("impl", "a morphism value (Lift/Try/LiftF/TryF) used by a second stage after an earlier stage met failures does not give the documented "
                                                 "error behaviour: " + r, case="sharedf " + lines[i], expected="ok", got=r, key={"stage": lines[i].split()[1], "mode": lines[i].split()[0], "class": "shared-morphism"}))
    if rc != 0:
        if started is not None and started not in done:
            ctx.violations.append(vlib.Violation("impl", "a morphism value used by several stages: the run crashed or hung: " + txt.strip()[-300:], case="sharedf " + lines[started],
                                                 got=txt[-1500:], key={"stage": lines[started].split()[1], "mode": lines[started].split()[0], "class": "shared-morphism-crash"}))
        else:
            ctx.broken.append({"kind": "correspondence", "detail": "shared-morphism run failed: " + txt[-500:]})


def run(ctx):
    ctx.cov["rule"] = ("script = Map/FMap under Lift/Try (LiftF/TryF) with a set of failing elements, capacities 0/1/3, sends+close interleaved with receives on the "
                       "value and the error channel in both orders, final drain; exhaustive failing subsets for inputs up to 3 (thorough: 5); non-trivial = at least one send and one failing element. "
                       "Error kinds (distribution `error_kind`): besides plain errors, failing elements return errors wrapping context.Canceled / context.DeadlineExceeded "
                       "(also two levels deep, and the Err() of a context private to the element) while the pipeline context is alive — exhaustive failing subsets for inputs up to 2 (thorough: 4) "
                       "for the first two kinds, random for all; same tokens, so the model comparison runs on them unchanged. "
                       "Input left open (distribution `input`=left-open): Lift/LiftF scripts whose input is never closed and whose sends continue after the failing element, "
                       "every position of the failing element for inputs up to 3 (thorough: 5) plus random ones; direct oracle: from the first failure on nothing more is taken "
                       "off the input, both channels are closed, census 0 (non-trivial = a send was attempted after the first failing element)")
    ctx.assumptions += ls.ASSUME
    ls.regen_stages(ctx, pipe=True, fork=False, sources=True, text=True)
    ctx.prove()
    if ctx.thorough():
        ctx.leanchecker()
    if ctx.replay:
        scripts = [json.load(open(ctx.replay))["case"]]
    else:
        scripts = exhaustive(ctx.rng, 5 if ctx.thorough() else 3) + gen(ctx.rng, 3000 if ctx.thorough() else 300, 8)
        scripts += exhaustive_kinds(ctx.rng, 4 if ctx.thorough() else 2)
        # fail-fast with the input left open (checks/C07_openin.py); same harness, same model, same evaluator
        scripts += OI.exhaustive(ctx.rng, 5 if ctx.thorough() else 3) + OI.gen(ctx.rng, 1500 if ctx.thorough() else 150, 6)
    trs = ls.judge(ctx, scripts, evaluate, record=False) if not (ctx.replay and "StdErrMap" in scripts[0]) else []
    opened = [(s, tr) for s, tr in zip(scripts, trs) if "sched=openin" in s]
    OI.record(ctx, [s for s, _ in opened], [tr for _, tr in opened])
    for s, tr in zip(scripts, trs):
        if "sched=openin" in s:
            continue
        if tr is not None:
            c = tr.cfg
            ctx.hist("mode", c["mode"])
            ctx.hist("error_kind", c.get("ek", "plain"))
            ctx.hist("input", "closed")
            nf = len([x for x in c.get("fail", "").split(",") if x])
            ctx.hist("failing", nf)
            ctx.count(s, nontrivial=bool(tr.sent.get(0)) and nf > 0)
    if not ctx.replay or "StdErrMap" in scripts[0]:
        sscripts = scripts if ctx.replay else gen_stderr(ctx.rng, 1500 if ctx.thorough() else 200, 8)
        strs = ls.judge(ctx, sscripts, evaluate_stderr, record=False)
        for s2, tr in zip(sscripts, strs):
            if tr is not None:
                ctx.hist("error_kind", tr.cfg.get("ek", "plain"))
                ctx.count(s2, nontrivial=True)
    if not ctx.replay:
        binp, err = ls.build(ctx)
        if binp is not None:
            shared_morphism(ctx, binp)
    from checks import C07x
    C07x.run_extra(ctx)
