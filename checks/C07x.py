"""Emit/Unfold under Lift/Try for C07 — filled in when the source model is built."""


def run_extra(ctx):
    return
