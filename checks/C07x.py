"""Emit/Unfold under Lift/Try for C07 (optional module, present once the source model is built)."""
import importlib


def run_extra(ctx):
    try:
        mod = importlib.import_module("checks.C07_sources")
    except ModuleNotFoundError:
        return
    mod.run_extra(ctx)
