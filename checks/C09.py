"""C09 — fork stages process every element exactly once, like pipe up to order.
Tie: H lock-step with gated user functions (release moves choose the completion order of in-flight
calls) + free-running stress with the race detector (thorough tier, supporting evidence only)."""
import json, os, subprocess
import vlib, lockstep as ls
from checks import C05

STAGES = ["Map", "FMap", "Filter", "Partition", "ForEach", "Void"]
OUTS = {"Map": [0, 1], "FMap": [0, 1], "Filter": [0], "Partition": [0, 1], "ForEach": [0], "Void": [0]}
HASFN = {"Map", "FMap", "Filter", "Partition", "ForEach"}


def gen_script(rng, maxlen=7, cancel=False):
    st = rng.choice(STAGES)
    par = rng.choice([1, 2, 2, 3, 4, 8])
    n = rng.randrange(0, maxlen + 1)
    xs = rng.sample(range(1, 40), n)
    mode = rng.choice(["pure", "try", "lift"]) if st in ("Map", "FMap") else (rng.choice(["pure", "pure", "lift", "try"]) if st == "ForEach" else "pure")
    if st == "FMap" and mode == "pure":
        mode = "lift"
    # Lift with several workers: only the no-leak / no-panic / sub-multiset guarantees are claimed (C09 says nothing
    # about which results a fail-fast fork stage delivers)
    fail = [x for x in xs if rng.random() < (0.3 if mode == "try" else 0.5)] if mode in ("try", "lift") and rng.random() < 0.8 else []
    gated = st in HASFN and rng.random() < 0.8
    cfg = "stage=%s pkg=fork par=%d cap=%d fn=%d mode=%s fail=%s gated=%d" % (st, par, rng.choice([0, 1, 2]), rng.choice([2, 3]), mode, ",".join(map(str, fail)), 1 if gated else 0)
    outs = OUTS[st]
    sends = ["s%d" % x for x in xs] + ["c0"]
    rel = ["g%d" % x for x in xs]
    rng.shuffle(rel)
    recvs = ls.drain_moves(outs, rng.randrange(0, n + 2))
    parts = [sends, recvs] + ([rel] if gated else [])
    body = ls.interleave(rng, parts)
    if rng.random() < 0.25:
        # back-pressure that lasts: (fake) seconds pass while workers wait on their sends ("exactly once" also then)
        for _ in range(rng.choice([1, 1, 2, 3])):
            body.insert(rng.randrange(0, len(body) + 1), "t%d" % rng.choice([1100, 1500, 2500, 7000]))
    if cancel:
        body.insert(rng.randrange(0, len(body) + 1), "x")
    # everything still gated is released (twice over: a release before the call started is a no-op), then drain
    tail = []
    for _ in range(3):
        tail += (rel if gated else []) + ls.drain_moves(outs, 2)
    tail += ls.drain_moves(outs, 3 * n + 3)
    if cancel:
        # after cancel a worker whose select has both arms ready may still take the send arm, loop and start another
        # (gated) call; a release only reaches calls that have started: n+1 release rounds guarantee every call that
        # can ever start has been released before the census
        tail = ["x", "c0"] + (rel * (n + 1) if gated else []) + ["z"] + tail
    return cfg + " | " + " ".join(body + tail + (["a"] if st in HASFN else []) + ["z"])


def evaluate(script, tr):
    cfg = tr.cfg
    st = cfg["stage"]
    key = {"stage": st, "pkg": "fork"}
    fail = set(int(x) for x in cfg.get("fail", "").split(",") if x) if cfg["mode"] == "try" and st in ("Map", "FMap") else set()
    xs = tr.sent.get(0, [])
    good = [x for x in xs if x not in fail]
    want = C05.spec(dict(cfg), good)
    vs = []
    done = all(k in tr.closed for k in OUTS[st])
    cancelled = tr.cancel_at is not None
    liftfail = cfg["mode"] == "lift" and st in ("Map", "FMap") and any(x in set(int(y) for y in cfg.get("fail", "").split(",") if y) for x in xs)
    if liftfail:
        # fail-fast with failures: treat like a cancelled run (sub-multiset, closure and no-leak checks only)
        cancelled_for_results = True
    else:
        cancelled_for_results = cancelled
    for k in OUTS[st]:
        got = tr.values(k)
        w = want.get(k, [])
        if st in ("ForEach", "Void"):
            got, w = [], []
        if done and not cancelled_for_results:
            if sorted(got) != sorted(w):
                vs.append(vlib.Violation("impl", "fork.%s par=%s: output %d delivered %s, the sequential stage delivers the multiset %s" % (st, cfg["par"], k, sorted(got), sorted(w)),
                                         case=script, expected=sorted(w), got=sorted(got), key=key))
        else:
            rest = list(w)
            for v in got:
                if v in rest:
                    rest.remove(v)
                else:
                    vs.append(vlib.Violation("impl", "fork.%s: output %d delivered %s which is not a sub-multiset of %s (duplicate or invented element)" % (st, k, got, w), case=script, key=key))
                    break
    if st in ("Map", "FMap"):
        errs = tr.errors(1)
        if done and not cancelled_for_results and sorted(errs) != sorted(x for x in xs if x in fail):
            vs.append(vlib.Violation("impl", "fork.%s try: errors %s, failing elements %s" % (st, sorted(errs), sorted(x for x in xs if x in fail)), case=script, key=key))
    if tr.applied is not None and st in HASFN:
        if done and not cancelled_for_results and tr.applied != sorted(xs):
            vs.append(vlib.Violation("impl", "fork.%s: user function applied to %s, input was %s (each element exactly once)" % (st, tr.applied, sorted(xs)), case=script,
                                     expected=sorted(xs), got=tr.applied, key=key))
        elif len(set(tr.applied)) != len(tr.applied) or any(a not in xs for a in tr.applied):
            vs.append(vlib.Violation("impl", "fork.%s: user function applied to %s (duplicate / invented), input %s" % (st, tr.applied, xs), case=script, key=key))
    # outputs are closed only after every worker has finished: in gated mode a call that was never released is still running
    nclosed_in = False
    released = set()
    for mv, res, _ in tr.steps:
        if mv == "c0" and res == "ok":
            nclosed_in = True
        if mv[0] == "g" and res == "ok":
            released.add(int(mv[1:]))
        if mv[0] == "r" and res == "closed-while-call-running":
            # the harness saw the close while a gated call that had started was not yet released: a worker is still inside
            # the user function (holds with and without cancellation: the closer waits for every worker)
            vs.append(vlib.Violation("impl", "fork.%s: output %s closed while a worker was still inside the user function (its call had started and was not released)" % (st, mv[1:]),
                                     case=script, expected="closed only after every worker has finished", got="closed", key=dict(key, **{"class": "closed-before-workers-finished"})))
            break
        if mv[0] == "r" and res == "closed" and not cancelled_for_results:
            if not nclosed_in:
                vs.append(vlib.Violation("impl", "fork.%s: output closed while the input was still open" % st, case=script, key=key))
                break
            if cfg.get("gated") == "1" and st in HASFN and any(x not in released for x in xs):
                vs.append(vlib.Violation("impl", "fork.%s: output closed while a user-function call was still running (worker not finished)" % st, case=script, key=key))
                break
    # closure (C06's guarantee, claimed for the fork stages too): the input was closed, every gated call released and the
    # outputs drained by the tail of the script, nobody cancelled -> every output is closed
    if nclosed_in and not cancelled and not done and tr.steps and tr.steps[-1][0] == "z":
        still = [k for k in OUTS[st] if k not in tr.closed]
        vs.append(vlib.Violation("impl", "fork.%s par=%s: output(s) %s not closed after the input was closed, every call released and the outputs drained" % (st, cfg["par"], still),
                                 case=script, expected="closed", got="open", key=dict(key, **{"class": "not-closed"})))
    for pos, n in tr.census:
        if nclosed_in and cancelled and pos > tr.cancel_at and n != 0 and cfg.get("gated") == "1":
            # with gates, every call has been released before this census (tail of the script)
            vs.append(vlib.Violation("impl", "fork.%s: %d goroutine(s) alive after cancel, close and release" % (st, n), case=script, key=dict(key, **{"class": "leak-after-cancel"})))
        elif nclosed_in and done and n != 0:
            vs.append(vlib.Violation("impl", "fork.%s: %d goroutine(s) alive after close and drain" % (st, n), case=script, key=dict(key, **{"class": "leak"})))
    return vs


def run(ctx):
    ctx.cov["rule"] = ("script = fork stage (Map/FMap/Filter/Partition/ForEach/Void) with par in {1,2,3,4,8}, gated user functions whose release order is part of the script, "
                       "sends/close/receives interleaved, optional cancel; non-trivial = par >= 2 and at least two completed sends; distinct by script text")
    ctx.assumptions += ls.ASSUME + ["data-race freedom is NOT expressible in the model: supported only by -race stress runs (thorough tier) and the model's structure (workers share nothing but channels and the WaitGroup)"]
    ls.regen_stages(ctx, pipe=False, fork=True)
    ctx.prove()
    if ctx.thorough():
        ctx.leanchecker()
    if ctx.replay:
        scripts = [json.load(open(ctx.replay))["case"]]
    else:
        n = 5000 if ctx.thorough() else 500
        scripts = [gen_script(ctx.rng) for _ in range(n)] + [gen_script(ctx.rng, cancel=True) for _ in range(n // 3)]
        if ctx.broken:
            # an obligation or the tie broke: search harder for a failing input (longer scripts, more cancels, and each
            # cancel script twice: `select` among ready arms is the runtime's coin)
            more = [gen_script(ctx.rng, maxlen=12) for _ in range(2 * n)] + [gen_script(ctx.rng, maxlen=12, cancel=True) for _ in range(2 * n)]
            scripts += more + [s for s in more if " x" in s]
    trs = ls.judge(ctx, scripts, evaluate, record=False)
    for s, tr in zip(scripts, trs):
        if tr is not None:
            ctx.hist("par", tr.cfg["par"])
            ctx.hist("gated", tr.cfg["gated"])
            ctx.count(s, nontrivial=int(tr.cfg["par"]) >= 2 and len(tr.sent.get(0, [])) >= 2)
    if ctx.thorough() and not ctx.replay:
        ls.stress(ctx, ["forkmap"], 10, {"pkg": "fork"})
