"""Shared shape generator for C01/C02/C03 (struct layouts, hseq listings, lenses).

A *shape* is a Go struct type built from every kind the properties name.  For a batch of shapes
this module emits one Go file (`shapes_gen.go`, compiled into go/harness/layout) whose `runAll()`
prints `<request> => <result>` lines obtained from the real compiler (`unsafe`), the real `hseq`
and the real `optics`; the same requests are answered by the Lean oracle.  Independently of the
Lean model, `flatten()` below is the Python statement of the listing the property describes; the
checks compare implementation output with it (direct oracle).

Types are nested tuples:
  ("prim", name) ("slice", T) ("ptr", T) ("map", K, V) ("chan", T) ("func", sig)
  ("array", n, T) ("struct", (field, ...)) ("named", id, T)      field = (name, emb, tag, T)

The id of a defined type of package main is its bare name (`NI8`, `T7_2`).  Defined types of the
generated harness sub-packages `harness/pa/v1`, `harness/pb/v1`, `harness/pc/v1` (all three are
`package v1` and declare types of the SAME names with different or identical underlying types)
have the id `<dir>/v1.<Name>` (`pa/v1.ID`): that id - the type's identity - goes to the oracle,
the Go source text uses the import alias (`v1a.ID`) and reflect prints `v1.ID` for all three.
Composite types of such elements (`[]v1.ID`, `*v1.ID`, `map[string]v1.ID`, ...) print identically too.

Besides field types, every batch declares CONTAINER types in those packages (TwinGen / corner_twins: `pa/v1.Box`,
`pb/v1.Box`, `pc/v1.Box` with different layouts, `pa/v1.Doc` and `pb/v1.Doc` with one layout, random groups): distinct
struct types that print identically (`v1.Box`), all derived / listed / used by the same harness process through the
ordinary request streams, the order of a group's members varying from batch to batch.
"""
import binascii

PRIMS = ["bool", "int8", "int16", "int32", "int64", "uint8", "uint16", "uint32", "uint64", "int", "uint",
         "uintptr", "float32", "float64", "complex64", "complex128", "string", "iface", "unsafeptr"]
GOPRIM = {"iface": "interface{}", "unsafeptr": "unsafe.Pointer"}
STRPRIM = {"iface": "interface {}", "unsafeptr": "unsafe.Pointer"}
FUNCS = ["func()", "func(int) string", "func(string, ...int) error"]


def P(n):
    return ("prim", n)


# Named non-struct (and two struct) types shared by all shapes of a file.
POOL = {
    "NBool": P("bool"), "NI8": P("int8"), "NI16": P("int16"), "NU32": P("uint32"), "NI64": P("int64"),
    "NF32": P("float32"), "NC64": P("complex64"), "NStr": P("string"), "nlow": P("int16"),
    "NBytes3": ("array", 3, P("uint8")), "NZero": ("array", 0, P("int64")), "NSl": ("slice", P("int16")),
    "NPtr": ("ptr", P("int32")), "NIface": P("iface"), "NMap": ("map", P("string"), P("int")),
    "NFn": ("func", "func()"), "NCh": ("chan", P("int8")), "NEmpty": ("struct", ()),
    "NPair": ("struct", (("a", False, "", P("int8")), ("b", False, "", P("int64")))),
    "NTail": ("struct", (("p", False, "", P("int32")), ("z", False, "", ("struct", ())))),
}
# names that may be embedded by value / through a pointer
EMB_VALUE = ["NBool", "NI8", "NI16", "NU32", "NI64", "NF32", "NC64", "NStr", "nlow", "NBytes3", "NZero", "NSl",
             "NIface", "NMap", "NFn", "NCh"]
EMB_PTR = ["NI8", "NI64", "NStr", "NBytes3", "NSl", "nlow"]
OTHER = ("named", "Other", ("struct", (("X", False, "", P("int")),)))


def named(i):
    return ("named", i, POOL[i])


# ------------------------------------------------------------------ types that PRINT identically
# Harness-local packages: directory -> import alias used in shapes_gen.go.  Every package is `package v1`,
# so reflect.Type.String() is `v1.<Name>` for each of them; only PkgPath() (and type identity) differ.
# All names are exported and struct fields are exported (the harness reads them through selectors).
# No interface or channel kinds: AssignableTo is wider than identity there (an empty interface type
# accepts everything), hseq.ForType's `String()== && AssignableTo` is type identity on the rest.
FOREIGN_ALIAS = {"pa": "v1a", "pb": "v1b", "pc": "v1c"}
_REC_A = ("struct", (("A", False, "", P("int8")), ("B", False, "", P("int64"))))
FOREIGN = {
    "pa": {"ID": P("string"), "Code": P("int64"), "Rec": _REC_A, "Same": P("int64"), "Tag": P("string"), "Pair": _REC_A,
           "List": ("slice", P("int16")), "Zero": ("struct", ()), "Dict": ("map", P("string"), P("int"))},
    "pb": {"ID": P("int32"), "Code": ("array", 3, P("uint8")), "Rec": ("struct", (("X", False, "", P("int32")),)), "Same": P("int64"),
           "Tag": P("string"), "Pair": _REC_A, "List": ("slice", P("string")), "Zero": ("array", 0, P("int64")), "Dict": ("map", P("string"), P("int"))},
    "pc": {"ID": P("uint8"), "Code": P("complex128"), "Same": P("int64"),
           "Rec": ("struct", (("A", False, "", P("int8")), ("B", False, "", P("int64")), ("C", False, "", ("array", 2, P("int16")))))},
}
FOREIGN_COMPARABLE = ["ID", "Same", "Tag"]     # usable as map keys in every package that has them


def foreign(pkg, name):
    return ("named", "%s/v1.%s" % (pkg, name), FOREIGN[pkg][name])


def is_foreign(t):
    return t[0] == "named" and "/" in t[1]


def foreign_parts(i):
    """`pa/v1.ID` -> ("pa", "ID")."""
    d, rest = i.split("/", 1)
    return d, rest.split(".", 1)[1]


def repackage(t, pkg):
    """t with every harness-package type replaced by the same-named type of package `pkg` (None if `pkg`
    lacks one of the names).  Does not look inside defined types of package main (they print by name)."""
    k = t[0]
    if k == "named":
        if not is_foreign(t):
            return t
        nm = foreign_parts(t[1])[1]
        return foreign(pkg, nm) if nm in FOREIGN[pkg] else None
    if k in ("slice", "ptr", "chan"):
        u = repackage(t[1], pkg)
        return None if u is None else (k, u)
    if k == "map":
        a, b = repackage(t[1], pkg), repackage(t[2], pkg)
        return None if a is None or b is None else (k, a, b)
    if k == "array":
        u = repackage(t[2], pkg)
        return None if u is None else (k, t[1], u)
    if k == "struct":
        fs = []
        for (n, e, tg, ft) in t[1]:
            u = repackage(ft, pkg)
            if u is None:
                return None
            fs.append((n, e, tg, u))
        return (k, tuple(fs))
    return t


def counterparts(t):
    """The OTHER Go types that reflect prints exactly like t (t with its harness-package types taken from another package)."""
    out = []
    for pkg in FOREIGN:
        u = repackage(t, pkg)
        if u is not None and u != t and u not in out:
            out.append(u)
    return out


def foreign_ids(t):
    """ids of the harness-package types t is written with (not looking inside defined types of package main)."""
    k = t[0]
    if k == "named":
        return {t[1]} if is_foreign(t) else set()
    if k in ("slice", "ptr", "chan"):
        return foreign_ids(t[1])
    if k == "map":
        return foreign_ids(t[1]) | foreign_ids(t[2])
    if k == "array":
        return foreign_ids(t[2])
    if k == "struct":
        return set().union(*[foreign_ids(ft) for (_, _, _, ft) in t[1]]) if t[1] else set()
    return set()


def foreign_source(pkg, extra=()):
    """Source of harness/<pkg>/v1/v1.go.  extra = [(Name, underlying)]: the container types (and their inner struct types)
    a batch declares in this package (same-printing containers, see TwinGen)."""
    return ("// Code generated by checks/shapes.py. DO NOT EDIT.\n\n// Package v1 (import path harness/%s/v1) shares its package name and its type names with the\n"
            "// sibling packages: reflect prints `v1.<Name>` for all of them.\npackage v1\n\nimport \"unsafe\"\n\nvar _ unsafe.Pointer\n\n" % pkg
            + "\n".join("type %s %s" % (n, gosrc(u, pkg)) for n, u in list(FOREIGN[pkg].items()) + list(extra)) + "\n")


def foreign_files(extra=None):
    return {"%s/v1/v1.go" % pkg: foreign_source(pkg, (extra or {}).get(pkg, ())) for pkg in FOREIGN}


PRIM_SA = {"bool": (1, 1), "int8": (1, 1), "uint8": (1, 1), "int16": (2, 2), "uint16": (2, 2), "int32": (4, 4), "uint32": (4, 4), "float32": (4, 4),
           "int64": (8, 8), "uint64": (8, 8), "int": (8, 8), "uint": (8, 8), "uintptr": (8, 8), "float64": (8, 8), "complex64": (8, 4),
           "complex128": (16, 8), "string": (16, 8), "iface": (16, 8), "unsafeptr": (8, 8)}


def size_align(t):
    """gc/amd64 size and alignment; used for the labels of the input distribution only (never for a verdict)."""
    k = t[0]
    if k == "prim":
        return PRIM_SA[t[1]]
    if k == "slice":
        return (24, 8)
    if k in ("ptr", "map", "chan", "func"):
        return (8, 8)
    if k == "array":
        s, a = size_align(t[2])
        return (t[1] * s, a)
    if k == "named":
        return size_align(t[2])
    cur, al, last = 0, 1, None
    for (_, _, _, ft) in t[1]:
        s, a = size_align(ft)
        cur = (cur + a - 1) // a * a + s
        al, last = max(al, a), s
    if cur > 0 and last == 0:
        cur += 1
    return ((cur + al - 1) // al * al, al)


def strip(t):
    while t[0] == "named":
        t = t[2]
    return t


def kind(t):
    return strip(t)[0]


def deref_once(t):
    u = strip(t)
    return u[1] if u[0] == "ptr" else t


def fields(t):
    return strip(t)[1]


def hexs(s):
    return binascii.hexlify(s.encode()).decode() if s else "-"


def sexpr(t, cur=None):
    """S-expression for the oracle; `cur` (a type) is abbreviated to $S."""
    if cur is not None and t == cur:
        return "$S"
    k = t[0]
    if k == "prim":
        return t[1]
    if k in ("slice", "ptr", "chan"):
        return "(%s %s)" % (k, sexpr(t[1], cur))
    if k == "map":
        return "(map %s %s)" % (sexpr(t[1], cur), sexpr(t[2], cur))
    if k == "func":
        return "(func %s)" % hexs(t[1])
    if k == "array":
        return "(array %d %s)" % (t[1], sexpr(t[2], cur))
    if k == "struct":
        return "(struct%s)" % "".join(" (f %s %d %s %s)" % (n, 1 if e else 0, hexs(tg), sexpr(ft, cur)) for (n, e, tg, ft) in t[1])
    if k == "named":
        return "(named %s %s)" % (t[1], sexpr(t[2], cur))
    raise ValueError(t)


def gosrc(t, pkg=None):
    """Go source text of a type (defined types by name).  pkg = the harness package ("pa", ...) the text is written in:
    its own defined types are unqualified there; None = package main (import aliases v1a, v1b, v1c)."""
    k = t[0]
    if k == "prim":
        return GOPRIM.get(t[1], t[1])
    if k == "slice":
        return "[]" + gosrc(t[1], pkg)
    if k == "ptr":
        return "*" + gosrc(t[1], pkg)
    if k == "chan":
        return "chan " + gosrc(t[1], pkg)
    if k == "map":
        return "map[%s]%s" % (gosrc(t[1], pkg), gosrc(t[2], pkg))
    if k == "func":
        return t[1]
    if k == "array":
        return "[%d]%s" % (t[1], gosrc(t[2], pkg))
    if k == "named":
        if is_foreign(t):
            d, nm = foreign_parts(t[1])
            return nm if d == pkg else FOREIGN_ALIAS[d] + "." + nm
        return t[1]
    if k == "struct":
        if not t[1]:
            return "struct{}"
        fs = []
        for (n, e, tg, ft) in t[1]:
            s = gosrc(ft, pkg) if e else n + " " + gosrc(ft, pkg)
            if tg:
                s += " `" + tg + "`"
            fs.append(s)
        return "struct { " + "; ".join(fs) + " }"
    raise ValueError(t)


def goquote(s):
    return '"' + s.replace("\\", "\\\\").replace('"', '\\"') + '"'


def gostr(t):
    """What reflect.Type.String() prints: `main.T` for the defined types of the harness' package main, `v1.T` for
    the types of harness/pa/v1, harness/pb/v1, harness/pc/v1 alike (package NAME, not import path)."""
    k = t[0]
    if k == "prim":
        return STRPRIM.get(t[1], t[1])
    if k == "slice":
        return "[]" + gostr(t[1])
    if k == "ptr":
        return "*" + gostr(t[1])
    if k == "chan":
        return "chan " + gostr(t[1])
    if k == "map":
        return "map[%s]%s" % (gostr(t[1]), gostr(t[2]))
    if k == "func":
        return t[1]
    if k == "array":
        return "[%d]%s" % (t[1], gostr(t[2]))
    if k == "named":
        return t[1].rsplit("/", 1)[1] if is_foreign(t) else "main." + t[1]
    if k == "struct":
        if not t[1]:
            return "struct {}"
        fs = []
        for (n, e, tg, ft) in t[1]:
            s = gostr(ft) if e else n + " " + gostr(ft)
            if tg:
                s += " " + goquote(tg)
            fs.append(s)
        return "struct { " + "; ".join(fs) + " }"
    raise ValueError(t)


def tag_get(tag, key):
    """reflect.StructTag.Get, ported statement by statement."""
    while tag != "":
        i = 0
        while i < len(tag) and tag[i] == " ":
            i += 1
        tag = tag[i:]
        if tag == "":
            break
        i = 0
        while i < len(tag) and tag[i] > " " and tag[i] != ":" and tag[i] != '"' and tag[i] != "\x7f":
            i += 1
        if i == 0 or i + 1 >= len(tag) or tag[i] != ":" or tag[i + 1] != '"':
            break
        name = tag[:i]
        tag = tag[i + 1:]
        i = 1
        while i < len(tag) and tag[i] != '"':
            if tag[i] == "\\":
                i += 1
            i += 1
        if i >= len(tag):
            break
        q = tag[:i + 1]
        tag = tag[i + 1:]
        if key == name:
            return q[1:-1]  # generator emits no escapes
    return ""


def field_key(name, tag):
    k = tag_get(tag, "hseq").split(",")[0]
    return k if k != "" else name


def flatten(t, path=(), via_ptr=False):
    """The listing the property describes: depth-first pre-order, descending into embedded structs
    held by value or through one pointer.  `value` = reached without crossing a pointer."""
    out = []
    for i, (n, e, tg, ft) in enumerate(fields(t)):
        pure = deref_once(ft)
        out.append(dict(path=path + (i,), name=n, key=field_key(n, tg), anon=e, type=ft, pure=pure, value=not via_ptr))
        if e and kind(pure) == "struct":
            out += flatten(pure, path + (i,), via_ptr or kind(ft) == "ptr")
    return out


def value_paths(t, path=(), sel="", depth=0):
    """All selector paths through structs held by value (embedded or not): (path, selector, type)."""
    out = []
    for i, (n, e, tg, ft) in enumerate(fields(t)):
        s = sel + "." + n
        out.append((path + (i,), s, ft))
        if kind(ft) == "struct" and depth < 16:
            out += value_paths(ft, path + (i,), s, depth + 1)
    return out


# ------------------------------------------------------------------ random shapes

NAMES = ["A", "B", "C", "D", "E", "X", "Y", "Z", "Id", "Name", "Val", "Key", "a", "b", "c", "n", "id", "val", "key", "next",
         "F1", "F2", "F3", "f4", "f5", "f6"]
MAPKEYS = ["string", "int", "int8", "uint32"]


COLLIDE_FRACTION = 0.3


class ShapeGen:
    """Generates the struct type `T<sid>` with inner types `T<sid>_<k>` / `t<sid>_<k>`."""

    def __init__(self, rng, sid, ptr_embed=True, maxdepth=None, nfields=None, collide=None):
        self.rng, self.sid, self.ptr_embed = rng, sid, ptr_embed
        self.maxdepth = rng.choice([0, 1, 1, 2, 2, 3, 3, 4]) if maxdepth is None else maxdepth
        self.decls = []       # (id, underlying) in dependency order
        self.inner = []       # finished inner struct types (named tuples), reusable
        self.k = 0
        # a fraction of the shapes holds groups of DISTINCT types that reflect prints identically
        self.colliders = self.make_colliders() if (rng.random() < COLLIDE_FRACTION if collide is None else collide) else []
        self.palette = [self.rand_type(0) for _ in range(rng.randint(3, 7))]
        self.keys = rng.sample(NAMES, 6)
        n = rng.randint(1, 12) if nfields is None else nfields
        top = self.struct(0, max(1, n - len(self.colliders)) if nfields is None else n)
        self.type = ("named", "T%d" % sid, top)
        self.decls.append(("T%d" % sid, top))

    def rand_prim(self):
        return P(self.rng.choice(PRIMS))

    def make_colliders(self):
        """1..2 groups of 2..3 types each; the types of a group come from different harness packages, have the same
        name and sit under the same composite wrapper, so that reflect prints all of a group identically."""
        r = self.rng
        out = []
        # ID, Code, Rec differ in size and kind from package to package (weight 3 each); Same, Tag, Pair, Dict have identical
        # underlying types; List, Zero differ in element type only
        bases = []
        for base in r.sample(sorted(FOREIGN["pa"]) + ["ID", "Code", "Rec"] * 2, r.choice([1, 1, 1, 2])):
            if base not in bases:
                bases.append(base)
        for base in bases:
            pkgs = [p for p in sorted(FOREIGN) if base in FOREIGN[p]]
            r.shuffle(pkgs)
            pkgs = pkgs[:r.choice([2, 2, 3])]
            wraps = ["plain"] * 7 + ["array", "struct"] * 2 + ["slice", "ptr", "map", "ptrptr"] + (["mapkey"] if base in FOREIGN_COMPARABLE else [])
            w = r.choice(wraps)
            n = r.choice([1, 2, 3])
            for p in pkgs:
                t = foreign(p, base)
                out.append({"plain": t, "slice": ("slice", t), "ptr": ("ptr", t), "ptrptr": ("ptr", ("ptr", t)), "map": ("map", P("string"), t),
                            "mapkey": ("map", t, P("int16")), "array": ("array", n, t), "struct": ("struct", (("V", False, "", t), ("n", False, "", P("int8"))))}[w])
        return out

    def rand_type(self, depth):
        r = self.rng
        x = r.random()
        if x < 0.50 or depth >= 2:
            return self.rand_prim()
        if x < 0.62:
            return named(r.choice(list(POOL)))
        if x < 0.65:
            # a lone type of a harness package: its same-printing counterparts are absent from the shape
            p = r.choice(sorted(FOREIGN))
            return foreign(p, r.choice(sorted(FOREIGN[p])))
        c = r.choice(["slice", "ptr", "array", "array", "map", "chan", "func", "struct", "empty"])
        if c == "slice":
            return ("slice", self.rand_type(depth + 1))
        if c == "ptr":
            return ("ptr", self.rand_type(depth + 1))
        if c == "array":
            return ("array", r.choice([0, 0, 1, 2, 3, 3, 5]), self.rand_type(depth + 1))
        if c == "map":
            return ("map", P(r.choice(MAPKEYS)), self.rand_type(depth + 1))
        if c == "chan":
            return ("chan", self.rand_type(depth + 1))
        if c == "func":
            return ("func", r.choice(FUNCS))
        if c == "empty":
            return ("struct", ())
        fs = []
        for n in r.sample(["x", "y", "Z", "w"], r.randint(1, 3)):
            tg = 'json:"%s"' % n if r.random() < 0.15 else ""
            fs.append((n, False, tg, self.rand_prim() if r.random() < 0.8 else ("array", r.choice([0, 2, 3]), self.rand_prim())))
        return ("struct", tuple(fs))

    def leaf(self):
        return self.rng.choice(self.palette) if self.rng.random() < 0.75 else self.rand_type(0)

    def rand_tag(self):
        r = self.rng
        x = r.random()
        if x > 0.35:
            return ""
        key = r.choice(self.keys + NAMES[:8])
        return r.choice([
            'hseq:"%s"' % key, 'hseq:"%s,opt"' % key, 'json:"j_%s" hseq:"%s"' % (key, key), 'hseq:"%s" json:"%s,omitempty"' % (key, key),
            'json:"%s"' % key, 'hseq:",omit"', 'hseq:""', 'hseq:"%s,a,b"' % key, 'hseq:%s' % key, 'hseq: "%s"' % key,
            'json:"x"  hseq:"%s"' % key, 'hseq', 'xhseq:"%s"' % key,
        ])

    def new_inner(self, level):
        self.k += 1
        exported = self.rng.random() < 0.7
        name = ("T%d_%d" if exported else "t%d_%d") % (self.sid, self.k)
        body = self.struct(level, self.rng.choice([0, 1, 1, 2, 2, 3, 3, 4, 5]))
        self.decls.append((name, body))
        t = ("named", name, body)
        self.inner.append(t)
        return t

    def inner_type(self, level, used):
        """A struct type to embed/hold: fresh, or a finished one re-used at another depth."""
        r = self.rng
        cands = [t for t in self.inner if t[1] not in used]
        if cands and r.random() < 0.3:
            return r.choice(cands)
        return self.new_inner(level)

    def struct(self, level, n):
        r = self.rng
        fs, used = [], set()

        def fresh_name():
            for _ in range(50):
                nm = r.choice(NAMES)
                if nm not in used:
                    return nm
            i = 0
            while "G%d" % i in used:
                i += 1
            return "G%d" % i

        for _ in range(n):
            x = r.random()
            deeper = level < self.maxdepth
            f = None
            if deeper and x < 0.22:
                t = self.inner_type(level + 1, used)
                f = (t[1], True, self.rand_tag() if r.random() < 0.3 else "", t)
            elif deeper and self.ptr_embed and x < 0.30:
                t = self.inner_type(level + 1, used)
                f = (t[1], True, self.rand_tag() if r.random() < 0.3 else "", ("ptr", t))
            elif x < 0.36:
                byptr = self.ptr_embed and r.random() < 0.3
                nm = r.choice(EMB_PTR if byptr else EMB_VALUE)
                if nm not in used:
                    f = (nm, True, self.rand_tag() if r.random() < 0.3 else "", ("ptr", named(nm)) if byptr else named(nm))
            elif deeper and x < 0.43:
                t = self.inner_type(level + 1, set())
                f = (fresh_name(), False, self.rand_tag(), t if r.random() < 0.6 else ("ptr", t))
            if f is None:
                f = (fresh_name(), False, self.rand_tag(), self.leaf())
            used.add(f[0])
            fs.append(f)
        if self.colliders and (level == 0 or r.random() < 0.3):
            # every group at the top level (in random order: each type of a group is the decoy BEFORE the others for
            # some shape and AFTER them for another), some of them again inside inner structs (other root offsets)
            cs = list(self.colliders) if level == 0 else r.sample(self.colliders, r.randint(1, len(self.colliders)))
            r.shuffle(cs)
            for t in cs:
                base = foreign_parts(t[1])[1] if is_foreign(t) else None
                if base is not None and base not in used and r.random() < 0.3:
                    f = (base, True, self.rand_tag() if r.random() < 0.3 else "", t)    # embedded by value: the field is called like the type
                else:
                    f = (fresh_name(), False, self.rand_tag(), t)
                used.add(f[0])
                fs.insert(r.randrange(len(fs) + 1), f)
        if fs and r.random() < 0.2:
            z = r.choice([("struct", ()), ("array", 0, P("int64")), named("NEmpty"), named("NZero"), ("array", 0, named("NPair"))])
            nm = fresh_name()
            used.add(nm)
            fs.append((nm, False, "", z))
        return ("struct", tuple(fs))


def corner_shapes():
    """Hand-written corner cases, always part of the first batch."""
    I8, I16, I32, I64, S = P("int8"), P("int16"), P("int32"), P("int64"), P("string")
    E = ("struct", ())
    in3 = ("named", "CIn3", ("struct", (("P", False, "", I8), ("Q", False, "", I64), ("R", False, "", E))))
    in2 = ("named", "CIn2", ("struct", (("M", False, "", I16), (in3[1], True, "", in3), ("N", False, "", I8))))
    in1 = ("named", "CIn1", ("struct", (("K", False, "", I8), (in2[1], True, "", in2), ("L", False, "", S))))
    c1 = ("named", "C1", ("struct", (("A", False, "", I8), (in1[1], True, "", in1), ("B", False, "", I32), ("Z", False, "", E))))
    pin = ("named", "CPIn", ("struct", (("X", False, "", I16), ("Y", False, "", I64))))
    c2 = ("named", "C2", ("struct", (("A", False, "", I8), (pin[1], True, "", ("ptr", pin)), ("B", False, "", I64))))
    c3 = ("named", "C3", ("struct", (("Y", False, 'hseq:"B"', I8), ("B", False, "", I64), (pin[1], True, "", pin), ("X", False, 'hseq:"Y,opt"', I64))))
    c4 = ("named", "C4", ("struct", ((("only"), False, "", E),)))
    c5 = ("named", "C5", ("struct", (("a", False, "", ("array", 0, I64)), ("b", False, "", I8), ("c", False, "", ("array", 0, I64)))))
    big = ("named", "CBig", ("struct", tuple(("F%d" % i, False, "", P(PRIMS[i % 16])) for i in range(12))))
    # distinct types that print identically (`v1.ID`, `v1.Rec`, `[]v1.ID`, `*v1.Code`, ...): the decoy before and after,
    # smaller and larger than the focus, of identical underlying type, embedded by value and one embedding level down
    F = foreign
    k1 = ("named", "CK1", ("struct", (("A", False, "", F("pa", "ID")), ("B", False, "", F("pb", "ID")), ("C", False, "", F("pc", "ID")), ("D", False, "", I64))))
    k2 = ("named", "CK2", ("struct", (("X", False, "", I8), ("C", False, "", F("pc", "ID")), ("B", False, "", F("pb", "ID")), ("A", False, "", F("pa", "ID")), ("G", False, "", I8))))
    kin = ("named", "CKIn", ("struct", (("K", False, "", I8), ("I", False, "", F("pb", "Code")), ("S", False, "", F("pb", "Same")))))
    k3 = ("named", "CK3", ("struct", (("Rec", True, "", F("pa", "Rec")), ("R", False, "", F("pb", "Rec")), (kin[1], True, "", kin), ("S1", False, "", F("pa", "Same")),
                                      ("S2", False, "", F("pb", "Same")), ("J", False, 'hseq:"I"', F("pa", "Code")), ("L", False, "", ("slice", F("pb", "ID"))),
                                      ("M", False, "", ("slice", F("pa", "ID"))), ("P", False, "", ("ptr", F("pb", "Code"))), ("Q", False, "", ("ptr", F("pa", "Code"))),
                                      ("T1", False, "", F("pb", "Tag")), ("T2", False, "", F("pa", "Tag")))))
    out = []
    for decls, t in [([in3, in2, in1, c1], c1), ([pin, c2], c2), ([pin, c3], c3), ([c4], c4), ([c5], c5), ([big], big), ([k1], k1), ([k2], k2), ([kin, k3], k3)]:
        out.append(([(d[1], d[2]) for d in decls], t))
    return out


class Shape:
    def __init__(self, sid, typ, decls):
        self.sid, self.type, self.decls = sid, typ, decls
        self.listing = flatten(typ)
        for i, e in enumerate(self.listing):
            e["id"] = i
        self.paths = value_paths(typ)
        self.gotype = gosrc(typ)      # `T7` for a type of package main, `v1a.Box` for one of harness/pa/v1
        self.twins = []               # the OTHER container shapes of the batch that reflect prints like this one (TwinGen)
        # listed types that share their printed name with ANOTHER listed type, in listing order of first occurrence
        first, byprint = [], {}
        for e in self.listing:
            if e["type"] not in first:
                first.append(e["type"])
                byprint.setdefault(gostr(e["type"]), []).append(e["type"])
        self.colliding = [t for t in first if len(byprint[gostr(t)]) > 1]
        self.groups = [g for g in byprint.values() if len(g) > 1]

    def sx(self, t):
        return sexpr(t, self.type)

    def first_by_key(self, k):
        return next((e for e in self.listing if e["key"] == k), None)

    def first_by_type(self, t):
        return next((e for e in self.listing if e["type"] == t), None)

    def depth(self):
        return max([len(e["path"]) for e in self.listing] + [0])


def make_shapes(rng, n, first_sid=0, ptr_embed=True, corners=True, collide=None):
    shapes, seen_decl = [], {}
    if corners:
        for decls, t in corner_shapes():
            shapes.append(Shape(len(shapes) + first_sid, t, decls))
    while len(shapes) < n:
        sid = len(shapes) + first_sid
        g = ShapeGen(rng, sid, ptr_embed=ptr_embed, collide=collide)
        sh = Shape(sid, g.type, g.decls)
        if len(sh.listing) > 64 or len(sh.paths) > 120:
            continue    # re-used inner types can multiply; keep the listing bounded
        shapes.append(sh)
    return shapes


# ------------------------------------------------------------------ CONTAINER types that print identically
# Container shapes declared in the harness packages: the SAME type name (`Box`, `Doc`, ...) in two or three of
# harness/pa/v1, pb/v1, pc/v1 - reflect prints `v1.Box` for each of them - with different layouts (field order, sizes,
# names, tags, embedded structs) or with the same one.  All of a group are unfolded / derived / used by the same harness
# process, in an order that varies from batch to batch: whatever hseq or optics keep between calls must be keyed by the
# type's identity, not by what it prints.  Every field name is exported (package main reads every field through ordinary
# selectors for the direct oracle); inner struct types are declared in the container's package under equal names too.
# The id of such a type is `<dir>/v1.<Name>` (distinct per package: that is what the Lean oracle compares).

TWIN_RULE = '; every batch also holds container types declared in the harness packages harness/pa/v1, pb/v1, pc/v1 under the SAME name (reflect prints `v1.Box` for each: hand-written Box x3 with different layouts and Doc x2 with one layout, plus random groups - same source text, permuted, retyped, renamed, mixed, independent), all members of a group going through the same request streams in ONE harness process, in an order that varies from batch to batch (distribution.same_printing_container_*)'
TWIN_ASSUMPTION = 'same-printing CONTAINER types have exported field names only (package main reads every field through selectors) and use types of their own package, prims and anonymous structs of exported fields; the oracle gets distinct ids (`pa/v1.Box`, `pb/v1.Box`) for them'
TWIN_NAMES = ["Box", "Doc", "Row", "Item", "Node", "Cell", "Page", "Meta"]
XNAMES = ["A", "B", "C", "D", "E", "X", "Y", "Z", "Id", "Name", "Val", "Key", "Next", "F1", "F2", "F3", "G4", "H5"]
TWIN_SID0 = 100000        # sids of these shapes: TWIN_SID0 + 1000 * batch + k (the other shapes keep their sids)
TWIN_VARIANTS = ["same-source", "permuted", "retyped", "renamed", "mixed", "fresh", "fresh"]


class TwinGen:
    """One group: the container type `<dir>/v1.<name>` for each package of `pkgs` (in that order).  The first package gets
    a random body; every further one a variant of it (TWIN_VARIANTS) written with the types of its own package:
      same-source  the same Go source text (layouts differ only where the packages' own types differ: v1.ID is a string
                   in pa, an int32 in pb, a uint8 in pc)
      permuted     the same fields in another order (same names and types, other offsets)
      retyped      the same names, about half of the plain fields of another type (other sizes, other offsets behind them)
      renamed      the same types, some names / hseq tags changed
      mixed        permuted + retyped + renamed, a field dropped or added
      fresh        an independent body (the inner struct types share their names all the same)."""

    def __init__(self, rng, name, pkgs, ptr_embed=True, variants=None):
        self.rng, self.name, self.pkgs, self.ptr_embed = rng, name, pkgs, ptr_embed
        self.maxdepth = rng.choice([0, 1, 1, 2, 2, 3])
        self.decls = {p: [] for p in pkgs}       # pkg -> [(id, underlying)] in dependency order
        self.inner = {p: {} for p in pkgs}       # pkg -> {Name: underlying} of the generated inner struct types
        self.members = []                        # (pkg, variant, type)
        base = None
        for i, p in enumerate(pkgs):
            v = "base" if i == 0 else (variants[i - 1] if variants else rng.choice(TWIN_VARIANTS))
            body = None
            if i > 0 and v != "fresh":
                body = self.variant(base, pkgs[0], p, v)
            if body is None:
                v = "base" if i == 0 else "fresh"
                body = self.body(p, 0, rng.randint(1, 9))
            if i == 0:
                base = body
            cid = "%s/v1.%s" % (p, name)
            self.decls[p].append((cid, body))
            self.members.append((p, v, ("named", cid, body)))

    # ---- random bodies
    def tag(self):
        r = self.rng
        if r.random() > 0.3:
            return ""
        key = r.choice(XNAMES[:10])
        return r.choice(['hseq:"%s"' % key, 'hseq:"%s,opt"' % key, 'json:"j_%s" hseq:"%s"' % (key, key), 'json:"%s"' % key, 'hseq:",omit"',
                         'hseq:""', 'hseq:%s' % key, 'hseq: "%s"' % key, 'xhseq:"%s"' % key])

    def leaf(self, pkg, depth=0):
        r = self.rng
        x = r.random()
        if x < 0.45 or depth >= 2:
            return P(r.choice(PRIMS))
        if x < 0.62:
            return foreign(pkg, r.choice(sorted(FOREIGN[pkg])))
        c = r.choice(["slice", "ptr", "array", "array", "map", "chan", "func", "struct", "empty"])
        if c == "slice":
            return ("slice", self.leaf(pkg, depth + 1))
        if c == "ptr":
            return ("ptr", self.leaf(pkg, depth + 1))
        if c == "array":
            return ("array", r.choice([0, 0, 1, 2, 3, 3, 5]), self.leaf(pkg, depth + 1))
        if c == "map":
            return ("map", P(r.choice(MAPKEYS)), self.leaf(pkg, depth + 1))
        if c == "chan":
            return ("chan", self.leaf(pkg, depth + 1))
        if c == "func":
            return ("func", r.choice(FUNCS))
        if c == "empty":
            return ("struct", ())
        fs = []
        for n in r.sample(["X", "Y", "Z", "W"], r.randint(1, 3)):     # exported: the same anonymous struct type in every package
            fs.append((n, False, 'json:"%s"' % n.lower() if r.random() < 0.15 else "", P(r.choice(PRIMS)) if r.random() < 0.8 else ("array", r.choice([0, 2, 3]), P(r.choice(PRIMS)))))
        return ("struct", tuple(fs))

    def new_inner(self, pkg, level):
        k = 1
        while "%sIn%d" % (self.name, k) in self.inner[pkg]:
            k += 1
        nm = "%sIn%d" % (self.name, k)
        self.inner[pkg][nm] = None      # reserve the name
        body = self.body(pkg, level, self.rng.choice([0, 1, 1, 2, 2, 3, 3, 4]))
        self.inner[pkg][nm] = body
        self.decls[pkg].append(("%s/v1.%s" % (pkg, nm), body))
        return ("named", "%s/v1.%s" % (pkg, nm), body)

    def fresh_name(self, used):
        for _ in range(50):
            nm = self.rng.choice(XNAMES)
            if nm not in used:
                return nm
        i = 0
        while "G%d" % i in used:
            i += 1
        return "G%d" % i

    def body(self, pkg, level, n):
        r = self.rng
        fs, used = [], set()
        for _ in range(n):
            x = r.random()
            deeper = level < self.maxdepth
            f = None
            if deeper and x < 0.20:
                t = self.new_inner(pkg, level + 1)
                f = (foreign_parts(t[1])[1], True, self.tag() if r.random() < 0.3 else "", t)
            elif deeper and self.ptr_embed and x < 0.27:
                t = self.new_inner(pkg, level + 1)
                f = (foreign_parts(t[1])[1], True, self.tag() if r.random() < 0.3 else "", ("ptr", t))
            elif x < 0.36:
                # a type of the container's own package embedded by value / through a pointer (struct: v1.Rec, v1.Pair)
                nm = r.choice(sorted(FOREIGN[pkg]))
                byptr = self.ptr_embed and nm in ("ID", "Code", "Rec", "Same", "Pair") and r.random() < 0.3
                if nm not in used:
                    f = (nm, True, self.tag() if r.random() < 0.3 else "", ("ptr", foreign(pkg, nm)) if byptr else foreign(pkg, nm))
            elif deeper and x < 0.43:
                t = self.new_inner(pkg, level + 1)
                f = (self.fresh_name(used), False, self.tag(), t if r.random() < 0.6 else ("ptr", t))
            if f is None:
                f = (self.fresh_name(used), False, self.tag(), self.leaf(pkg))
            used.add(f[0])
            fs.append(f)
        if fs and r.random() < 0.15:
            fs.append((self.fresh_name(used), False, "", r.choice([("struct", ()), ("array", 0, P("int64"))])))
        return ("struct", tuple(fs))

    # ---- variants of the first body
    def rebase(self, t, src, dst):
        """t written with the types of package dst instead of src (None if dst lacks one of the names)."""
        k = t[0]
        if k == "named":
            if not is_foreign(t):
                return t
            nm = foreign_parts(t[1])[1]
            if nm in FOREIGN[src]:
                return foreign(dst, nm) if nm in FOREIGN[dst] else None
            if self.inner[dst].get(nm) is None:
                u = self.rebase(self.inner[src][nm], src, dst)
                if u is None:
                    return None
                self.inner[dst][nm] = u
                self.decls[dst].append(("%s/v1.%s" % (dst, nm), u))
            return ("named", "%s/v1.%s" % (dst, nm), self.inner[dst][nm])
        if k in ("slice", "ptr", "chan"):
            u = self.rebase(t[1], src, dst)
            return None if u is None else (k, u)
        if k == "map":
            a, b = self.rebase(t[1], src, dst), self.rebase(t[2], src, dst)
            return None if a is None or b is None else (k, a, b)
        if k == "array":
            u = self.rebase(t[2], src, dst)
            return None if u is None else (k, t[1], u)
        if k == "struct":
            fs = []
            for (n, e, tg, ft) in t[1]:
                u = self.rebase(ft, src, dst)
                if u is None:
                    return None
                fs.append((n, e, tg, u))
            return (k, tuple(fs))
        return t

    def variant(self, base, src, dst, v):
        r = self.rng
        save = (list(self.decls[dst]), dict(self.inner[dst]))
        b = self.rebase(base, src, dst)
        if b is None:
            self.decls[dst], self.inner[dst] = save
            return None
        fs = list(b[1])
        used = {f[0] for f in fs}
        if v in ("retyped", "mixed"):
            plain = [i for i, f in enumerate(fs) if not f[1]]
            for i in r.sample(plain, (len(plain) + 1) // 2):
                n, e, tg, ft = fs[i]
                for _ in range(8):
                    u = self.leaf(dst)
                    if u != ft:
                        break
                fs[i] = (n, e, tg, u)
        if v in ("renamed", "mixed"):
            plain = [i for i, f in enumerate(fs) if not f[1]]
            for i in r.sample(plain, (len(plain) + 1) // 2):
                n, e, tg, ft = fs[i]
                if r.random() < 0.5:
                    n = self.fresh_name(used)
                    used.add(n)
                else:
                    tg = r.choice(['hseq:"%s"' % r.choice(sorted(used)), 'hseq:"%s"' % self.fresh_name(used), ""]) if tg == "" else ""
                fs[i] = (n, e, tg, ft)
        if v == "mixed" and fs:
            if len(fs) > 1 and r.random() < 0.5:
                fs.pop(r.randrange(len(fs)))
            else:
                fs.insert(r.randrange(len(fs) + 1), (self.fresh_name(used), False, self.tag(), self.leaf(dst)))
        if v in ("permuted", "mixed") and len(fs) > 1:
            for _ in range(8):
                g = list(fs)
                r.shuffle(g)
                if g != fs:
                    fs = g
                    break
        return ("struct", tuple(fs))


def corner_twins(idx):
    """Hand-written groups, part of every batch; the order in which the harness process meets the members rotates with
    the batch index.  -> [(name, [(pkg, variant, decls, type)])]"""
    I8, I16, I32, I64, S, B = P("int8"), P("int16"), P("int32"), P("int64"), P("string"), P("bool")

    def N(pkg, nm, body):
        return ("named", "%s/v1.%s" % (pkg, nm), body)
    # Box: three layouts.  B is an int64 at offset 8 (pa), at offset 0 (pb), a string (pc); Guard/Name follow or precede it;
    # the embedded BoxIn differs as well; pc has neither BoxIn nor an int64 field named B
    ia = N("pa", "BoxIn", ("struct", (("X", False, "", I16), ("Y", False, "", I64))))
    ib = N("pb", "BoxIn", ("struct", (("Y", False, "", I64), ("W", False, "", B), ("X", False, "", I16))))
    ba = N("pa", "Box", ("struct", (("A", False, "", I8), ("B", False, "", I64), ("Name", False, 'hseq:"N"', S), ("BoxIn", True, "", ia), ("Guard", False, "", I64))))
    bb = N("pb", "Box", ("struct", (("B", False, "", I64), ("Guard", False, "", I64), ("BoxIn", True, "", ib), ("A", False, "", I8), ("Name", False, "", S))))
    bc = N("pc", "Box", ("struct", (("Pad", False, "", I64), ("B", False, "", S), ("C", False, "", foreign("pc", "ID")), ("Name", False, 'hseq:"Name"', ("slice", P("uint8"))), ("A", False, 'hseq:"N"', I32))))
    # Doc: the same layout (and source text) in two packages
    body = ("struct", (("Id", False, "", I32), ("Title", False, 'hseq:"T"', S), ("Meta", False, "", ("struct", (("X", False, "", I8), ("Y", False, "", I64)))), ("Tags", False, "", ("slice", S)), ("N", False, "", I8)))
    da, db = N("pa", "Doc", body), N("pb", "Doc", body)
    box = [("pa", "base", [ia, ba], ba), ("pb", "mixed", [ib, bb], bb), ("pc", "fresh", [bc], bc)]
    doc = [("pb", "base", [db], db), ("pa", "same-source", [da], da)]
    k = idx % 3
    box = box[k:] + box[:k]
    if idx % 2:
        doc.reverse()
    return [("Box", [(p, v, [(d[1], d[2]) for d in ds], t) for (p, v, ds, t) in box]), ("Doc", [(p, v, [(d[1], d[2]) for d in ds], t) for (p, v, ds, t) in doc])]


def erase_pkg(t):
    """t with the package of every harness-package type erased (the underlying types stay): equal for two types iff they
    are written alike AND laid out alike."""
    k = t[0]
    if k == "named":
        return ("named", "*/" + t[1].split("/", 1)[1], erase_pkg(t[2])) if is_foreign(t) else t
    if k in ("slice", "ptr", "chan"):
        return (k, erase_pkg(t[1]))
    if k == "map":
        return (k, erase_pkg(t[1]), erase_pkg(t[2]))
    if k == "array":
        return (k, t[1], erase_pkg(t[2]))
    if k == "struct":
        return (k, tuple((n, e, tg, erase_pkg(ft)) for (n, e, tg, ft) in t[1]))
    return t


def twin_relation(first, later):
    """How the listing of a same-printing container relates to the one the process unfolded FIRST (label of the input distribution)."""
    sig = lambda sh: [(e["name"], e["key"], e["anon"], erase_pkg(e["type"])) for e in sh.listing]
    a, b = sig(first), sig(later)
    if a == b:
        return "identical layout"
    if sorted(map(repr, a)) == sorted(map(repr, b)):
        return "same fields, other order"
    ka, kb = {e["key"] for e in first.listing}, {e["key"] for e in later.listing}
    ta, tb = {x[3] for x in a}, {x[3] for x in b}
    return "%s keys, %s types" % ("same" if ka == kb else "overlapping" if ka & kb else "disjoint", "same" if ta == tb else "overlapping" if ta & tb else "disjoint")


def make_twin_shapes(rng, idx, ngroups, ptr_embed=True):
    """The same-printing container shapes of batch idx: the hand-written groups plus ngroups random ones.  Members of a group
    are consecutive shapes, in the order the harness process will meet them (the first one is the one a per-name memo would serve)."""
    groups = corner_twins(idx)
    names = [n for n in TWIN_NAMES if n not in ("Box", "Doc")]
    rng.shuffle(names)
    while len(groups) < 2 + ngroups:
        pkgs = sorted(FOREIGN)
        rng.shuffle(pkgs)
        pkgs = pkgs[:rng.choice([2, 2, 3])]
        g = TwinGen(rng, names[len(groups) - 2], pkgs, ptr_embed=ptr_embed)
        ms = [(p, v, g.decls[p], t) for (p, v, t) in g.members]
        if any(len(flatten(t)) > 48 or len(value_paths(t)) > 90 for (_, _, _, t) in ms):
            continue
        groups.append((g.name, ms))
    shapes = []
    for (name, ms) in groups:
        grp = []
        for pos, (p, v, decls, t) in enumerate(ms):
            sh = Shape(TWIN_SID0 + 1000 * idx + len(shapes) + len(grp), t, decls)
            sh.twin_group, sh.twin_pos, sh.twin_variant, sh.pkg = name, pos, v, p
            grp.append(sh)
        for sh in grp:
            sh.twins = [o for o in grp if o is not sh]
            sh.twin_relation = "first of its group" if sh.twin_pos == 0 else twin_relation(grp[0], sh)
        shapes += grp
    return shapes



# ------------------------------------------------------------------ Go emission

def gostrlit(s):
    return '"' + s.replace("\\", "\\\\").replace('"', '\\"') + '"'


def intlist(p):
    return "[]int{" + ", ".join(map(str, p)) + "}"


class Emitter:
    """Collects Go statements for runAll() and the list of expected requests."""

    def __init__(self):
        self.decl_lines, self.body, self.declared = [], [], set()
        self.foreign = {}    # harness package -> [(Name, underlying)] declared there by this batch
        self.requests = []   # (request string, meta dict)

    def declare(self, decls):
        for (i, u) in decls:
            if i not in self.declared:
                self.declared.add(i)
                if "/" in i:      # a type of a harness package (`pa/v1.Box`): declared in harness/pa/v1/v1.go
                    d, nm = foreign_parts(i)
                    self.foreign.setdefault(d, []).append((nm, u))
                else:
                    self.decl_lines.append("type %s %s" % (i, gosrc(u)))

    def req(self, req, meta):
        self.requests.append((req, meta))

    def source(self):
        pool = ["type %s %s" % (i, gosrc(u)) for i, u in POOL.items()]
        funcs, calls = [], []
        # one Go function per chunk keeps functions small for the compiler
        for n, chunk in enumerate(self.body):
            funcs.append("func part%d() {\n%s\n}" % (n, "\n".join(chunk)))
            calls.append("\tpart%d()" % n)
        return ("// Code generated by checks/shapes.py. DO NOT EDIT.\npackage main\n\nimport (\n\t\"fmt\"\n\t\"reflect\"\n\t\"unsafe\"\n\n"
                "\t\"github.com/fogfish/golem/hseq\"\n\t\"github.com/fogfish/golem/optics\"\n\n"
                + "".join("\t%s \"harness/%s/v1\"\n" % (a, d) for d, a in FOREIGN_ALIAS.items()) + ")\n\n"
                "var _ = fmt.Sprint\nvar _ unsafe.Pointer\nvar _ reflect.Type\nvar _ = hseq.New[Other]\nvar _ = optics.ForProduct1[Other, int]\n"
                + "".join("var _ %s.ID\n" % a for a in FOREIGN_ALIAS.values()) + "\n"
                + "\n".join(pool) + "\n\n" + "\n".join(self.decl_lines) + "\n\n" + "\n\n".join(funcs)
                + "\n\nfunc runAll() {\n" + "\n".join(calls) + "\n}\n")


ARITY_VARS = "abcdefghi"


def emit_layout(em, sh, chunk):
    """shape / offs / list requests (compiler truth + hseq listing)."""
    T = sh.gotype
    r = "shape %d %s" % (sh.sid, sexpr(sh.type))
    em.req(r, dict(kind="shape", sid=sh.sid))
    chunk.append('\temit(%s, fmt.Sprintf("%%d %%d", unsafe.Sizeof(*new(%s)), unsafe.Alignof(*new(%s))))' % (gostrlit(r), T, T))
    chunk.append("\t{ var x %s; _ = x" % T)
    for (p, sel, ft) in sh.paths:
        r = "offs %d %s" % (sh.sid, ".".join(map(str, p)))
        em.req(r, dict(kind="offs", sid=sh.sid, path=p))
        parts = sel.split(".")[1:]
        offs = " + ".join("unsafe.Offsetof(x.%s)" % ".".join(parts[:i + 1]) for i in range(len(parts)))
        chunk.append('\temit(%s, fmt.Sprintf("%%d %%d %%d", %s, unsafe.Sizeof(x%s), unsafe.Alignof(x%s)))' % (gostrlit(r), offs, sel, sel))
    chunk.append("\t}")
    r = "list %d $S" % sh.sid
    em.req(r, dict(kind="list", sid=sh.sid, T="S"))
    chunk.append("\tlist[%s](%s)" % (T, gostrlit(r)))


def absent_types(sh, rng, n):
    present = []
    for e in sh.listing:
        if e["type"] not in present:
            present.append(e["type"])
    cands = [P(p) for p in PRIMS] + [named(i) for i in POOL] + [("ptr", t) for t in present[:4]] + \
            [("slice", P("int8")), ("array", 3, P("uint8")), ("array", 4, P("uint8")), sh.type, ("ptr", sh.type), OTHER]
    cands = [c for c in cands if c not in present]
    rng.shuffle(cands)
    # a type that PRINTS like a listed one but is another type (same name, other package) is absent all the same
    twins = [u for t in present for u in counterparts(t) if u not in present]
    if twins and rng.random() < 0.7:
        cands.insert(0, rng.choice(twins))
    return cands[:n]


def emit_lookups(em, sh, rng, chunk):
    T, sid = sh.gotype, sh.sid
    keys = []
    for e in sh.listing:
        for k in (e["key"], e["name"]):
            if k not in keys:
                keys.append(k)
    rng.shuffle(keys)
    names = keys[:8] + ["Zz", "hseq"]
    for nm in names:
        r = "forname %d %s" % (sid, nm)
        em.req(r, dict(kind="forname", sid=sid, name=nm))
        chunk.append("\tforName[%s](%s, %s)" % (T, gostrlit(r), gostrlit(nm)))
    for nm in names[:3] + ["Qq"]:
        r = "fornamemaybe %d %s" % (sid, nm)
        em.req(r, dict(kind="fornamemaybe", sid=sid, name=nm))
        chunk.append("\tforNameMaybe[%s](%s, %s)" % (T, gostrlit(r), gostrlit(nm)))
    types = []
    for e in sh.listing:
        if e["type"] not in types:
            types.append(e["type"])
    rng.shuffle(types)
    types.sort(key=lambda t: t not in sh.colliding[:4])     # stable: same-printing types are looked up first
    for t in types[:6] + absent_types(sh, rng, 2):
        r = "fortype %d %s" % (sid, sh.sx(t))
        em.req(r, dict(kind="fortype", sid=sid, type=t))
        chunk.append("\tforType[%s, %s](%s)" % (T, gosrc(t), gostrlit(r)))
    # New(names...) keeps the requested order (repeats allowed, sometimes one absent name)
    allkeys = [e["key"] for e in sh.listing]
    for _ in range(3):
        sel = [rng.choice(allkeys) for _ in range(rng.randint(1, 6))]
        if rng.random() < 0.25:
            sel.insert(rng.randrange(len(sel) + 1), "Nope")
        r = "new %d $S %s" % (sid, " ".join(sel))
        em.req(r, dict(kind="new", sid=sid, names=sel, T="S"))
        chunk.append("\tnewNames[%s](%s, %s)" % (T, gostrlit(r), ", ".join(gostrlit(s) for s in sel)))
    # New[*T]: the pointer is looked through
    r = "new %d (ptr $S) %s" % (sid, allkeys[0])
    em.req(r, dict(kind="new", sid=sid, names=[allkeys[0]], T="ptr"))
    chunk.append("\tnewNames[*%s](%s, %s)" % (T, gostrlit(r), gostrlit(allkeys[0])))
    # New1..9 by witness types: arity rotates with the shape id, plus one random arity
    for n in sorted({1 + sid % 9, rng.randint(1, 9)}):
        ws = [rng.choice(sh.colliding if sh.colliding and rng.random() < 0.4 else types) for _ in range(n)]
        if rng.random() < 0.2:
            ws[rng.randrange(n)] = absent_types(sh, rng, 1)[0]
        r = "newn %d $S %s" % (sid, " ".join(sh.sx(t) for t in ws))
        em.req(r, dict(kind="newn", sid=sid, types=ws))
        chunk.append("\temit(%s, try(func() string { return showIDs(hseq.New%d[%s, %s]()) }))" % (gostrlit(r), n, T, ", ".join(gosrc(t) for t in ws)))
    # FMap1..9: ts = first k entries
    L = len(sh.listing)
    for n in sorted({1 + (sid + 4) % 9, rng.randint(1, 9), rng.randint(1, 9)}):
        k = rng.choice([n, n, L, max(0, n - 1), rng.randint(0, n)])
        k = min(k, L)
        r = "fmap %d %d %d" % (sid, k, n)
        em.req(r, dict(kind="fmap", sid=sid, k=k, n=n))
        chunk.append("\tfmapTrace[%s](%s, %d, %d)" % (T, gostrlit(r), k, n))


def uniq(xs):
    out = []
    for x in xs:
        if x not in out:
            out.append(x)
    return out


def emit_twin_lookups(em, sh, rng, chunk):
    """C03, containers that print like another container of the batch: lookups on THIS container by the names, keys and types
    of the OTHER ones (what a listing memoized under the printed name would answer for), next to the ordinary stream."""
    T, sid = sh.gotype, sh.sid
    own_types = uniq(e["type"] for e in sh.listing)
    for tw in sh.twins:
        keys = uniq(k for e in tw.listing for k in (e["key"], e["name"]))
        rng.shuffle(keys)
        keys.sort(key=lambda k: (sh.first_by_key(k) is None) == (tw.first_by_key(k) is None) and (sh.first_by_key(k) or {}).get("id") == (tw.first_by_key(k) or {}).get("id"))
        for nm in keys[:4]:
            r = "forname %d %s" % (sid, nm)
            em.req(r, dict(kind="forname", sid=sid, name=nm, twin=tw.sid))
            chunk.append("\tforName[%s](%s, %s)" % (T, gostrlit(r), gostrlit(nm)))
        for nm in keys[:2]:
            r = "fornamemaybe %d %s" % (sid, nm)
            em.req(r, dict(kind="fornamemaybe", sid=sid, name=nm, twin=tw.sid))
            chunk.append("\tforNameMaybe[%s](%s, %s)" % (T, gostrlit(r), gostrlit(nm)))
        types = uniq(e["type"] for e in tw.listing)
        rng.shuffle(types)
        types.sort(key=lambda t: t in own_types)      # stable: the types only the other container lists come first
        for t in types[:3]:
            r = "fortype %d %s" % (sid, sh.sx(t))
            em.req(r, dict(kind="fortype", sid=sid, type=t, twin=tw.sid))
            chunk.append("\tforType[%s, %s](%s)" % (T, gosrc(t), gostrlit(r)))
        sel = [rng.choice(keys) for _ in range(rng.randint(1, 4))]
        r = "new %d $S %s" % (sid, " ".join(sel))
        em.req(r, dict(kind="new", sid=sid, names=sel, T="S", twin=tw.sid))
        chunk.append("\tnewNames[%s](%s, %s)" % (T, gostrlit(r), ", ".join(gostrlit(x) for x in sel)))
        n = rng.randint(1, 4)
        ws = [rng.choice(types if rng.random() < 0.5 else own_types) for _ in range(n)]
        r = "newn %d $S %s" % (sid, " ".join(sh.sx(t) for t in ws))
        em.req(r, dict(kind="newn", sid=sid, types=ws, twin=tw.sid))
        chunk.append("\temit(%s, try(func() string { return showIDs(hseq.New%d[%s, %s]()) }))" % (gostrlit(r), n, T, ", ".join(gosrc(t) for t in ws)))


def emit_views(em, sh):
    """func views<sid>(s *T) []fieldView: every value path through ordinary selectors."""
    lines = ["func views%d(s *%s) []fieldView {" % (sh.sid, sh.gotype), "\treturn []fieldView{"]
    for (p, sel, ft) in sh.paths:
        lines.append("\t\t{%s, unsafe.Pointer(&s%s), unsafe.Sizeof(s%s)}," % (intlist(p), sel, sel))
    lines += ["\t}", "}"]
    em.decl_lines.append("\n".join(lines))


def derive_call(fam, n, T, types, names):
    fn = ("optics.ForProduct%d" if fam == "P" else "optics.ForSpectrum%d") % n
    return "%s[%s, %s](%s)" % (fn, T, ", ".join(gosrc(t) for t in types), ", ".join(gostrlit(s) for s in names))


def lens_request(kind_, sh, fam, Tsx, types, names):
    return "%s %d %s %s %s ; %s" % (kind_, sh.sid, fam, Tsx, " ".join(sh.sx(t) for t in types), " ".join(names))


def emit_lens_tuples(em, sh, rng, chunk, per_arity=1):
    """C01: every arity 1..9 of both families on this shape, by name and by type, each lens
    executed on a guard-wrapped value."""
    by_name = [e for e in sh.listing if e["value"] and sh.first_by_key(e["key"]) is e]
    by_type = [e for e in sh.listing if e["value"] and sh.first_by_type(e["type"]) is e]
    if not by_name and not by_type:
        return 0
    count = 0
    order = list(range(1, 10))
    pending_n, pending_t = list(by_name), list(by_type)
    rng.shuffle(pending_n)
    rng.shuffle(pending_t)
    for n in order:
        for fam in ("P", "S"):
            for mode in (("name", "type") if per_arity >= 2 else (("name",) if (n + (fam == "S") + sh.sid) % 2 else ("type",))):
                cands, pending = (by_name, pending_n) if mode == "name" else (by_type, pending_t)
                if not cands:
                    cands, pending, mode = (by_type, pending_t, "type") if mode == "name" else (by_name, pending_n, "name")
                tup = []
                while len(tup) < n:
                    tup.append(pending.pop() if pending else rng.choice(cands))
                types = [e["type"] for e in tup]
                names = [e["key"] for e in tup] if mode == "name" else []
                if mode == "name" and rng.random() < 0.15:
                    names = names + ["Extra"]  # more names than N: the rest is ignored
                req = lens_request("lens", sh, fam, "$S", types, names)
                em.req(req, dict(kind="lens", sid=sh.sid, fam=fam, mode=mode, n=n, entries=[e["id"] for e in tup], types=types, names=names))
                vs = ", ".join("l" + ARITY_VARS[i] for i in range(n))
                lines = ["\tfunc() { req := %s; emit(req, try(func() string {" % gostrlit(req), "\t\tvar t tuple",
                         "\t\t%s := %s" % (vs, derive_call(fam, n, sh.gotype, types, names))]
                for i, e in enumerate(tup):
                    fn = "lensCase" if fam == "P" else "reflCase[%s, %s]" % (sh.gotype, gosrc(e["type"]))
                    lines.append("\t\t%s(&t, %d, l%s, views%d, %s)" % (fn, i + 1, ARITY_VARS[i], sh.sid, intlist(e["path"])))
                lines.append("\t\treturn t.finish(req)")
                lines.append("\t})) }()")
                chunk.append("\n".join(lines))
                count += 1
    return count


def wrong_types_for(sh, e, rng):
    """Types that are NOT the type of entry e, biased to the same kind."""
    t = e["type"]
    out = []
    if t[0] == "named":
        out.append(t[2])                     # underlying of a defined type: same kind, other type
    for i, u in POOL.items():
        if u == t or (kind(u) == kind(t) and named(i) != t):
            out.append(named(i))
    if kind(t) == "struct":
        out += [x for x in [OTHER, named("NPair"), named("NEmpty"), ("struct", ())] if x != t]
        out += [o["type"] for o in sh.listing if kind(o["type"]) == "struct" and o["type"] != t][:2]
    if kind(t) == "ptr":
        out.append(strip(t)[1])
        out.append(("ptr", P("int8")) if strip(t)[1] != P("int8") else ("ptr", P("int16")))
    else:
        out.append(("ptr", t))
    out += [P("int8") if t != P("int8") else P("uint8"), P("string") if t != P("string") else P("int")]
    out = [x for x in out if x != t]
    rng.shuffle(out)
    same = [x for x in out if kind(x) == kind(t)]
    twins = counterparts(t)          # other types with the same printed name
    rng.shuffle(twins)
    return ((twins[:1] if rng.random() < 0.7 else []) + same[:2] + out[:2])[:3]


def emit_negative(em, sh, rng, chunk):
    """C02: derivation requests under recover; windows come from hseq entries, memory is never touched (except by the
    write probes of emit_negative_names, which run only on a derivation that was accepted although it had to panic)."""
    sid, T = sh.sid, sh.gotype
    L = sh.listing

    def add(fam, Tt, Tsx, Tgo, types, names, why, probe=False, **extra):
        """One derivation under recover.  The windows printed for an ACCEPTED derivation come from lookups that cannot
        panic (nameWin/typeWin print `?` for an absent name/type or a position without a name: hseq's own lookups would
        panic there and hide the acceptance).  probe=True (requests that must panic, foci that are plain fields): an accepted
        derivation additionally Puts through every returned optic on a guard-wrapped value and prints the written
        windows as a `chk` line (direct oracle only)."""
        n = len(types)
        req = lens_request("lensd", sh, fam, Tsx, types, names)
        em.req(req, dict(kind="lensd", sid=sid, fam=fam, T=Tt, types=types, names=names, why=why, **extra))
        look = []
        for i, t in enumerate(types):
            if names:
                look.append("seq.name(%s, unsafe.Sizeof(*new(%s)))" % (gostrlit(names[i]), gosrc(t)) if i < len(names) else '"?"')
            else:
                look.append("seq.typ(reflect.TypeOf((*%s)(nil)).Elem())" % gosrc(t))
        vs = ", ".join("l" + ARITY_VARS[i] for i in range(n))
        us = "; ".join("_ = l" + ARITY_VARS[i] for i in range(n))
        if probe:
            us += "\n\t\taccepted(%s, %s, new(W[%s]), %s)" % (gostrlit(req), '"Put"' if fam == "P" else '"Putt"', Tgo, vs)
        if Tt == "other":
            # no listing exists for such a container (hseq.New itself panics): an accepted derivation is reported as it is,
            # with `?` windows, not hidden behind the harness's own follow-up panic
            chunk.append("\temit(%s, try(func() string {\n\t\t%s := %s; %s\n\t\treturn \"ok %s\"\n\t}))" % (
                gostrlit(req), vs, derive_call(fam, n, Tgo, types, names), us, " ".join(["?"] * n)))
            return
        chunk.append("\temit(%s, try(func() string {\n\t\t%s := %s; %s\n\t\tseq := entries(hseq.New[%s]())\n\t\treturn \"ok \" + %s\n\t}))" % (
            gostrlit(req), vs, derive_call(fam, n, Tgo, types, names), us, Tgo, ' + " " + '.join(look)))

    fams = ["P", "S"]
    pick = lambda: rng.choice(L)
    fam = lambda: rng.choice(fams)
    # positive control + duplicates: by first-matching key with its own type
    for hi in (4, 9):
        n = rng.randint(1, hi)
        es = [sh.first_by_key(pick()["key"]) for _ in range(n)]
        add(fam(), "S", "$S", T, [e["type"] for e in es], [e["key"] for e in es], "control-by-name")
    n = rng.randint(1, 3)
    es = [sh.first_by_type(pick()["type"]) for _ in range(n)]
    add(fam(), "S", "$S", T, [e["type"] for e in es], [], "control-by-type")
    # distinct types that print identically: by type every one of them must focus ITS first field; by name a field
    # of the one type must not be accepted for a witness of the other
    coll = [e for e in L if e["type"] in sh.colliding and e["value"] and sh.first_by_type(e["type"]) is e]
    if coll:
        es = rng.sample(coll, min(len(coll), rng.randint(2, 4)))
        add(fam(), "S", "$S", T, [e["type"] for e in es], [], "control-by-type-same-print")
        byname = [e for e in L if e["type"] in sh.colliding and sh.first_by_key(e["key"]) is e]
        if byname:
            e = rng.choice(byname)
            tw = [t for t in sh.colliding if t != e["type"] and gostr(t) == gostr(e["type"])]
            add(fam(), "S", "$S", T, [rng.choice(tw)], [e["key"]], "same-print-wrong-type-by-name")
    # unknown name
    n = rng.randint(1, 4)
    es = [sh.first_by_key(pick()["key"]) for _ in range(n)]
    names = [e["key"] for e in es]
    names[rng.randrange(n)] = rng.choice(["Nope", "zz", "A_", "hseq"])
    add(fam(), "S", "$S", T, [e["type"] for e in es], names, "unknown-name")
    # a shadowed duplicate: key matches several entries, the type of a LATER one is requested
    dups = [e for e in L if sh.first_by_key(e["key"]) is not e and sh.first_by_key(e["key"])["type"] != e["type"]]
    if dups:
        e = rng.choice(dups)
        add(fam(), "S", "$S", T, [e["type"]], [e["key"]], "later-duplicate-type")
    # wrong focus type by name (same kind first)
    for _ in range(2):
        n = rng.randint(1, 3)
        es = [sh.first_by_key(pick()["key"]) for _ in range(n)]
        types = [e["type"] for e in es]
        j = rng.randrange(n)
        ws = wrong_types_for(sh, es[j], rng)
        if ws:
            types[j] = ws[0]
            add(fam(), "S", "$S", T, types, [e["key"] for e in es], "wrong-type-by-name")
    # a type no field has
    n = rng.randint(1, 3)
    es = [sh.first_by_type(pick()["type"]) for _ in range(n)]
    types = [e["type"] for e in es]
    ab = absent_types(sh, rng, 1)
    if ab:
        types[rng.randrange(n)] = ab[0]
        add(fam(), "S", "$S", T, types, [], "missing-type")
    # too few names
    n = rng.randint(2, 9)
    es = [sh.first_by_key(pick()["key"]) for _ in range(n)]
    add(fam(), "S", "$S", T, [e["type"] for e in es], [e["key"] for e in es][:rng.randint(1, n - 1)], "short-names")
    # container type parameter that is not a struct
    # (a pointer to the struct must panic in NewLens/NewReflector, after the lookups; arities 1..4, both families)
    es = [sh.first_by_key(pick()["key"]) for _ in range(rng.randint(1, 4))]
    add(fam(), "ptr", "(ptr $S)", "*" + T, [e["type"] for e in es], [e["key"] for e in es], "ptr-container")
    es = [sh.first_by_type(pick()["type"]) for _ in range(rng.randint(1, 4))]
    add(fam(), "ptr", "(ptr $S)", "*" + T, [e["type"] for e in es], [], "ptr-container")
    e = sh.first_by_key(pick()["key"])
    bad = rng.choice([("(ptr (ptr $S))", "**" + T), ("int", "int"), ("(slice $S)", "[]" + T), ("(array 2 $S)", "[2]" + T),
                      ("iface", "interface{}"), ("(map string $S)", "map[string]" + T)])
    add(fam(), "other", bad[0], bad[1], [e["type"]], [e["key"]] if rng.random() < 0.5 else [], "non-struct-container")
    # foci inside pointer-embedded structs
    ptrs_n = [e for e in L if not e["value"] and sh.first_by_key(e["key"]) is e]
    ptrs_t = [e for e in L if not e["value"] and sh.first_by_type(e["type"]) is e]
    for e in rng.sample(ptrs_n, min(2, len(ptrs_n))):
        add(fam(), "S", "$S", T, [e["type"]], [e["key"]], "ptr-embedded")
    for e in rng.sample(ptrs_t, min(1, len(ptrs_t))):
        add(fam(), "S", "$S", T, [e["type"]], [], "ptr-embedded")
    # too few names hidden behind spare capacity: ForProduct2(names...) with len(names)=1, cap(names)=2
    # (outside the model, which takes cap == len: printed as a `cap` line, judged by the direct oracle only)
    two = [e for e in L if sh.first_by_key(e["key"]) is e]
    if len(two) >= 2:
        e1, e2 = rng.sample(two, 2)
        fn = rng.choice(["optics.ForProduct2", "optics.ForSpectrum2"])
        req = "cap %d %s $S %s %s ; %s [%s]" % (sid, fn[7:], sh.sx(e1["type"]), sh.sx(e2["type"]), e1["key"], e2["key"])
        chunk.append("\temit(%s, try(func() string {\n\t\tnames := []string{%s, %s}[:1]\n\t\ta, b := %s[%s, %s, %s](names...); _, _ = a, b\n\t\treturn \"ok\"\n\t}))" % (
            gostrlit(req), gostrlit(e1["key"]), gostrlit(e2["key"]), fn, T, gosrc(e1["type"]), gosrc(e2["type"])))
    # Reflector with foreign dynamic values
    cands = [e for e in L if e["value"] and sh.first_by_key(e["key"]) is e]
    if cands:
        e = rng.choice(cands)
        A = e["type"]
        chunk.append("\t{ w := new(W[%s]); ps := &w.S; other := new(Other); wp, wn := unsafe.Pointer(w), unsafe.Sizeof(*w)" % T)
        # another DEFINED type with the container's underlying type: a pointer to it converts to *S, and is no *S
        under = sh.type[2] if sh.type[0] == "named" else sh.type
        twin = ("named", "Twin%d" % sid, under)
        chunk.append("\ttype Twin%d %s; tw := (*Twin%d)(ps)" % (sid, T, sid))
        chunk.append("\tmk := func() optics.Reflector[%s] { return optics.ForSpectrum1[%s, %s](%s) }" % (gosrc(A), T, gosrc(A), gostrlit(e["key"])))
        dyns = [("$S", "w.S", False), ("(ptr $S)", "&w.S", True), ("(ptr %s)" % sexpr(OTHER), "other", False), ("(ptr (ptr $S))", "&ps", False),
                ("nil", "nil", False), ("int", "int(7)", False), ("(ptr int)", "new(int)", False),
                # values whose reflect.Type also has an Elem() of the container type, without being a pointer to it
                ("(slice $S)", "[]%s{w.S}" % T, False), ("(array 1 $S)", "[1]%s{w.S}" % T, False),
                ("(ptr %s)" % sexpr(twin), "tw", False)]
        for (dsx, dgo, ok) in dyns:
            for op in ("gett", "putt"):
                req = "refl %d $S %s %s %s %s" % (sid, sh.sx(A), e["key"], dsx, op)
                em.req(req, dict(kind="refl", sid=sid, dyn=dsx, op=op, ok=ok))
                chunk.append("\treflDyn(%s, mk, %s, wp, wn, %s)" % (gostrlit(req), dgo, gostrlit(op)))
        chunk.append("\t_ = ps; _ = other; _ = tw }")
    emit_negative_names(add, sh, rng)
    if sh.twins:
        emit_negative_twins(add, sh, rng)


def emit_negative_twins(add, sh, rng):
    """C02, containers that print like another container of the batch: derivations on THIS container asked for with the
    names and focus types the OTHER container has.  Where this container has no such name, another type under that name or
    no field of that type the request must panic; where both agree it is a control (the window must be this container's).
    Draws from a copy of the stream's state (the requests emitted before stay what they were)."""
    import random
    sub = random.Random()
    sub.setstate(rng.getstate())
    r = random.Random(sub.getrandbits(64) ^ 0x7717)
    L = sh.listing
    fam = lambda: r.choice(["P", "S"])
    own = [e for e in L if sh.first_by_key(e["key"]) is e]
    for tw in sh.twins:
        theirs = [e for e in tw.listing if tw.first_by_key(e["key"]) is e]
        # by name: the other container's (key, type) pairs
        clash = [e for e in theirs if sh.first_by_key(e["key"]) is None or sh.first_by_key(e["key"])["type"] != e["type"]]
        agree = [e for e in theirs if e not in clash]
        for _ in range(2):
            if not clash:
                break
            n = r.randint(1, 3)
            es = [r.choice(own) for _ in range(n)]
            types, names = [e["type"] for e in es], [e["key"] for e in es]
            j = r.randrange(n)
            e = r.choice(clash)
            types[j], names[j] = e["type"], e["key"]
            add(fam(), "S", "$S", sh.gotype, types, names, "same-print-container-name+type-of-the-other", twin=tw.sid)
        if agree:
            es = [r.choice(agree) for _ in range(r.randint(1, 4))]
            add(fam(), "S", "$S", sh.gotype, [e["type"] for e in es], [e["key"] for e in es], "control-same-print-container-common-fields", twin=tw.sid)
        # by type: a type only the other container lists
        only = uniq(e["type"] for e in tw.listing if sh.first_by_type(e["type"]) is None)
        if only:
            n = r.randint(1, 3)
            es = [sh.first_by_type(r.choice(L)["type"]) for _ in range(n)]
            types = [e["type"] for e in es]
            types[r.randrange(n)] = r.choice(only)
            add(fam(), "S", "$S", sh.gotype, types, [], "same-print-container-type-of-the-other", twin=tw.sid)
        # the other container itself as T is another request stream (its own shape); a pointer to it must panic like any pointer


def emit_negative_names(add, sh, rng):
    """C02, two further classes of requests that must panic (both with explicit arguments, cap == len):
      unknown-name-first-type   N >= 2 names, ONE of them unknown (a misspelt key of the shape), once at every position;
                                the focus type requested at that position is the type of the container's FIRST field
                                (a lookup that falls back to entry 0 passes the type guard), the other positions are valid;
      short-names-by-type-ok    1..N-1 names for N >= 2 foci whose types all occur in the shape (a fallback to derivation
                                by type succeeds); the named fields are, where the shape has such, NOT the first fields
                                of their types, so that optics derived by type focus other fields than the named ones.
    The generator draws from a copy of the stream's state: the requests emitted before stay what they were."""
    import random
    sub = random.Random()
    sub.setstate(rng.getstate())
    r = random.Random(sub.getrandbits(64) ^ 0x5EED)
    L = sh.listing
    keys = {e["key"] for e in L}
    firsts = [e for e in L if sh.first_by_key(e["key"]) is e]          # entries a name denotes
    plain = [e for e in firsts if e["value"]]                          # ... that are fields of the struct itself
    fam = lambda: r.choice(["P", "S"])

    def misspelt():
        k = r.choice(sorted(keys))
        for c in r.sample([k + "_", k.swapcase(), k[:-1], k + k[-1], k.lower(), k.upper(), "Nope"], 7):
            if c and c not in keys and c.isidentifier():
                return c
        return "Nope_"

    # unknown name at every position
    n = r.choice([2, 2, 3, 3, 4, 5, 6, 9])
    es = [r.choice(plain) for _ in range(n)]      # plain is never empty: the first entry is a field of the struct itself
    f = fam()
    for j in range(n):
        types = [e["type"] for e in es]
        names = [e["key"] for e in es]
        types[j], names[j] = L[0]["type"], misspelt()
        add(f if j % 2 == 0 else fam(), "S", "$S", sh.gotype, types, names, "unknown-name-first-type", probe=True, pos=j)
    # too few names although every requested type is there: one name, all but one name, a random number of names
    later = [e for e in plain if sh.first_by_type(e["type"]) is not e]   # named, but not the first field of its type
    n1, n2, n3 = r.randint(2, 9), r.randint(2, 9), r.randint(3, 9)
    for (n, k) in [(n1, 1), (n2, n2 - 1), (n3, r.randint(1, n3 - 1))]:
        es = [r.choice(later) if later and r.random() < 0.7 else r.choice(plain) for _ in range(n)]
        # the probe writes through accepted optics: only where a derivation by type stays on plain fields of the struct
        safe = all(sh.first_by_type(e["type"])["value"] for e in es)
        add(fam(), "S", "$S", sh.gotype, [e["type"] for e in es], [e["key"] for e in es][:k], "short-names-by-type-ok", probe=safe,
            named_not_first_of_type=sum(1 for e in es[:k] if sh.first_by_type(e["type"]) is not e))


def build(shapes, rng, want):
    """want ⊆ {"layout","lookups","lens","negative"} → (go source, requests, {harness package: [(Name, underlying)] declared there})."""
    em = Emitter()
    for sh in shapes:
        em.declare(sh.decls)
        chunk = []
        if "layout" in want:
            emit_layout(em, sh, chunk)
        else:
            # the oracle still needs the current shape
            r = "shape %d %s" % (sh.sid, sexpr(sh.type))
            em.req(r, dict(kind="shape", sid=sh.sid))
            chunk.append('\temit(%s, fmt.Sprintf("%%d %%d", unsafe.Sizeof(*new(%s)), unsafe.Alignof(*new(%s))))' % (gostrlit(r), sh.gotype, sh.gotype))
        if "lookups" in want:
            emit_lookups(em, sh, rng, chunk)
            if sh.twins:
                emit_twin_lookups(em, sh, rng, chunk)
        if "lens" in want:
            emit_views(em, sh)
            emit_lens_tuples(em, sh, rng, chunk)
        if "negative" in want:
            emit_negative(em, sh, rng, chunk)
        em.body.append(chunk)
    return em.source(), em.requests, em.foreign


def parse_output(lines):
    """`req => res` lines → (oracle requests in order, {req: res}, chk lines)."""
    reqs, chks, caps = [], [], []
    for ln in lines:
        if " => " not in ln:
            continue
        r, res = ln.split(" => ", 1)
        if r.startswith("chk "):
            chks.append((r[4:], res))
        elif r.startswith("dpv "):
            chks.append((r, res))     # valid-value phase summary of a lens request (go/harness/layout/deep.go): b.chk["dpv " + req]
        elif r.startswith("cap "):
            caps.append((r, res))
        else:
            reqs.append((r, res))
    return reqs, chks, caps


# ------------------------------------------------------------------ running batches

REPLACES = None


def replaces():
    import vlib
    return {"github.com/fogfish/golem/hseq": vlib.REPO + "/hseq", "github.com/fogfish/golem/optics": vlib.REPO + "/optics"}


class Batch:
    def __init__(self, idx, shapes, src, requests, foreign=None):
        self.idx, self.shapes, self.src, self.requests = idx, shapes, src, requests
        self.foreign = foreign or {}       # types this batch declares in the harness packages (same-printing containers)
        self.by_sid = {s.sid: s for s in shapes}
        self.impl = self.model = None      # result strings aligned with self.requests
        self.chk = {}                      # request -> direct-oracle verdict printed by the harness
        self.caps = []                     # spare-capacity probes (request, result), direct oracle only
        self.error = None


def regenerate(ctx):
    """T tie: Gen/HseqArity.lean (New1..9, FMap1..9, ForProduct1..9, ForSpectrum1..9) is regenerated from the
    current source; the `*_gen` theorems of Props/C01 and Props/C03 equate it with the list model."""
    return ctx.xlate("hseqarity", "HseqArity.lean", ["hseq/hseq.go", "optics/lens.go", "optics/reflector.go"])


def apply_replay(ctx):
    """`bin/check C0x --replay f`: generation is a function of (seed, tier), so a replay re-runs the
    recorded seed and tier; the failing shape and request reappear under the same ids."""
    if getattr(ctx, "replay", None):
        import json
        d = json.load(open(ctx.replay))
        ctx.seed, ctx.tier = int(d.get("seed", ctx.seed)), d.get("tier", ctx.tier)
        ctx.note("replay of %s: seed=%d tier=%s" % (ctx.replay, ctx.seed, ctx.tier))


def run_batches(ctx, oracle, want, sizes, ptr_embed=True, seed_tag=0, twin_groups=None):
    """Generate len(sizes) batches (sizes[i] shapes each; the first gets the corner shapes), build and
    run the harness for each (in parallel), run the oracle on the printed requests.  Returns the batches.
    Records broken ties in ctx.broken (harness does not build / request stream mismatch)."""
    import random
    from concurrent.futures import ThreadPoolExecutor
    batches = []
    sid = 0
    for i, n in enumerate(sizes):
        rng = random.Random((ctx.seed * 7919 + seed_tag) * 1000 + i)
        shs = make_shapes(rng, n, first_sid=sid, ptr_embed=ptr_embed, corners=(i == 0))
        sid += len(shs)
        # same-printing containers (declared in harness/pa|pb|pc/v1): appended, own generator and sid range, so that
        # the shapes and requests before them are what they were
        shs += make_twin_shapes(random.Random((ctx.seed * 7919 + seed_tag) * 1000 + 500 + i), i, twin_groups if twin_groups is not None else (3 if ctx.thorough() else 1), ptr_embed=ptr_embed)
        src, reqs, fdecls = build(shs, rng, want)
        batches.append(Batch(i, shs, src, reqs, fdecls))
    obin = ctx.oracle_bin()

    import inspect, threading, contextlib
    has_suffix = "suffix" in inspect.signature(ctx.harness).parameters
    serial = threading.Lock()   # without a per-batch directory suffix in vlib.harness, batches share one dir

    def work(b):
        import vlib
        with (contextlib.nullcontext() if has_suffix else serial):
            kw = {"suffix": "-%s-%d" % (oracle, b.idx)} if has_suffix else {}
            import time
            t0 = time.time()
            binp, err = ctx.harness("layout", replaces(), extra_files=dict(foreign_files(b.foreign), **{"shapes_gen.go": b.src}), **kw)
            b.build_s = time.time() - t0
            if binp is None:
                b.error = "harness does not build: " + (err or "")[-3000:]
                return b
            rc, out, err = ctx.run_harness(binp, [], [])
        got, chks, b.caps = parse_output(out)
        b.chk = dict(chks)
        if rc != 0 or [r for r, _ in got] != [r for r, _ in b.requests]:
            want_reqs = [r for r, _ in b.requests]
            k = next((j for j, (x, y) in enumerate(zip([r for r, _ in got], want_reqs)) if x != y), min(len(got), len(want_reqs)))
            b.error = "harness rc=%d printed %d of %d requests; first divergence at #%d (%s); stderr: %s" % (
                rc, len(got), len(want_reqs), k, want_reqs[k] if k < len(want_reqs) else "-", err[-1500:])
            return b
        b.impl = [res for _, res in got]
        rc, o, e = vlib.run([obin, oracle], input="\n".join(r for r, _ in b.requests) + "\n", timeout=3600)
        if rc != 0:
            b.error = "oracle failed: " + e[-1000:]
            return b
        b.model = o.split("\n")[:len(b.requests)]
        return b

    with ThreadPoolExecutor(max_workers=min(4, len(batches))) as ex:
        list(ex.map(work, batches))
    for b in batches:
        if b.error:
            ctx.broken.append({"kind": "correspondence", "detail": "batch %d: %s" % (b.idx, b.error)})
    ctx.note("%d batches, %d shapes, %d requests; go build %.1fs max per batch (%d KB generated source)" % (
        len(batches), sum(len(b.shapes) for b in batches), sum(len(b.requests) for b in batches),
        max([getattr(b, "build_s", 0) for b in batches] + [0]), sum(len(b.src) for b in batches) // 1024))
    return batches


def diff_batch(ctx, b, label, skip=lambda meta: False):
    """Model vs implementation, line by line (the first few disagreements go to ctx.broken)."""
    n = 0
    for (req, meta), i, m in zip(b.requests, b.impl, b.model):
        if skip(meta):
            continue
        if i != m:
            n += 1
            if sum(1 for x in ctx.broken if x.get("kind") == "correspondence") < 4:
                sh = b.by_sid[meta["sid"]]
                ctx.broken.append({"kind": "correspondence", "detail": label, "case": req, "shape": sexpr(sh.type), "impl": i, "model": m})
        else:
            ctx.cov["traces_validated_against_impl"] += 1
    return n


def shape_hist(ctx, sh):
    ctx.hist("fields_top", len(fields(sh.type)))
    ctx.hist("listing_len", min(len(sh.listing), 40) // 5 * 5)
    ctx.hist("embed_depth", sh.depth() - 1)
    ctx.hist("has_ptr_embedding", any(not e["value"] for e in sh.listing))
    ctx.hist("has_tags", any(e["key"] != e["name"] for e in sh.listing))
    ctx.hist("dup_keys", len({e["key"] for e in sh.listing}) < len(sh.listing))
    ctx.hist("dup_types", len({e["type"] for e in sh.listing}) < len(sh.listing))
    # distinct listed types that reflect prints identically (0 = none; 2.. = that many types in 1+ groups)
    ctx.hist("colliding_types", len(sh.colliding))
    ctx.hist("has_harness_pkg_type", any(foreign_ids(e["type"]) for e in sh.listing))
    for g in sh.groups:
        # g is in listing order: g[0] is the decoy in front of every later type of the group
        ctx.hist("colliding_group", gostr(g[0]).replace("v1.", "v1·"))
        for t in g[1:]:
            a, b = size_align(g[0])[0], size_align(t)[0]
            ctx.hist("colliding_decoy_before_focus", "smaller" if a < b else "larger" if a > b else "same-size")
    for e in sh.listing:
        t = strip(e["type"])
        ctx.hist("field_kind", t[1] if t[0] == "prim" else t[0])
    # container types that reflect prints identically (`v1.Box` of harness/pa/v1 and of harness/pb/v1), used by one process
    ctx.hist("container_declared_in", "harness/%s/v1 (prints v1.%s)" % (sh.pkg, sh.twin_group) if sh.twins else "main")
    if sh.twins:
        ctx.hist("same_printing_containers_in_process", 1 + len(sh.twins))
        ctx.hist("same_printing_container_position", "unfolded first" if sh.twin_pos == 0 else "unfolded after another one")
        ctx.hist("same_printing_container_vs_first", sh.twin_relation)
        ctx.hist("same_printing_container_variant", sh.twin_variant)
        if sh.twin_pos > 0:
            ctx.hist("same_printing_container_order", "%s before %s" % (next(o for o in sh.twins if o.twin_pos == 0).pkg, sh.pkg))


def godecl(i, u):
    if "/" in i:
        d, nm = foreign_parts(i)
        return "package v1 (harness/%s/v1, imported as %s): type %s %s" % (d, FOREIGN_ALIAS[d], nm, gosrc(u, d))
    return "type %s %s" % (i, gosrc(u))


def case_of(b, req, meta):
    sh = b.by_sid[meta["sid"]]
    own = dict(sh.decls)
    ids = sorted({i for e in sh.listing for i in foreign_ids(e["type"]) if i not in own})
    imports = "; ".join("import %s \"harness/%s/v1\" (package v1: type %s %s)" % (FOREIGN_ALIAS[d], d, n, gosrc(FOREIGN[d][n], d)) for d, n in map(foreign_parts, ids) if n in FOREIGN[d])
    case = {"request": req, "shape": sexpr(sh.type), "go": "; ".join(godecl(i, u) for i, u in sh.decls) + ("; " + imports if imports else ""), "batch": b.idx}
    if sh.twins:
        # the other containers of the same printed name the process uses, in the order it meets them (this one at `position`)
        grp = sorted(sh.twins + [sh], key=lambda o: o.twin_pos)
        case["same_printing_containers"] = {"prints": gostr(sh.type), "position": sh.twin_pos, "in_process_order": [
            {"container": gosrc(o.type), "shape": sexpr(o.type), "go": "; ".join(godecl(i, u) for i, u in o.decls)} for o in grp]}
    return case


def huge_offset_probe(ctx):
    """A focus displaced by 4 GiB and more inside its container (go/harness/hugeoffset): offsets are uintptr, an optic must
    address exactly the field whatever the displacement.  The container is one fresh heap object (virtual address space
    only).  Direct oracle only.  If the process cannot get the address space (resource limits), the probe is recorded as
    not run — never an alarm."""
    import vlib
    binp, err = ctx.harness("hugeoffset", {"github.com/fogfish/golem/hseq": vlib.REPO + "/hseq", "github.com/fogfish/golem/optics": vlib.REPO + "/optics"})
    if binp is None:
        ctx.broken.append({"kind": "correspondence", "detail": "huge-offset harness does not build against hseq/optics", "log": err})
        return
    try:
        rc, out, e = ctx.run_harness(binp, [], [""], timeout=120)
    except Exception as ex:  # pragma: no cover
        ctx.cov["huge_offset"] = "not run: %r" % (ex,)
        return
    if not any(l.startswith("offsets ") for l in out):
        ctx.cov["huge_offset"] = "not run (no address space?): rc=%s %s" % (rc, (e or "")[-200:])
        return
    fails = [l for l in out if l.startswith("FAIL")]
    for l in out:
        if l.startswith("ok ") or l.startswith("FAIL"):
            ctx.count("huge-offset|" + l.split(" ", 1)[1][:60], nontrivial=True)
    ctx.hist("huge_offset_probes", len([l for l in out if l.startswith(("ok ", "FAIL"))]))
    ctx.cov["huge_offset"] = out[0]
    if fails:
        ctx.violations.append(vlib.Violation("impl", "a lens/reflector on a field displaced by more than 4 GiB inside its container does not read/write exactly that field: " + fails[0][5:],
                                             case="go/harness/hugeoffset: struct{ Pad [1<<32+24]byte; X int64; Inner{P [1<<31]byte; V int32; W uint64}; Y uint16 } — " + out[0],
                                             expected="every probe ok", got=fails, key={"class": "huge-offset"}))
