"""C02 — lens derivation yields a correctly typed in-bounds focus or panics.
Tie: H (Model/Lens + Model/Hseq vs the real hseq/optics on the negative stream: every request runs
under recover, accepted derivations print the focus window taken from hseq's entries, memory is
never touched) + direct oracle (Python: what the property demands for the request, from its own
flatten of the shape and the compiler's offsets)."""
import vlib
from checks import shapes as S


def demanded(sh, meta):
    """What C02 demands of a derivation request: ("panic", why) or ("ok", entries) or ("defect", class, entries).
    The only defect class left is a focus inside a pointer-embedded struct; an accepted pointer container is a plain violation."""
    T, types, names = meta["T"], meta["types"], meta["names"]
    n = len(types)
    if T == "other":
        return ("panic", "a container type parameter that is neither a struct nor a pointer to one")
    if T == "ptr":
        return ("panic", "a container type parameter that is a pointer to a struct, not a struct")
    if names:
        if len(names) < n:
            return ("panic", "too few names")
        es = [sh.first_by_key(nm) for nm in names[:n]]
        if any(e is None for e in es):
            return ("panic", "unknown name")
    else:
        es = [sh.first_by_type(t) for t in types]
        if any(e is None for e in es):
            return ("panic", "a type no field has")
    if any(e["type"] != t for e, t in zip(es, types)):
        return ("panic", "a name whose field has another type")
    if any(not e["value"] for e in es):
        return ("defect", "ptr-embedded-focus", es)
    return ("ok", es)


def wrote(sh, meta, wins, truth):
    """Readable account of the write probes of a wrongly accepted derivation: per position the field whose bytes the
    returned optic wrote (from the compiler's offsets) next to the name that was given there."""
    out = []
    for i, w in enumerate(wins):
        name = meta["names"][i] if i < len(meta["names"]) else None
        given = "no name given" if name is None else "name %r (%s)" % (name, "unknown" if sh.first_by_key(name) is None else "field " + sel(sh, sh.first_by_key(name)["path"]))
        hit = [sel(sh, p) for p, (off, sz, _) in truth.items() if sz > 0 and w == "%d,%d" % (off, off + sz)]
        out.append("#%d %s -> bytes %s%s" % (i + 1, given, w, " = field " + "/".join(hit[:3]) if hit else ""))
    return out


def sel(sh, path):
    return next((s for (p, s, _) in sh.paths if p == tuple(path)), str(path))


def run(ctx):
    ctx.cov["rule"] = ("cases = derivation requests (ForProductN/ForSpectrumN by name / by type: controls, unknown or shadowed names, wrong focus types of the same kind, "
                       "absent types, too few names, T=*S, non-struct T, foci inside pointer-embedded structs; one unknown name at every position of a 2..9-name derivation whose focus type there is the "
                       "type of the container's first field; 1..N-1 explicit names for N foci whose types all occur in the shape, named fields preferably not the first of their type) "
                       "and Reflector Gett/Putt calls with foreign dynamic values; an accepted derivation of the last two classes is probed (Put on a guard-wrapped value, written window reported); "
                       "non-trivial = every request except the positive controls; distinct by (shape s-expression, request)" + S.TWIN_RULE +
                       "; on such a container additionally: derivations asked for with a (name, focus type) pair / a focus type that only ANOTHER member of its group has (must panic), "
                       "and with the fields both have in common (control: the window must be this container's)")
    ctx.assumptions += [S.TWIN_ASSUMPTION, "gc/amd64 struct layout and reflect's field description are modelled (Model/Layout), validated against the compiler on every generated shape",
                        "type identity (String()== && AssignableTo) is equality of GoType descriptions whose defined types carry import path + name; a fraction of the shapes lists distinct types that reflect prints identically (same-named types of harness/pa/v1, pb/v1, pc/v1 and composites of them; no interface/channel kinds) - see distribution.colliding_types",
                        "variadic attr has cap == len (explicit arguments), so attr[0:N] panics exactly when fewer than N names are given",
                        "the model is faithful to today's code: derive_ok_or_panic holds only as _partial; the remaining defect class (focus inside a pointer-embedded struct) is proved present in the model and reported as known finding when reproduced; a pointer container must panic (F6 repaired)"]
    S.apply_replay(ctx)
    S.regenerate(ctx)
    ctx.prove()
    S.huge_offset_probe(ctx)
    if ctx.thorough():
        ctx.leanchecker()
    sizes = [120] * 10 if ctx.thorough() else [60, 60]
    if ctx.broken:
        sizes = sizes * 2
    batches = S.run_batches(ctx, "C02", {"layout", "negative"}, sizes, ptr_embed=True, seed_tag=2)
    for b in batches:
        if b.error:
            continue
        S.diff_batch(ctx, b, "Model/Lens derivation outcome + window vs real hseq/optics")
        for req, res in b.caps:
            sid = int(req.split()[1])
            ctx.count(S.sexpr(b.by_sid[sid].type) + "|" + req)
            ctx.hist("request", "short-names-spare-capacity")
            if not res.startswith("panic"):
                ctx.violations.append(vlib.Violation("impl", "too few names silently accepted: a 1-element names slice with spare capacity is re-sliced to attr[0:2], the hidden element is used as the second name",
                                                     case=S.case_of(b, req, {"sid": sid}), expected="panic at derivation time", got=res, key={"class": "short-names-spare-capacity"}))
        truth, size = {}, 0
        for (req, meta), res in zip(b.requests, b.impl):
            sh = b.by_sid[meta["sid"]]
            k = meta["kind"]
            if k == "shape":
                truth, size = {}, int(res.split()[0])
                S.shape_hist(ctx, sh)
            elif k == "offs":
                truth[meta["path"]] = tuple(map(int, res.split()))
            elif k == "lensd":
                d = demanded(sh, meta)
                ctx.count(S.sexpr(sh.type) + "|" + req, nontrivial=not meta["why"].startswith("control"))
                ctx.hist("request", meta["why"])
                ctx.hist("arity", len(meta["types"]))
                ctx.hist("outcome", res.split()[0] if res.startswith("panic") else "accepted")
                ctx.hist("demanded", d[0] if d[0] != "defect" else d[1])
                if sh.twins:
                    ctx.hist("same_printing_container_derivation", "container unfolded first" if sh.twin_pos == 0 else "after a same-printing container (%s)" % sh.twin_relation)
                if meta["why"] == "unknown-name-first-type":
                    ctx.hist("unknown_name_position_of_n", "%d/%d" % (meta["pos"] + 1, len(meta["types"])))
                elif meta["why"] == "short-names-by-type-ok":
                    ctx.hist("short_names_given_of_n", "%d/%d" % (len(meta["names"]), len(meta["types"])))
                    ctx.hist("short_names_named_fields_not_first_of_their_type", meta["named_not_first_of_type"])
                if res.startswith("panic"):
                    continue    # a panic at derivation time never contradicts C02 (a wrongly refused request shows up in the model diff and in C01)
                wins = res.split()[1:]
                if d[0] == "panic":
                    case, what = S.case_of(b, req, meta), "derivation silently accepted although the request has %s" % d[1]
                    probe = b.chk.get(req)      # written windows of the accepted optics (new request classes only)
                    if probe is not None:
                        case["accepted_optics_write"], case["fields"] = probe, wrote(sh, meta, probe.split()[1:], truth)
                        what += "; the returned optics write " + "; ".join(case["fields"])
                    ctx.violations.append(vlib.Violation("impl", what[:600], case=case,
                                                         expected="panic at derivation time", got=res + (" | " + probe if probe else ""), key={"class": "accepted-" + meta["why"]}))
                elif d[0] == "defect":
                    e = next(x for x in d[2] if not x["value"])
                    w = wins[d[2].index(e)]
                    how = "zero-size"
                    if w != "-":
                        lo, hi = map(int, w.split(","))
                        how = "beyond the struct" if hi > size else "over other fields / the pointer bits of the struct"
                    ctx.hist("ptr_embedded_window", how)
                    ctx.violations.append(vlib.Violation("impl", "focus inside a pointer-embedded struct accepted; the optic addresses the container at %s (%s), not the field (struct size %d)" % (w, how, size),
                                                         case=S.case_of(b, req, meta), expected="panic at derivation time (or a focus inside the pointed-to struct)", got=res,
                                                         key={"class": "ptr-embedded-focus"}))
                else:
                    # accepted and demanded ok: the window must be the field's real byte range, inside the struct
                    for e, t, w in zip(d[1], meta["types"], wins):
                        off, sz, _ = truth[e["path"]]
                        want = "-" if sz == 0 else "%d,%d" % (off, off + sz)
                        if w != want or off + sz > size:
                            ctx.violations.append(vlib.Violation("impl", "accepted optic does not address the requested field's bytes", case=S.case_of(b, req, meta),
                                                                 expected=want, got=w, key={"class": "window"}))
                    if len(ctx.cov["samples"]) < 2:
                        ctx.sample({"request": req, "impl": res})
            elif k == "refl":
                ctx.count(S.sexpr(sh.type) + "|" + req, nontrivial=not meta["ok"])
                ctx.hist("reflector_dyn", meta["dyn"].split(" ")[0].strip("("))
                if meta["ok"]:
                    if res != "ok":
                        ctx.violations.append(vlib.Violation("impl", "Reflector refuses a pointer to its own container type", case=S.case_of(b, req, meta),
                                                             expected="ok", got=res, key={"class": "reflector-refuses-own"}))
                else:
                    if not res.startswith("panic"):
                        ctx.violations.append(vlib.Violation("impl", "Reflector accepts a value that is not a pointer to its container type", case=S.case_of(b, req, meta),
                                                             expected="panic", got=res, key={"class": "reflector-accepts-foreign"}))
                    v = b.chk.get(req)
                    if v is not None and v != "ok":
                        ctx.violations.append(vlib.Violation("impl", "rejected Reflector call modified memory", case=S.case_of(b, req, meta),
                                                             expected="memory unchanged", got=v, key={"class": "reflector-modifies"}))
                    elif len(ctx.cov["samples"]) < 4 and meta["op"] == "putt":
                        ctx.sample({"request": req, "impl": res})
