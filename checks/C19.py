"""C19 — list.Seq and slice.Seq implement the same persistent sequence ADT.
Tie: H.  Theorems of Props/C19 over Model/ISeq (cells with cached len; slices over a heap of backing
arrays with an in-place-writing `append`) + differential correspondence: register scripts are run on
the real list.Trait / slice.Trait / seq.Foldable (internal/seq staged from vlib.REPO at run time) and
on the Lean interpreters, and (direct oracle) on plain Python lists; the harness re-reads every live
register and every slice handed to New after every operation (persistence)."""
import itertools, json, os, shutil
import vlib

P = 1000003
STAGED_GOMOD = """module github.com/fogfish/golem

go 1.20

require github.com/fogfish/golem/pure v0.0.0
replace github.com/fogfish/golem/pure => %s
"""


# ------------------------------------------------------------------ reference semantics (Python lists)
def show(xs):
    return "[%s]/%d" % (",".join(map(str, xs)), len(xs))


def py_run(script):
    """Expected observation list of a script line on a persistent sequence ADT."""
    regs, obs = [], []
    for w in script.split():
        p = w.split(":")
        k = p[0]
        if k == "N":
            xs = [int(v) for v in p[1].split(",")] if p[1] else []
            regs.append(xs)
            obs.append(show(xs))
            continue
        r = int(p[-1])
        if r >= len(regs):
            obs.append("bad-reg")
            break
        s = regs[r]
        if k == "C":
            regs.append([int(p[1])] + s)
            obs.append(show(regs[-1]))
        elif k == "T":
            if not s:
                obs.append("panic")
                break
            regs.append(s[1:])
            obs.append(show(regs[-1]))
        elif k == "H":
            if not s:
                obs.append("panic")
                break
            obs.append("v%d" % s[0])
        elif k == "L":
            obs.append("n%d" % len(s))
        elif k == "E":
            obs.append("true" if not s else "false")
        elif k == "F":
            x = 7
            for a in s:
                x = (x * 31 + a) % P
            obs.append("v%d" % x)
    return " ".join(obs)


# ------------------------------------------------------------------ generators
def enum_scripts(maxlen):
    """Every script of length <= maxlen over a small alphabet with valid register references
    (Head/Tail of an empty register included: the script then ends in `panic`)."""
    news = ["N:", "N:1", "N:2,3"]
    out = []

    def rec(prefix, nregs, stopped):
        if prefix:
            out.append(" ".join(prefix))
        if len(prefix) == maxlen or stopped:
            return
        for n in news:
            rec(prefix + [n], nregs + 1, False)
        for r in range(nregs):
            rec(prefix + ["C:4:%d" % r], nregs + 1, False)
            rec(prefix + ["T:%d" % r], nregs + 1, False)
            for k in "HLEF":
                rec(prefix + ["%s:%d" % (k, r)], nregs, False)

    rec([], 0, False)
    # drop scripts that continue after a panic (they are equal to their prefix up to the panic)
    keep = []
    for s in out:
        exp = py_run(s).split()
        if len(exp) == len(s.split()):
            keep.append(s)
    return keep


def rand_script(rng, maxlen, guarded=True):
    n = rng.randint(1, maxlen)
    regs, ops = [], []
    for _ in range(n):
        kinds = ["N"] if not regs else rng.choice([["N"], ["C"] * 3 + ["T"] * 3 + ["H", "L", "E", "F", "F"]])
        k = rng.choice(kinds)
        if k == "N":
            xs = [rng.randrange(0, 1000) for _ in range(rng.choice([0, 0, 1, 1, 2, 3, 5, 8, 9, 13, 17, 33]))]
            regs.append(xs)
            ops.append("N:" + ",".join(map(str, xs)))
            continue
        # prefer recent registers (long derivation chains), sometimes any
        r = len(regs) - 1 - min(rng.randrange(0, 4), len(regs) - 1) if rng.random() < 0.6 else rng.randrange(len(regs))
        if k in "TH" and not regs[r]:
            if guarded:
                ne = [i for i, s in enumerate(regs) if s]
                if not ne:
                    k = "C"
                else:
                    r = rng.choice(ne)
            else:
                ops.append("%s:%d" % (k, r))
                break
        if k == "C":
            x = rng.randrange(0, 1000)
            regs.append([x] + regs[r])
            ops.append("C:%d:%d" % (x, r))
        elif k == "T":
            regs.append(regs[r][1:])
            ops.append("T:%d" % r)
        else:
            ops.append("%s:%d" % (k, r))
    return " ".join(ops)


def malformed(rng, n):
    out = ["N: H:0", "N: T:0", "N:5 T:0 T:1", "N:5 T:0 H:1", "N: C:1:0 T:1 T:2", "N:1,2 T:0 T:1 T:2", "N: F:0 E:0 L:0 H:0"]
    while len(out) < n:
        s = rand_script(rng, 25, guarded=False)
        if py_run(s).endswith("panic"):
            out.append(s)
    return out


OPNAME = {"N": "New", "C": "Cons", "T": "Tail", "H": "Head", "L": "Length", "E": "IsEmpty", "F": "Fold"}


def run(ctx):
    ctx.cov["rule"] = ("case = one register script (New/Cons/Tail define registers; Head/Length/IsEmpty/Fold observe) run on list.Trait and slice.Trait; "
                       "non-trivial = at least 3 operations, at least one Cons or Tail, and a constructed sequence with >= 2 elements; distinct by script text")
    ctx.assumptions += [
        "list cells are modelled as immutable data (list.go only creates cells by composite literals, never assigns to one); the slice heap model lets `append` write in place",
        "Go's append growth policy is an arbitrary function `slack` in the theorems; capacity is not observed by the harness",
        "Go int is modelled as an unbounded Int (the cached len cannot overflow for reachable sizes)",
    ]
    ctx.prove()
    if ctx.thorough():
        ctx.leanchecker()

    staged = os.path.join(ctx.tmp, "h-iseq", "staged")

    def stage(dst):
        sd = os.path.join(dst, "staged")
        os.makedirs(sd)
        open(os.path.join(sd, "go.mod"), "w").write(STAGED_GOMOD % os.path.join(vlib.REPO, "pure"))
        src = os.path.join(vlib.REPO, "internal/seq")
        for root, dirs, files in os.walk(src):
            dirs[:] = [d for d in dirs if d != "seqtest"]
            rel = os.path.relpath(root, src)
            os.makedirs(os.path.join(sd, "seq", rel), exist_ok=True)
            for f in files:
                if f.endswith(".go") and not f.endswith("_test.go"):
                    shutil.copy(os.path.join(root, f), os.path.join(sd, "seq", rel, f))

    binp, err = ctx.harness("iseq", {"github.com/fogfish/golem": staged,
                                     "github.com/fogfish/golem/pure": os.path.join(vlib.REPO, "pure")}, stage=stage)
    if binp is None:
        ctx.broken.append({"kind": "correspondence", "detail": "harness does not build against internal/seq", "log": err})
        return

    scale = 10 if ctx.broken else 1  # failing-input search on an enlarged budget
    cases = enum_scripts(5 if ctx.thorough() else 3)
    n_enum = len(cases)
    n_rand = (20000 if ctx.thorough() else 400) * scale
    cases += [rand_script(ctx.rng, 60) for _ in range(n_rand)]
    bad = malformed(ctx.rng, (300 if ctx.thorough() else 60) * scale)
    cases += bad
    if ctx.replay:
        cases = [json.load(open(ctx.replay))["case"]]
    ctx.cov["distribution"]["stream"] = {"enumerated": n_enum, "random": n_rand, "malformed": len(bad)}

    rc, impl, err = ctx.run_harness(binp, [], cases)
    if len(impl) != len(cases):
        ctx.broken.append({"kind": "correspondence", "detail": "harness produced %d lines for %d cases (rc=%s): %s" % (len(impl), len(cases), rc, err[-800:])})
        if len(impl) < len(cases):
            ctx.violations.append(vlib.Violation("impl", "the real implementation crashed outside a recoverable panic on this script",
                                                 case=cases[len(impl)] if len(impl) < len(cases) else None, expected=py_run(cases[min(len(impl), len(cases) - 1)]), got=err[-300:], key={"impl": "crash"}))
        return
    model = ctx.oracle("C19", cases)
    ctx.diff(cases, impl, model, "Lean interpreters (Model/ISeq) vs real list/slice traits")

    for c, got in zip(cases, impl):
        ops = c.split()
        want = py_run(c)
        nontrivial = len(ops) >= 3 and any(o[0] in "CT" for o in ops) and any(o.startswith("[") and o.count(",") >= 1 for o in want.split())
        ctx.count(c, nontrivial)
        ctx.hist("script_len", min(len(ops), 60) // 10 * 10)
        for o in ops:
            ctx.hist("op", OPNAME[o[0]])
        ctx.hist("ends_in_panic", want.endswith("panic"))
        parts = got.split(" | ")
        if len(parts) != 3:
            ctx.violations.append(vlib.Violation("impl", "unreadable harness line", case=c, expected=want, got=got, key={"impl": "?"}))
            continue
        for name, g in (("list", parts[0]), ("slice", parts[1])):
            if g != want:
                go_, wo = g.split(), want.split()
                k = next((i for i in range(min(len(go_), len(wo))) if go_[i] != wo[i]), min(len(go_), len(wo)))
                opk = ops[k] if k < len(ops) else "?"
                ctx.violations.append(vlib.Violation(
                    "impl", "%s.Trait: observation #%d (%s, %s) differs from the sequence ADT (Head(Cons)=x / Tail(Cons)=s / Length / IsEmpty / Fold = left fold from Empty; sequences are read out with IsEmpty/Head/Tail)"
                    % (name, k, opk, OPNAME.get(opk[0], "?")), case=c, expected=want, got=g, key={"impl": name, "op": opk[0]}))
                break
        else:
            if parts[0] != parts[1]:
                ctx.violations.append(vlib.Violation("impl", "list and slice implementations disagree on a script", case=c, expected=parts[0], got=parts[1], key={"impl": "both"}))
            elif parts[2] != "persist=ok":
                ctx.violations.append(vlib.Violation("impl", "an operation changed a sequence it was given (older register or the caller's slice passed to New re-read differently): " + parts[2],
                                                     case=c, expected="persist=ok", got=parts[2], key={"impl": parts[2].split(":")[1] if ":" in parts[2] else "?", "op": "persist"}))
            elif len(ctx.cov["samples"]) < 5 and 6 <= len(ops) <= 14 and nontrivial:
                ctx.sample({"case": c, "impl": got, "expected": want})
