"""C19 — list.Seq and slice.Seq implement the same persistent sequence ADT.
Tie: H.  Theorems of Props/C19 over Model/ISeq (cells with cached len; slices over a heap of backing
arrays with an in-place-writing `append`) + differential correspondence: register scripts are run on
the real list.Trait / slice.Trait / seq.Foldable (internal/seq staged from vlib.REPO at run time) and
on the Lean interpreters, and (direct oracle) on plain Python lists; the harness re-reads every live
register and every slice handed to New after every operation (persistence).
Other element types: the harness interpreter is generic in the element type (codec inj/prj); every script is
re-run in the same process at E = string, E = a non-empty interface type and E = any (0 is the NIL interface
value, Fold through the monoid transported by the codec); the projected observations must be those of the int
run (field `ty[...]` of the harness line; the Lean model is compared on the int part only)."""
import itertools, json, os, re, shutil
import vlib

P = 1000003
STAGED_GOMOD = """module github.com/fogfish/golem

go 1.20

require github.com/fogfish/golem/pure v0.0.0
replace github.com/fogfish/golem/pure => %s
"""


# ------------------------------------------------------------------ reference semantics (Python lists)
def show(xs):
    return "[%s]/%d" % (",".join(map(str, xs)), len(xs))


def py_run(script):
    """Expected observation list of a script line on a persistent sequence ADT."""
    regs, obs = [], []
    for w in script.split():
        p = w.split(":")
        k = p[0]
        if k == "N":
            xs = [int(v) for v in p[1].split(",")] if p[1] else []
            regs.append(xs)
            obs.append(show(xs))
            continue
        r = int(p[-1])
        if r >= len(regs):
            obs.append("bad-reg")
            break
        s = regs[r]
        if k == "C":
            regs.append([int(p[1])] + s)
            obs.append(show(regs[-1]))
        elif k == "T":
            if not s:
                obs.append("panic")
                break
            regs.append(s[1:])
            obs.append(show(regs[-1]))
        elif k == "H":
            if not s:
                obs.append("panic")
                break
            obs.append("v%d" % s[0])
        elif k == "L":
            obs.append("n%d" % len(s))
        elif k == "E":
            obs.append("true" if not s else "false")
        elif k == "F":
            x = 7
            for a in s:
                x = (x * 31 + a) % P
            obs.append("v%d" % x)
    return " ".join(obs)


# ------------------------------------------------------------------ generators
NEWS = ["N:", "N:1", "N:2,3"]
NEWS0 = ["N:", "N:0", "N:5,0,3"]  # the zero alphabet: 0 is the nil interface value at the interface element types


def enum_scripts(maxlen, news=NEWS, cons=4):
    """Every script of length <= maxlen over a small alphabet with valid register references
    (Head/Tail of an empty register included: the script then ends in `panic`)."""
    out = []

    def rec(prefix, nregs, stopped):
        if prefix:
            out.append(" ".join(prefix))
        if len(prefix) == maxlen or stopped:
            return
        for n in news:
            rec(prefix + [n], nregs + 1, False)
        for r in range(nregs):
            rec(prefix + ["C:%d:%d" % (cons, r)], nregs + 1, False)
            rec(prefix + ["T:%d" % r], nregs + 1, False)
            for k in "HLEF":
                rec(prefix + ["%s:%d" % (k, r)], nregs, False)

    rec([], 0, False)
    # drop scripts that continue after a panic (they are equal to their prefix up to the panic)
    keep = []
    for s in out:
        exp = py_run(s).split()
        if len(exp) == len(s.split()):
            keep.append(s)
    return keep


def rand_script(rng, maxlen, guarded=True):
    n = rng.randint(1, maxlen)
    regs, ops = [], []
    # density of the value 0 (the zero value of int/"0"/the NIL interface value at the re-typed runs), per script
    zp = rng.choice([0.05, 0.3, 0.3, 0.6])

    def val():
        return 0 if rng.random() < zp else rng.randrange(0, 1000)
    for _ in range(n):
        kinds = ["N"] if not regs else rng.choice([["N"], ["C"] * 3 + ["T"] * 3 + ["H", "L", "E", "F", "F"]])
        k = rng.choice(kinds)
        if k == "N":
            xs = [val() for _ in range(rng.choice([0, 0, 1, 1, 2, 3, 5, 8, 9, 13, 17, 33]))]
            regs.append(xs)
            ops.append("N:" + ",".join(map(str, xs)))
            continue
        # prefer recent registers (long derivation chains), sometimes any
        r = len(regs) - 1 - min(rng.randrange(0, 4), len(regs) - 1) if rng.random() < 0.6 else rng.randrange(len(regs))
        if k in "TH" and not regs[r]:
            if guarded:
                ne = [i for i, s in enumerate(regs) if s]
                if not ne:
                    k = "C"
                else:
                    r = rng.choice(ne)
            else:
                ops.append("%s:%d" % (k, r))
                break
        if k == "C":
            x = val()
            regs.append([x] + regs[r])
            ops.append("C:%d:%d" % (x, r))
        elif k == "T":
            regs.append(regs[r][1:])
            ops.append("T:%d" % r)
        else:
            ops.append("%s:%d" % (k, r))
    return " ".join(ops)


def malformed(rng, n):
    out = ["N: H:0", "N: T:0", "N:5 T:0 T:1", "N:5 T:0 H:1", "N: C:1:0 T:1 T:2", "N:1,2 T:0 T:1 T:2", "N: F:0 E:0 L:0 H:0"]
    while len(out) < n:
        s = rand_script(rng, 25, guarded=False)
        if py_run(s).endswith("panic"):
            out.append(s)
    return out


TYFIELD = re.compile(r"^ty\[([a-z,]+)\]=(.*)$")
TYDESC = {"string": "string (elements written with strconv)",
          "iface": "`elem` (a non-empty interface type: 0 is the nil interface value, every other element a boxed int)",
          "any": "`any` (0 is the nil interface value, every other element a boxed int64)"}


def zero_places(want):
    """Where the value 0 sits in the sequences a script constructs (expected observations)."""
    out = set()
    for o in want.split():
        if o.startswith("[") and not o.startswith("[]"):
            xs = o[1:o.index("]")].split(",")
            if xs[0] == "0":
                out.add("head")
            if xs[-1] == "0":
                out.add("end")
            if "0" in xs[1:-1]:
                out.add("middle")
    return out


OPNAME = {"N": "New", "C": "Cons", "T": "Tail", "H": "Head", "L": "Length", "E": "IsEmpty", "F": "Fold"}


def ty_violation(c, ops, want, order, field):
    """The int run of both implementations is the ADT's; a re-typed run of the same script is not."""
    ents = [e.split(":", 3) for e in field.split(";")]
    t, name, k, rest = ents[0]
    other = "slice" if name == "list" else "list"
    both = any(e[0] == t and e[1] == other for e in ents)
    where = "(on %s.Trait too)" % other if both else "and from the %s implementation at the same element type" % other
    ran = "types run in the order %s" % ",".join(order)
    wo = want.split()
    if k == "persist":
        return vlib.Violation("impl", "the same script over element type %s: %s.Trait: an operation changed a sequence it was given, which it does not at element type int %s; %s: %s"
                              % (TYDESC.get(t, t), name, where, ran, rest), case=c, expected="persist=ok", got="%s: %s" % (t, rest),
                              key={"impl": name, "op": "persist", "ty": t})
    k = int(k)
    g = rest.split(":")[0]
    opk = ops[k] if k < len(ops) else "?"
    return vlib.Violation("impl", "the same script over element type %s: %s.Trait: observation #%d (%s, %s) differs from the sequence ADT %s, while at element type int it is as expected; %s"
                          % (TYDESC.get(t, t), name, k, opk, OPNAME.get(opk[0], "?"), where, ran), case=c,
                          expected=wo[k] if k < len(wo) else "<none>", got="%s/%s: %s   (all differing runs: %s)" % (t, name, g, field),
                          key={"impl": name, "op": opk[0], "ty": t})


def run(ctx):
    ctx.cov["rule"] = ("case = one register script (New/Cons/Tail define registers; Head/Length/IsEmpty/Fold observe) run on list.Trait and slice.Trait; "
                       "non-trivial = at least 3 operations, at least one Cons or Tail, and a constructed sequence with >= 2 elements; distinct by script text. "
                       "Every script is also run (same process, int first or int last by a hash of the script) on both implementations at element types string, a non-empty interface type "
                       "and any (codec inj/prj; 0 is the nil interface value; Fold through the transported monoid) and must give the same projected observations as at int "
                       "(direct oracle only: the Lean model is compared with the int run); `retyped_runs` counts those runs, `zero_at` where the value 0 sits in the constructed sequences")
    ctx.assumptions += [
        "list cells are modelled as immutable data (list.go only creates cells by composite literals, never assigns to one); the slice heap model lets `append` write in place",
        "Go's append growth policy is an arbitrary function `slack` in the theorems; capacity is not observed by the harness",
        "Go int is modelled as an unbounded Int (the cached len cannot overflow for reachable sizes)",
    ]
    ctx.prove()
    if ctx.thorough():
        ctx.leanchecker()

    staged = os.path.join(ctx.tmp, "h-iseq", "staged")

    def stage(dst):
        sd = os.path.join(dst, "staged")
        os.makedirs(sd)
        open(os.path.join(sd, "go.mod"), "w").write(STAGED_GOMOD % os.path.join(vlib.REPO, "pure"))
        src = os.path.join(vlib.REPO, "internal/seq")
        for root, dirs, files in os.walk(src):
            dirs[:] = [d for d in dirs if d != "seqtest"]
            rel = os.path.relpath(root, src)
            os.makedirs(os.path.join(sd, "seq", rel), exist_ok=True)
            for f in files:
                if f.endswith(".go") and not f.endswith("_test.go"):
                    shutil.copy(os.path.join(root, f), os.path.join(sd, "seq", rel, f))

    binp, err = ctx.harness("iseq", {"github.com/fogfish/golem": staged,
                                     "github.com/fogfish/golem/pure": os.path.join(vlib.REPO, "pure")}, stage=stage)
    if binp is None:
        ctx.broken.append({"kind": "correspondence", "detail": "harness does not build against internal/seq", "log": err})
        return

    scale = 10 if ctx.broken else 1  # failing-input search on an enlarged budget
    cases = enum_scripts(5 if ctx.thorough() else 3)
    seen = set(cases)
    # the same enumeration over the zero alphabet (New(0), New(5,0,3), Cons(0, _)): zero values / nil interface elements
    cases += [c for c in enum_scripts(4 if ctx.thorough() else 3, NEWS0, 0) if c not in seen]
    n_enum = len(cases)
    n_rand = (20000 if ctx.thorough() else 400) * scale
    cases += [rand_script(ctx.rng, 60) for _ in range(n_rand)]
    # long sequences (an implementation that treats a sequence differently beyond some length — blocks, batches, a
    # parallel fold — shows only there): New of 8 192 … 70 000 elements, folded, extended, shortened, folded again
    longs = []
    for n in ([8192, 10000] if not ctx.thorough() else [4096, 8191, 8192, 8193, 12289, 20000, 70000]):
        xs = [ctx.rng.randrange(0, 1000) for _ in range(n)]
        longs.append("N:%s F:0 L:0 C:%d:0 F:1 T:1 T:2 F:3 H:3" % (",".join(map(str, xs)), ctx.rng.randrange(1, 1000)))
    cases += longs
    bad = malformed(ctx.rng, (300 if ctx.thorough() else 60) * scale)
    cases += bad
    if ctx.replay:
        cases = [json.load(open(ctx.replay))["case"]]
    ctx.cov["distribution"]["stream"] = {"enumerated": n_enum, "random": n_rand, "long": len(longs), "malformed": len(bad)}

    rc, impl, err = ctx.run_harness(binp, [], cases)
    if len(impl) != len(cases):
        ctx.broken.append({"kind": "correspondence", "detail": "harness produced %d lines for %d cases (rc=%s): %s" % (len(impl), len(cases), rc, err[-800:])})
        if len(impl) < len(cases):
            ctx.violations.append(vlib.Violation("impl", "the real implementation crashed outside a recoverable panic on this script",
                                                 case=cases[len(impl)] if len(impl) < len(cases) else None, expected=py_run(cases[min(len(impl), len(cases) - 1)]), got=err[-300:], key={"impl": "crash"}))
        return
    # the last field of a harness line (re-typed runs) is judged by the direct oracle below; the model is
    # compared with the int part
    impl_int = [" | ".join(l.split(" | ")[:3]) if l.count(" | ") == 3 else l for l in impl]
    model = ctx.oracle("C19", cases)
    ctx.diff(cases, impl_int, model, "Lean interpreters (Model/ISeq) vs real list/slice traits")

    for c, got in zip(cases, impl):
        ops = c.split()
        want = py_run(c)
        nontrivial = len(ops) >= 3 and any(o[0] in "CT" for o in ops) and any(o.startswith("[") and o.count(",") >= 1 for o in want.split())
        ctx.count(c, nontrivial)
        ctx.hist("script_len", min(len(ops), 60) // 10 * 10)
        for o in ops:
            ctx.hist("op", OPNAME[o[0]])
        ctx.hist("ends_in_panic", want.endswith("panic"))
        for z in zero_places(want) or {"none"}:
            ctx.hist("zero_at", z)
        parts = got.split(" | ")
        tyf = TYFIELD.match(parts[3]) if len(parts) == 4 else None
        if tyf is None:
            ctx.violations.append(vlib.Violation("impl", "unreadable harness line", case=c, expected=want, got=got, key={"impl": "?"}))
            continue
        order = tyf.group(1).split(",")
        ctx.hist("type_order", "int first" if order[0] == "int" else "int last")
        for t in order:
            if t != "int":
                ctx.hist("retyped_runs", t + "/list")
                ctx.hist("retyped_runs", t + "/slice")
        for name, g in (("list", parts[0]), ("slice", parts[1])):
            if g != want:
                go_, wo = g.split(), want.split()
                k = next((i for i in range(min(len(go_), len(wo))) if go_[i] != wo[i]), min(len(go_), len(wo)))
                opk = ops[k] if k < len(ops) else "?"
                ctx.violations.append(vlib.Violation(
                    "impl", "%s.Trait: observation #%d (%s, %s) differs from the sequence ADT (Head(Cons)=x / Tail(Cons)=s / Length / IsEmpty / Fold = left fold from Empty; sequences are read out with IsEmpty/Head/Tail)"
                    % (name, k, opk, OPNAME.get(opk[0], "?")), case=c, expected=want, got=g, key={"impl": name, "op": opk[0]}))
                break
        else:
            if parts[0] != parts[1]:
                ctx.violations.append(vlib.Violation("impl", "list and slice implementations disagree on a script", case=c, expected=parts[0], got=parts[1], key={"impl": "both"}))
            elif parts[2] != "persist=ok":
                ctx.violations.append(vlib.Violation("impl", "an operation changed a sequence it was given (older register or the caller's slice passed to New re-read differently): " + parts[2],
                                                     case=c, expected="persist=ok", got=parts[2], key={"impl": parts[2].split(":")[1] if ":" in parts[2] else "?", "op": "persist"}))
            elif tyf.group(2) != "ok":
                ctx.violations.append(ty_violation(c, ops, want, order, tyf.group(2)))
            elif len(ctx.cov["samples"]) < 5 and 6 <= len(ops) <= 14 and nontrivial:
                ctx.sample({"case": c, "impl": got, "expected": want})
