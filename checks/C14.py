"""C14 — iterator combinators over seq.Seq have exactly list semantics, at any nesting.

Tie: H.  Lean model `Golem.Model.Iter` (statement-by-statement mirror of trait/seq/seq.go), theorems in
`Props/C14.lean` (`eval_eq_denote`, `forEach_stops_at_first_error`, per-Next()/per-constructor lemmas).
Correspondence: expression-tree case lines are interpreted by go/harness/iter with the real combinators
(drained with the documented loop and with seq.ForEach) and by `oracle C14` with the model's `eval` /
`evalForEach`; outputs are diffed.  Direct oracle: this file evaluates the list semantics (take-while,
drop-while, filter, map, append, flat-map) of every case itself and compares the implementation to it;
the harness also verifies that no source slice was written to.

Other element types and callback arguments (checks/iterx.py, go/harness/iter/{types,ref}.go): the harness builders are
generic in the element type; every case is evaluated, in the same process and in an order that changes from case to
case, at int, string and an interface type whose 0 is the nil interface value, and all results must agree (direct
oracle only: the model is compared on the int part).  Every callback logs its arguments; they must be among the calls
an eager evaluation with the list functions makes.

case line:  <errAt> <expr>     (grammar: see lean/Golem/Driver/C14.lean)
"""
import json
import vlib
from checks import iterx

UNARY = ("TW", "DW", "FI", "MP")


# ------------------------------------------------------------------ syntax trees
# node = (op, fn, terms, kids); term = int | (i, c)

def term_tok(t):
    return str(t) if isinstance(t, int) else "$%d:%d" % t


def toks(n):
    op, fn, terms, kids = n
    if op == "F":
        return ["F", term_tok(terms[0])]
    if op == "S":
        return ["S", str(len(terms))] + [term_tok(t) for t in terms]
    if op in UNARY:
        return [op, fn] + toks(kids[0])
    return [op] + toks(kids[0]) + toks(kids[1])


def parse(ts, pos=0):
    op = ts[pos]
    if op == "F":
        return ("F", None, [parse_term(ts[pos + 1])], []), pos + 2
    if op == "S":
        n = int(ts[pos + 1])
        return ("S", None, [parse_term(t) for t in ts[pos + 2:pos + 2 + n]], []), pos + 2 + n
    if op in UNARY:
        k, p = parse(ts, pos + 2)
        return (op, ts[pos + 1], [], [k]), p
    if op in ("PL", "JN"):
        a, p = parse(ts, pos + 1)
        b, p = parse(ts, p)
        return (op, None, [], [a, b]), p
    raise ValueError("bad token " + op)


def parse_term(s):
    if s.startswith("$"):
        i, c = s[1:].split(":")
        return (int(i), int(c))
    return int(s)


def tmod(a, b):  # Go's %: truncated
    r = abs(a) % abs(b)
    return -r if a < 0 else r


def env_at(env, i):
    return env[i] if 0 <= i < len(env) else 0


def term_val(t, env):
    return t if isinstance(t, int) else env_at(env, t[0]) + t[1]


def pred(fn, env):
    name, _, k = fn.partition(":")
    k = int(k) if k else None
    return {"lt": lambda v: v < k, "ge": lambda v: v >= k, "even": lambda v: tmod(v, 2) == 0,
            "odd": lambda v: tmod(v, 2) != 0, "T": lambda v: True, "N": lambda v: False,
            "ltv": lambda v: v < env_at(env, k), "nev": lambda v: v != env_at(env, k)}[name]


def mapping(fn, env):
    name, _, k = fn.partition(":")
    k = int(k) if k else None
    return {"inc": lambda v: v + 1, "dbl": lambda v: v * 2, "neg": lambda v: -v, "mod3": lambda v: tmod(v, 3),
            "addv": lambda v: v + env_at(env, k)}[name]


def takewhile(f, l):
    out = []
    for x in l:
        if not f(x):
            break
        out.append(x)
    return out


def dropwhile(f, l):
    i = 0
    while i < len(l) and f(l[i]):
        i += 1
    return l[i:]


def denote(n, env, stats=None):
    """List semantics of an expression (the direct oracle). env: innermost variable first."""
    out = denote1(n, env, stats)
    if stats is not None and 0 in out:
        stats["zero_seen"] = 1           # a 0 somewhere in the expression: the nil interface value at the interface typing
    return out


def denote1(n, env, stats):
    op, fn, terms, kids = n
    if op == "F":
        return [term_val(terms[0], env)]
    if op == "S":
        return [term_val(t, env) for t in terms]
    if op == "TW":
        return takewhile(pred(fn, env), denote(kids[0], env, stats))
    if op == "DW":
        return dropwhile(pred(fn, env), denote(kids[0], env, stats))
    if op == "FI":
        return [x for x in denote(kids[0], env, stats) if pred(fn, env)(x)]
    if op == "MP":
        out = [mapping(fn, env)(x) for x in denote(kids[0], env, stats)]
        if stats is not None and 0 in out:
            stats["map_zero"] = stats.get("map_zero", 0) + 1       # at the interface typing: a mapping returning nil
        return out
    if op == "PL":
        return denote(kids[0], env, stats) + denote(kids[1], env, stats)
    if op == "JN":
        out = []
        for x in denote(kids[0], env, stats):
            r = denote(kids[1], [x] + env, stats)
            if stats is not None:
                stats["join_calls"] += 1
                stats["join_nil"] += 0 if r else 1
            out += r
        return out
    raise ValueError(op)


def depth(n):
    return 1 + max([depth(k) for k in n[3]] or [0])


def ops(n, acc):
    acc[n[0]] = acc.get(n[0], 0) + 1
    for k in n[3]:
        ops(k, acc)
    return acc


def stack(n):
    """(length of the longest chain of unary combinators applied DIRECTLY to each other, the same one twice in a row?)"""
    best, same = 0, False

    def go(m, run):
        nonlocal best, same
        run = run + 1 if m[0] in UNARY else 0
        best = max(best, run)
        for k in m[3]:
            if m[0] in UNARY and k[0] == m[0]:
                same = True
            go(k, run)
    go(n, 0)
    return best, same


def expected(errat, n):
    l = denote(n, [])
    if 0 <= errat < len(l):
        vis, err = l[:errat + 1], "E%d" % errat
    else:
        vis, err = l, "-"
    return "%s|%s|%s" % (" ".join(map(str, l)), " ".join(map(str, vis)), err)


# ------------------------------------------------------------------ generators

SMALL_PREDS = ["lt:2", "lt:3", "even", "odd", "T", "N", "ge:2"]
SMALL_MAPS = ["inc", "dbl"]


def gen_term(rng, envd, small):
    if envd > 0 and rng.random() < 0.55:
        return (rng.randrange(envd), rng.choice([0, 0, 1, -1, 2] if not small else [0, 0, 1]))
    return rng.randrange(0, 5) if small else rng.randrange(-3, 8)


def gen_pred(rng, envd, small):
    if envd > 0 and rng.random() < 0.25:
        return rng.choice(["ltv:%d", "nev:%d"]) % rng.randrange(envd)
    if small:
        return rng.choice(SMALL_PREDS)
    return rng.choice(["lt:%d" % rng.randrange(-1, 7), "ge:%d" % rng.randrange(-1, 7), "even", "odd", "T", "N"])


def gen_map(rng, envd, small):
    if envd > 0 and rng.random() < 0.25:
        return "addv:%d" % rng.randrange(envd)
    return rng.choice(SMALL_MAPS if small else ["inc", "dbl", "neg", "mod3"])


def gen_leaf(rng, envd, maxlen, small):
    if rng.random() < 0.3:
        return ("F", None, [gen_term(rng, envd, small)], [])
    n = rng.choice([0, 1, 1, 2, 3] if maxlen >= 3 else list(range(maxlen + 1)))
    if not small and rng.random() < 0.3:
        n = rng.randrange(0, maxlen + 1)
    return ("S", None, [gen_term(rng, envd, small) for _ in range(n)], [])


def gen(rng, d, envd=0, maxlen=3, small=True):
    """Random expression of depth <= d."""
    if d <= 1 or rng.random() < 0.12:
        return gen_leaf(rng, envd, maxlen, small)
    op = rng.choice(["TW", "DW", "FI", "MP", "PL", "PL", "JN", "JN"])
    if op in ("TW", "DW", "FI"):
        return (op, gen_pred(rng, envd, small), [], [gen(rng, d - 1, envd, maxlen, small)])
    if op == "MP":
        return (op, gen_map(rng, envd, small), [], [gen(rng, d - 1, envd, maxlen, small)])
    if op == "PL":
        return (op, None, [], [gen(rng, d - 1, envd, maxlen, small), gen(rng, d - 1, envd, maxlen, small)])
    # join: keep the outer side short when deep so that results stay small
    return (op, None, [], [gen(rng, d - 1, envd, maxlen, small), gen(rng, rng.randrange(1, d), envd + 1, maxlen, small)])


def gen_stacked(rng):
    """2-4 unary combinators applied DIRECTLY to each other's result (the same one repeated, with another function, more often
    than not) over a source of 3-6 elements: what a combinator does when its argument IS another combinator's iterator
    (two filters fused into one, a map of a map, ...) shows only on such stacks, and only when the source is long enough for
    elements to be rejected after the first accepted one."""
    def src():
        return ("S", None, [rng.randrange(-2, 7) for _ in range(rng.randrange(3, 7))], [])
    t, r = src(), rng.random()
    if r < 0.2:
        t = ("PL", None, [], [t, src()])
    elif r < 0.35:
        t = ("JN", None, [], [t, ("S", None, [(0, 0), (0, rng.choice([1, 2, -1]))], [])])
    op = rng.choice(UNARY)
    for _ in range(rng.randrange(2, 5)):
        if rng.random() < 0.4:
            op = rng.choice(UNARY)
        t = (op, gen_map(rng, 0, False) if op == "MP" else gen_pred(rng, 0, False), [], [t])
    return t


def enumerate_small(maxd):
    """All expressions of depth <= maxd over a tiny alphabet (about 50 000 for maxd = 3)."""
    def leaves(envd):
        out = [("S", None, [], []), ("S", None, [1], []), ("S", None, [1, 2], []), ("S", None, [2, 1, 3], []), ("F", None, [2], [])]
        if envd:
            out += [("F", None, [(0, 0)], []), ("S", None, [(0, 0), (0, 1)], [])]
        return out

    def go(d, envd):
        if d <= 1:
            return leaves(envd)
        sub = go(d - 1, envd)
        out = list(sub)
        for s in sub:
            for p in ["lt:2", "even", "T", "N"] + (["nev:0"] if envd else []):
                out += [("TW", p, [], [s]), ("DW", p, [], [s]), ("FI", p, [], [s])]
            out.append(("MP", "dbl", [], [s]))
        body = go(d - 1, envd + 1)
        for a in sub:
            for b in sub:
                out.append(("PL", None, [], [a, b]))
            for b in body:
                out.append(("JN", None, [], [a, b]))
        return out
    return go(maxd, 0)


def deep(f, d):
    """call the generator until the tree really is deep (the generators stop early with some probability)"""
    for _ in range(20):
        t = f()
        if depth(t) >= max(2, d - 2):
            break
    return t


def make_cases(ctx, boost):
    rng = ctx.rng
    trees = []
    if ctx.thorough():
        exhaustive = enumerate_small(3)
        trees += exhaustive                                  # exhaustive: depth <= 3, slices <= 3, tiny alphabet
        trees += [gen(rng, 3, small=True) for _ in range(6000 * boost)]
        trees += [gen_stacked(rng) for _ in range(3000 * boost)]
        for d in (4, 5, 6, 7):
            trees += [deep(lambda: gen(rng, d, maxlen=4, small=False), d) for _ in range(15000 * boost)]
    else:
        trees += rng.sample(enumerate_small(3), 2100 * boost)        # sample of the exhaustive depth<=3 space
        trees += [gen(rng, 3, small=True) for _ in range(900 * boost)]   # depth<=3 / len<=3, richer function families
        trees += [deep(lambda: gen(rng, 5, maxlen=4, small=False), 5) for _ in range(700 * boost)]
        trees += [gen_stacked(rng) for _ in range(300 * boost)]
    nexh = len(exhaustive) if ctx.thorough() else 0     # the exhaustive part is never thinned
    cases = []
    for idx, t in enumerate(trees):
        try:
            l = denote(t, [])
        except RecursionError:
            continue
        if len(l) > 400:
            continue
        if not l and idx >= nexh and rng.random() < 0.5:
            continue                     # thin out the (many) random expressions with an empty result
        r = rng.random()
        errat = -1 if r < 0.3 or not l else (rng.randrange(len(l)) if r < 0.9 else len(l) + rng.randrange(2))
        cases.append("%d %s" % (errat, " ".join(toks(t))))
    return cases


# ------------------------------------------------------------------ shrinking a failing case

def shrink_candidates(n):
    op, fn, terms, kids = n
    for k in kids:                       # replace the node by a child (join body only if closed)
        yield k
    if op == "S" and terms:
        for i in range(len(terms)):
            yield (op, fn, terms[:i] + terms[i + 1:], kids)
    for i, k in enumerate(kids):
        for k2 in shrink_candidates(k):
            yield (op, fn, terms, kids[:i] + [k2] + kids[i + 1:])


def closed(n, envd=0):
    op, fn, terms, kids = n
    for t in terms:
        if not isinstance(t, int) and t[0] >= envd:
            return False
    if fn and ":" in fn and fn.split(":")[0] in ("ltv", "nev", "addv") and int(fn.split(":")[1]) >= envd:
        return False
    if op == "JN":
        return closed(kids[0], envd) and closed(kids[1], envd + 1)
    return all(closed(k, envd) for k in kids)


def shrink(ctx, binp, case, fails):
    """Greedy delta-debugging over the tree; `fails(case_line, impl_line)` decides."""
    errat, t = int(case.split()[0]), parse(case.split()[1:])[0]
    for _ in range(40):
        cands = [c for c in shrink_candidates(t) if closed(c)][:300]
        lines = ["%d %s" % (errat, " ".join(toks(c))) for c in cands]
        if not lines:
            break
        try:
            _, impl, _ = ctx.run_harness(binp, ["C14"], lines, timeout=120)
        except Exception:
            break
        hit = next((c for c, l, i in zip(cands, lines, impl) if fails(l, i)), None) if len(impl) == len(lines) else None
        if hit is None:
            break
        t = hit
    return "%d %s" % (errat, " ".join(toks(t)))


# ------------------------------------------------------------------ the check

def core(line):
    """impl line without the src= / ty= / calls= / order= fields: the evaluation at element type int."""
    return iterx.core(line)


def run(ctx):
    ctx.cov["rule"] = ("case = (errAt, expression tree over From/FromSlice/TakeWhile/DropWhile/Filter/Map/Plus/Join with named predicate, "
                       "mapping and join-body families; join bodies are expressions over the join variable, so they return nil for some/all elements); "
                       "non-trivial = tree depth >= 2 and non-empty result or a join call returning nil; distinct by case line. "
                       "Every case is also evaluated by the harness at element types string and an interface type (0 = nil interface value), in the same process, "
                       "in an order (int first / another type first) fixed by a hash of the case line: distribution.retyped_evaluations counts these evaluations "
                       "(one drain + one ForEach each); they are judged by the direct oracle only (agreement with the int result), the model is compared on the int part. "
                       "distribution.callback_argument_check: cases whose callback calls were all found among the calls of an eager list evaluation (ok)")
    ctx.assumptions += ["linear use: an expression is built once and each sub-iterator is handed to exactly one combinator (Go iterators are mutable and shared by reference)",
                        "user predicates/mappings/join functions are total and pure; join functions return a fresh Seq per call",
                        "Go panics are modelled as Except; fuel exhaustion is proved unreachable for fuel cost(e) (build_repr)",
                        "source slices: the model keeps the backing list immutable by construction; non-modification of the real slices is checked dynamically by the harness"]
    ctx.prove()
    if ctx.thorough():
        ctx.leanchecker()

    binp, err = ctx.harness("iter", {"github.com/fogfish/golem/trait": vlib.REPO + "/trait"})
    if binp is None:
        ctx.broken.append({"kind": "correspondence", "detail": "harness does not build against /repo/trait", "log": err})
        return
    boost = 4 if ctx.broken else 1      # failing-input search on an enlarged budget
    cases = make_cases(ctx, boost)
    if ctx.replay:
        rp = json.load(open(ctx.replay))
        if rp.get("case"):          # a concrete failing input; otherwise (broken obligation/tie) rerun the whole budget
            cases = [rp["case"]]
    try:
        rc, impl, err = ctx.run_harness(binp, ["C14"], cases, timeout=900)
    except Exception as ex:  # timeout: a combinator loops forever
        ctx.broken.append({"kind": "correspondence", "detail": "harness did not terminate: %r" % ex})
        return
    if len(impl) != len(cases):
        ctx.broken.append({"kind": "correspondence", "detail": "harness produced %d lines for %d cases (rc=%s): %s" % (len(impl), len(cases), rc, err[-500:])})
        # find the case it died on: everything up to the first missing line is still evaluated below
    model = ctx.oracle("C14", cases)
    n = min(len(impl), len(cases))
    ctx.diff(cases[:n], [core(i) for i in impl[:n]], model[:n], "Model.Iter eval/evalForEach vs real seq combinators")

    def fails(line, got):
        ea, t = int(line.split()[0]), parse(line.split()[1:])[0]
        return core(got) != expected(ea, t) or not iterx.extras_ok(got)

    reported = 0
    for c, got in zip(cases, impl):
        ea, t = int(c.split()[0]), parse(c.split()[1:])[0]
        stats = {"join_calls": 0, "join_nil": 0}
        l = denote(t, [], stats)
        d = depth(t)
        ctx.count(c, nontrivial=d >= 2 and (len(l) > 0 or stats["join_nil"] > 0))
        ctx.hist("depth", d)
        ctx.hist("result_len", len(l) if len(l) < 10 else "10+")
        ctx.hist("errAt", "none" if ea < 0 else ("past-end" if ea >= len(l) else "inside"))
        if stats["join_calls"]:
            ctx.hist("join_nil_results", "all" if stats["join_nil"] == stats["join_calls"] else ("some" if stats["join_nil"] else "none"))
        iterx.record(ctx, got)
        ctx.hist("nil_interface_values", "returned by a mapping" if stats.get("map_zero") else ("elsewhere in the expression" if stats.get("zero_seen") else "none"))
        chain, same = stack(t)
        ctx.hist("direct_unary_stack", chain)
        ctx.hist("same_unary_combinator_twice_in_a_row", same)
        for k, v in ops(t, {}).items():
            ctx.cov["distribution"].setdefault("combinator", {})
            ctx.cov["distribution"]["combinator"][k] = ctx.cov["distribution"]["combinator"].get(k, 0) + v
        want = expected(ea, t)
        if core(got) != want or not iterx.extras_ok(got):
            reported += 1
            if reported <= 3:
                small = shrink(ctx, binp, c, fails) if not ctx.replay else c
                try:
                    _, g2, _ = ctx.run_harness(binp, ["C14"], [small], timeout=120)
                    sgot = g2[0] if g2 else got
                except Exception:
                    small, sgot = c, got
                if not fails(small, sgot):          # state-dependent and not reproduced by the rerun: keep the observed one
                    small, sgot = c, got
                sea, st = int(small.split()[0]), parse(small.split()[1:])[0]
                what, cls = iterx.classify("C14", sgot, core(sgot) == expected(sea, st))
                if what is None:
                    what, cls = "draining / ForEach over the expression does not yield the list given by take-while/drop-while/filter/map/append/flat-map", "list"
                ctx.violations.append(vlib.Violation("impl", what, case=small, expected=expected(sea, st) + iterx.TAIL_OK, got=sgot,
                                                     key={"top": st[0], "class": cls, "original_case": c}))
        elif d >= 3 and len(l) > 0:
            ctx.sample({"case": c, "impl": got, "model_and_list_semantics": want})
