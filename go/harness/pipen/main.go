// Harness for C20: drives the real Pipe..Pipe20 (a copy of /repo/internal/pipe/pipe.go staged
// at run time into ./pipen) with call-logging, pairwise non-commuting affine functions.
// line in:  n x a1 b1 ... an bn      (x = -1: the argument is the nil interface value)
// line out: result | trace   ||   result | trace      (the SAME composed function applied twice to the same argument)
// line in:  par n x a1 b1 ... an bn  -> ONE composed function (stages without the call log) called concurrently from 8
//           goroutines with the arguments x, x+1, ..., x+7, 3000 times each; out: "ok" or "mismatch arg=… got=… want=…"
// line in:  prog x ; N item … ; N item … ; …  -> several compositions built one after another, nested, shared, re-entered: see prog.go
package main

import (
	"bufio"
	"fmt"
	"os"
	"strconv"
	"strings"
	"sync"

	pure "harness/pipen"
)

const modulus = 1000003

var trace []int

// stages work on `any` so that a nil interface argument is a legal input
func mk(i int, a, b int64) func(any) any {
	return func(v any) any {
		trace = append(trace, i)
		var x int64
		if v != nil {
			x = v.(int64)
		}
		return (a*x + b) % modulus
	}
}

func apply(n int, x any, f []func(any) any) (g func(any) any, ok bool) {
	defer func() {
		if e := recover(); e != nil {
			ok = false
		}
	}()
	switch n {
	case 2:
		return pure.Pipe(f[0], f[1]), true
	case 3:
		return pure.Pipe3(f[0], f[1], f[2]), true
	case 4:
		return pure.Pipe4(f[0], f[1], f[2], f[3]), true
	case 5:
		return pure.Pipe5(f[0], f[1], f[2], f[3], f[4]), true
	case 6:
		return pure.Pipe6(f[0], f[1], f[2], f[3], f[4], f[5]), true
	case 7:
		return pure.Pipe7(f[0], f[1], f[2], f[3], f[4], f[5], f[6]), true
	case 8:
		return pure.Pipe8(f[0], f[1], f[2], f[3], f[4], f[5], f[6], f[7]), true
	case 9:
		return pure.Pipe9(f[0], f[1], f[2], f[3], f[4], f[5], f[6], f[7], f[8]), true
	case 10:
		return pure.Pipe10(f[0], f[1], f[2], f[3], f[4], f[5], f[6], f[7], f[8], f[9]), true
	case 11:
		return pure.Pipe11(f[0], f[1], f[2], f[3], f[4], f[5], f[6], f[7], f[8], f[9], f[10]), true
	case 12:
		return pure.Pipe12(f[0], f[1], f[2], f[3], f[4], f[5], f[6], f[7], f[8], f[9], f[10], f[11]), true
	case 13:
		return pure.Pipe13(f[0], f[1], f[2], f[3], f[4], f[5], f[6], f[7], f[8], f[9], f[10], f[11], f[12]), true
	case 14:
		return pure.Pipe14(f[0], f[1], f[2], f[3], f[4], f[5], f[6], f[7], f[8], f[9], f[10], f[11], f[12], f[13]), true
	case 15:
		return pure.Pipe15(f[0], f[1], f[2], f[3], f[4], f[5], f[6], f[7], f[8], f[9], f[10], f[11], f[12], f[13], f[14]), true
	case 16:
		return pure.Pipe16(f[0], f[1], f[2], f[3], f[4], f[5], f[6], f[7], f[8], f[9], f[10], f[11], f[12], f[13], f[14], f[15]), true
	case 17:
		return pure.Pipe17(f[0], f[1], f[2], f[3], f[4], f[5], f[6], f[7], f[8], f[9], f[10], f[11], f[12], f[13], f[14], f[15], f[16]), true
	case 18:
		return pure.Pipe18(f[0], f[1], f[2], f[3], f[4], f[5], f[6], f[7], f[8], f[9], f[10], f[11], f[12], f[13], f[14], f[15], f[16], f[17]), true
	case 19:
		return pure.Pipe19(f[0], f[1], f[2], f[3], f[4], f[5], f[6], f[7], f[8], f[9], f[10], f[11], f[12], f[13], f[14], f[15], f[16], f[17], f[18]), true
	case 20:
		return pure.Pipe20(f[0], f[1], f[2], f[3], f[4], f[5], f[6], f[7], f[8], f[9], f[10], f[11], f[12], f[13], f[14], f[15], f[16], f[17], f[18], f[19]), true
	}
	return nil, false
}

func call(g func(any) any, x any) (r any, ok bool) {
	defer func() {
		if e := recover(); e != nil {
			ok = false
		}
	}()
	return g(x), true
}

// pure stage (no call log): safe to call from several goroutines
func mkPure(a, b int64) func(any) any {
	return func(v any) any {
		var x int64
		if v != nil {
			x = v.(int64)
		}
		return (a*x + b) % modulus
	}
}

func concurrent(n int, x int64, ab []int64) string {
	f := make([]func(any) any, n)
	for i := 0; i < n; i++ {
		f[i] = mkPure(ab[2*i], ab[2*i+1])
	}
	g, ok := apply(n, nil, f)
	if !ok {
		return "panic"
	}
	var wg sync.WaitGroup
	var mu sync.Mutex
	res := "ok"
	for k := int64(0); k < 8; k++ {
		wg.Add(1)
		go func(arg int64) {
			defer wg.Done()
			want := arg
			for i := 0; i < n; i++ {
				want = (ab[2*i]*want + ab[2*i+1]) % modulus
			}
			for it := 0; it < 3000; it++ {
				r, ok := call(g, arg)
				if !ok || r != any(want) {
					mu.Lock()
					if res == "ok" {
						res = fmt.Sprintf("mismatch arg=%d got=%v want=%d", arg, r, want)
					}
					mu.Unlock()
					return
				}
			}
		}(x + k)
	}
	wg.Wait()
	return res
}

func main() {
	in := bufio.NewScanner(os.Stdin)
	in.Buffer(make([]byte, 1<<20), 1<<20)
	out := bufio.NewWriter(os.Stdout)
	defer out.Flush()
	for in.Scan() {
		w := strings.Fields(in.Text())
		if len(w) == 4 && w[0] == "panicid" { // the panic of a step reaches the caller as it is: see panicCase
			n, err1 := strconv.Atoi(w[1])
			k, err2 := strconv.Atoi(w[2])
			reps, err3 := strconv.Atoi(w[3])
			if err1 != nil || err2 != nil || err3 != nil || n < 2 || n > 20 || k < 1 || k > n || reps < 1 {
				fmt.Fprintln(out, "bad-op")
			} else {
				fmt.Fprintln(out, panicCase(n, k, reps))
			}
			continue
		}
		if len(w) == 3 && w[0] == "ident" { // identity of the values handed along: see identCase
			n, err1 := strconv.Atoi(w[1])
			calls, err2 := strconv.Atoi(w[2])
			if err1 != nil || err2 != nil || n < 2 || n > 20 || calls < 1 {
				fmt.Fprintln(out, "bad-op")
			} else {
				fmt.Fprintln(out, identCase(n, calls))
			}
			continue
		}
		if len(w) > 0 && w[0] == "prog" { // several compositions in one process: prog.go
			fmt.Fprintln(out, prog(w[1:]))
			continue
		}
		par := len(w) > 0 && w[0] == "par"
		if par {
			w = w[1:]
		}
		v := make([]int64, len(w))
		bad := false
		for i, s := range w {
			x, err := strconv.ParseInt(s, 10, 64)
			if err != nil {
				bad = true
			}
			v[i] = x
		}
		if bad || len(v) < 2 || int(v[0]) < 2 || int(v[0]) > 20 || len(v) != 2+2*int(v[0]) {
			fmt.Fprintln(out, "bad-op")
			continue
		}
		n := int(v[0])
		if par {
			fmt.Fprintln(out, concurrent(n, v[1], v[2:]))
			continue
		}
		f := make([]func(any) any, n)
		for i := 0; i < n; i++ {
			f[i] = mk(i+1, v[2+2*i], v[3+2*i])
		}
		var arg any
		if v[1] != -1 {
			arg = v[1]
		}
		g, ok := apply(n, arg, f)
		if !ok {
			fmt.Fprintln(out, "panic")
			continue
		}
		parts := []string{}
		for rep := 0; rep < 2; rep++ {
			trace = trace[:0]
			r, ok := call(g, arg)
			if !ok {
				parts = append(parts, "panic")
				continue
			}
			ts := make([]string, len(trace))
			for i, t := range trace {
				ts[i] = strconv.Itoa(t)
			}
			parts = append(parts, fmt.Sprintf("%v | %s", r, strings.Join(ts, " ")))
		}
		fmt.Fprintln(out, strings.Join(parts, " || "))
	}
}

// Case kind `ident N calls`: the composed function hands on the VERY values the steps return, and does nothing else to
// them. The argument is a slice with spare capacity; step 1 receives it (the harness notes the capacity it sees) and
// returns a resource holding a pointer to the slice's second element; the steps in between return what they get; the
// last step returns a holder of the resource. The resource has a Close method the harness never calls. Called `calls`
// times with the same argument; one token per call:
//
//	same|diff   the pointer inside the result is / is not &arg[1]
//	cap=<c>     the capacity step 1 saw
//	open|closed whether somebody called Close on the resource
type identRes struct {
	p      *int
	seen   int
	closed bool
}

func (r *identRes) Close() error { r.closed = true; return nil }

type identHolder struct{ r *identRes }

func identCase(n, calls int) string {
	res := &identRes{} // a long-lived handle: the same object is looked up by step 1 in every call
	f := make([]func(any) any, n)
	f[0] = func(v any) any {
		xs := v.([]int)
		res.p, res.seen = &xs[1], cap(xs)
		return res
	}
	for i := 1; i < n-1; i++ {
		f[i] = func(v any) any { return v }
	}
	f[n-1] = func(v any) any { return identHolder{r: v.(*identRes)} }
	arg := make([]int, 3, 8)
	g, ok := apply(n, arg, f)
	if !ok {
		return "panic"
	}
	parts := []string{}
	for k := 0; k < calls; k++ {
		r, ok := call(g, any(arg))
		if !ok {
			parts = append(parts, "panic")
			continue
		}
		h, isH := r.(identHolder)
		if !isH || h.r == nil {
			parts = append(parts, "bad-result")
			continue
		}
		t := "diff"
		if h.r.p == &arg[1] {
			t = "same"
		}
		st := "open"
		if h.r.closed {
			st = "closed"
		}
		parts = append(parts, fmt.Sprintf("%s cap=%d %s", t, h.r.seen, st))
	}
	return strings.Join(parts, " | ")
}

// Case kind `panicid N k reps`: step k panics with a private sentinel value on the argument -1 (what f_N(...f_1(a))
// itself would do). The composed function is called `reps` times with that argument, the caller recovering every
// time, then once with 7. Tokens: `same` - every recovered value WAS the sentinel (compared by identity), otherwise
// `diff:<what came instead>`; `ok` - the last call returned f_N(...f_1(7)), otherwise `bad:<result or panic>`.
type bailout struct{ at int }

func panicCase(n, k, reps int) string {
	sentinel := &bailout{at: k}
	f := make([]func(any) any, n)
	for i := 0; i < n; i++ {
		step := i + 1
		f[i] = func(v any) any {
			x := v.(int64)
			if x < 0 {
				if step == k {
					panic(sentinel)
				}
				return x
			}
			return (3*x + int64(step)) % modulus
		}
	}
	g, ok := apply(n, nil, f)
	if !ok {
		return "panic"
	}
	first := "same"
	for r := 0; r < reps && first == "same"; r++ {
		func() {
			defer func() {
				e := recover()
				if e == nil {
					first = "diff:no-panic"
				} else if b, isB := e.(*bailout); !isB || b != sentinel {
					first = fmt.Sprintf("diff:%T", e)
				}
			}()
			g(int64(-1))
		}()
	}
	want := int64(7)
	for i := 0; i < n; i++ {
		want = (3*want + int64(i+1)) % modulus
	}
	second := "ok"
	func() {
		defer func() {
			if e := recover(); e != nil {
				second = fmt.Sprintf("bad:panic:%v", e)
			}
		}()
		if r := g(int64(7)); r != any(want) {
			second = fmt.Sprintf("bad:%v", r)
		}
	}()
	return first + " " + second
}
