// Case kind `prog` of the C20 harness: SEVERAL compositions built one after another in one process, composed functions
// supplied as steps of further compositions, one composed function shared by several outer ones, sibling closures of
// one function literal at the same positions of several calls, and steps that re-enter the composed function they are
// part of. (The property: the function returned by Pipe/PipeN returns f_N(...f_1(a)) for the SUPPLIED functions -
// whatever else has been composed before or afterwards in the process.)
//
// line in:  prog x ; N item_1 … item_N ; N item_1 … item_N ; …
//
//	x      argument (-1: the nil interface value); definition k (0-based) is called with (x + 7k) mod 1000003
//	a:b    a fresh leaf: v -> (a*v+b) mod 1000003, logging its id (ids count the leaves and R steps of the line, from 1,
//	       in order of appearance); every leaf is a closure of the ONE function literal of mk (a factory called in a loop)
//	=i     the func value of leaf i again (the same closure supplied to another composition)
//	@k     the composed function returned for definition k (k earlier than the current one)
//	R:a:b:m  a step that re-enters the composed function it is supplied to, through a variable: logs its id; on v with
//	       v mod m == 0 (base case) it returns a*v+b, otherwise a*self(v div m)+b (all mod 1000003)
//
// Every definition is built with the PipeN of its arity. line out:
//
//	r | trace ; r | trace ; …   ||   r | trace ; …
//
// first half: definition k called right after it was built (before the later ones exist); second half: every definition
// called again, in order, after ALL of them have been built. `panic` for a call (or the whole line) that panicked.
package main

import (
	"fmt"
	"strconv"
	"strings"
)

const maxReentry = 40 // far beyond anything the generator emits; a faulty composition must not overflow the stack

type tooDeep struct{}

func toInt(v any) int64 {
	if v == nil {
		return 0
	}
	return v.(int64)
}

func mkRec(id int, a, b, m int64, self *func(any) any, depth *int) func(any) any {
	return func(v any) any {
		trace = append(trace, id)
		x := toInt(v)
		if x%m == 0 {
			return (a*x + b) % modulus
		}
		*depth++
		if *depth > maxReentry {
			panic(tooDeep{})
		}
		y := toInt((*self)(x / m))
		*depth--
		return (a*y + b) % modulus
	}
}

func progCall(g func(any) any, arg any, depth *int) string {
	trace = trace[:0]
	*depth = 0
	r, ok := call(g, arg)
	if !ok {
		return "panic"
	}
	ts := make([]string, len(trace))
	for i, t := range trace {
		ts[i] = strconv.Itoa(t)
	}
	return fmt.Sprintf("%v | %s", r, strings.Join(ts, " "))
}

func prog(w []string) string {
	if len(w) < 3 || w[1] != ";" {
		return "bad-op"
	}
	x, err := strconv.ParseInt(w[0], 10, 64)
	if err != nil {
		return "bad-op"
	}
	argOf := func(k int) any {
		if x == -1 {
			return nil
		}
		return (x + 7*int64(k)) % modulus
	}
	var groups [][]string
	cur := []string{}
	for _, t := range w[2:] {
		if t == ";" {
			groups = append(groups, cur)
			cur = []string{}
			continue
		}
		cur = append(cur, t)
	}
	groups = append(groups, cur)
	var defs []func(any) any
	var leaves []func(any) any
	depth := new(int)
	first := []string{}
	for _, g := range groups {
		if len(g) < 1 {
			return "bad-op"
		}
		n, err := strconv.Atoi(g[0])
		if err != nil || n < 2 || n > 20 || len(g) != n+1 {
			return "bad-op"
		}
		self := new(func(any) any)
		f := make([]func(any) any, n)
		for i, it := range g[1:] {
			switch {
			case strings.HasPrefix(it, "@"):
				k, err := strconv.Atoi(it[1:])
				if err != nil || k < 0 || k >= len(defs) {
					return "bad-op"
				}
				f[i] = defs[k]
			case strings.HasPrefix(it, "="):
				k, err := strconv.Atoi(it[1:])
				if err != nil || k < 1 || k > len(leaves) {
					return "bad-op"
				}
				f[i] = leaves[k-1]
			default:
				p := strings.Split(it, ":")
				rec := p[0] == "R"
				if rec {
					p = p[1:]
				}
				v := make([]int64, len(p))
				for j, s := range p {
					y, err := strconv.ParseInt(s, 10, 64)
					if err != nil {
						return "bad-op"
					}
					v[j] = y
				}
				if rec && len(v) == 3 && v[2] >= 2 {
					f[i] = mkRec(len(leaves)+1, v[0], v[1], v[2], self, depth)
				} else if !rec && len(v) == 2 {
					f[i] = mk(len(leaves)+1, v[0], v[1])
				} else {
					return "bad-op"
				}
				leaves = append(leaves, f[i])
			}
		}
		h, ok := apply(n, nil, f)
		if !ok || h == nil {
			return "panic"
		}
		*self = h
		defs = append(defs, h)
		first = append(first, progCall(h, argOf(len(defs)-1), depth))
	}
	again := make([]string, len(defs))
	for k, h := range defs {
		again[k] = progCall(h, argOf(k), depth)
	}
	return strings.Join(first, " ; ") + " || " + strings.Join(again, " ; ")
}
