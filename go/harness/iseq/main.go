// Harness for C19: interprets register scripts on the REAL list.Trait and slice.Trait
// (a copy of /repo/internal/seq staged at run time as module github.com/fogfish/golem, dir seq/)
// with the real seq.Foldable and a real monoid.FromOp monoid that is neither commutative nor
// associative (Empty = 7, Combine(a,b) = (31a+b) mod 1000003).
//
// line in : ops separated by blanks: N:1,2,3 (N: = New()), C:x:r, T:r, H:r, L:r, E:r, F:r
// line out: <list observations> | <slice observations> | persist=ok|FAIL:<impl>:op<i>:<what> | ty[<order>]=ok|<T>:<impl>:<k>:<obs at T>:<obs at int>;...
//
// The first three fields are the run at element type int64 (the one the Lean model is compared
// with).  The interpreter is generic in the element type through a codec (inj: int -> E,
// prj: E -> int); the same script is also run, in the same process, at E = string (strconv),
// E = a non-empty interface type and E = any (0 is the NIL INTERFACE value, everything else a boxed
// int; Fold uses the same monoid transported through the codec).  The projected observations at
// every type must be literally those of the int run; the last field names the order the types were
// run in (int first or int last, chosen by a hash of the script) and every (type, implementation)
// whose observations or persistence verdict differ.
//
// A constructor's observation is the element list of the new register read back with
// IsEmpty/Head/Tail plus its Length: [e1,e2]/len.  After EVERY operation every live register is
// read again and compared with what it showed when it was created, and every slice that was
// passed to New is compared with a private copy (persistence / aliasing direct oracle).
package main

import (
	"bufio"
	"fmt"
	"hash/fnv"
	"os"
	"strconv"
	"strings"

	"github.com/fogfish/golem/pure/monoid"
	"github.com/fogfish/golem/seq"
	"github.com/fogfish/golem/seq/list"
	"github.com/fogfish/golem/seq/slice"
)

const modulus = 1000003
const walkLimit = 100000

type op struct {
	kind byte
	xs   []int64
	x    int64
	r    int
}

func parse(line string) ([]op, bool) {
	var ops []op
	for _, w := range strings.Fields(line) {
		p := strings.Split(w, ":")
		if len(p[0]) != 1 {
			return nil, false
		}
		o := op{kind: p[0][0]}
		switch {
		case o.kind == 'N' && len(p) == 2:
			if p[1] != "" {
				for _, s := range strings.Split(p[1], ",") {
					v, err := strconv.ParseInt(s, 10, 64)
					if err != nil {
						return nil, false
					}
					o.xs = append(o.xs, v)
				}
			}
		case o.kind == 'C' && len(p) == 3:
			v, err := strconv.ParseInt(p[1], 10, 64)
			r, err2 := strconv.Atoi(p[2])
			if err != nil || err2 != nil || r < 0 {
				return nil, false
			}
			o.x, o.r = v, r
		case strings.IndexByte("THLEF", o.kind) >= 0 && len(p) == 2:
			r, err := strconv.Atoi(p[1])
			if err != nil || r < 0 {
				return nil, false
			}
			o.r = r
		default:
			return nil, false
		}
		ops = append(ops, o)
	}
	return ops, true
}

func try[T any](f func() T) (v T, ok bool) {
	defer func() {
		if recover() != nil {
			ok = false
		}
	}()
	return f(), true
}

// codec maps the script's integers into the element type E the traits are instantiated with and back.
// The SAME script is interpreted at every element type; observations are printed through prj, so a
// correct (parametric) implementation gives literally the same observation list at every type.
type codec[E any] struct {
	name string
	inj  func(int64) E
	prj  func(E) (int64, bool) // false: the element is not in the image of inj
}

// monoid over E defined through the codec: Empty = inj 7, Combine(a,b) = inj((31*prj a + prj b) mod 1000003).
func (c codec[E]) monoid() monoid.Monoid[E] {
	return monoid.FromOp[E](c.inj(7), func(a, b E) E {
		x, okx := c.prj(a)
		y, oky := c.prj(b)
		if !okx || !oky {
			panic("codec: foreign element given to Combine")
		}
		return c.inj((x*31 + y) % modulus)
	})
}

func (c codec[E]) str(e E) string {
	v, ok := c.prj(e)
	if !ok {
		return "!foreign"
	}
	return strconv.FormatInt(v, 10)
}

// elem is a NON-EMPTY interface type; box is its only implementation.  0 is the nil interface value
// (no dynamic type), every other integer is a boxed int.
type elem interface{ val() int64 }
type box int64

func (b box) val() int64 { return int64(b) }

// canonDec reads the canonical decimal form strconv.FormatInt writes (and nothing else) without allocating.
func canonDec(s string) (int64, bool) {
	d := s
	if len(d) > 0 && d[0] == '-' {
		d = d[1:]
	}
	if len(d) == 0 || len(d) > 18 || (d[0] == '0' && len(s) > 1) {
		return 0, false
	}
	var v int64
	for i := 0; i < len(d); i++ {
		if d[i] < '0' || d[i] > '9' {
			return 0, false
		}
		v = v*10 + int64(d[i]-'0')
	}
	if len(d) != len(s) {
		v = -v
	}
	return v, true
}

var (
	cInt   = codec[int64]{"int", func(v int64) int64 { return v }, func(v int64) (int64, bool) { return v, true }}
	cStr   = codec[string]{"string", func(v int64) string { return strconv.FormatInt(v, 10) }, canonDec}
	cIface = codec[elem]{"iface", func(v int64) elem {
		if v == 0 {
			return nil
		}
		return box(v)
	}, func(e elem) (int64, bool) {
		if e == nil {
			return 0, true
		}
		b, ok := e.(box)
		return int64(b), ok && b != 0
	}}
	cAny = codec[any]{"any", func(v int64) any {
		if v == 0 {
			return nil
		}
		return v
	}, func(e any) (int64, bool) {
		if e == nil {
			return 0, true
		}
		v, ok := e.(int64)
		return v, ok && v != 0
	}}
)

// show reads a sequence out through the trait only: [e1,e2,...]/Length.
// Fast path: the whole walk under one recover; when anything panics (or the walk does not end) the
// walk is repeated by showSlow, which guards every single trait call and says where it stopped.
func show[F, E any](T seq.Seq[F, E], c codec[E], s F) string {
	str, ok := try(func() string {
		buf := make([]byte, 0, 64)
		buf = append(buf, '[')
		cur := s
		for i := 0; !T.IsEmpty(cur); i++ {
			if i > walkLimit {
				panic("loop")
			}
			if i > 0 {
				buf = append(buf, ',')
			}
			buf = append(buf, c.str(T.Head(cur))...)
			cur = T.Tail(cur)
		}
		buf = append(buf, ']', '/')
		buf = strconv.AppendInt(buf, int64(T.Length(s)), 10)
		return string(buf)
	})
	if ok {
		return str
	}
	return showSlow(T, c, s)
}

func showSlow[F, E any](T seq.Seq[F, E], c codec[E], s F) string {
	var sb strings.Builder
	sb.WriteByte('[')
	cur := s
	for i := 0; ; i++ {
		if i > walkLimit {
			sb.WriteString("!loop")
			break
		}
		e, ok := try(func() bool { return T.IsEmpty(cur) })
		if !ok {
			sb.WriteString("!panic")
			break
		}
		if e {
			break
		}
		h, ok := try(func() E { return T.Head(cur) })
		if !ok {
			if i > 0 {
				sb.WriteByte(',')
			}
			sb.WriteString("!panic")
			break
		}
		if i > 0 {
			sb.WriteByte(',')
		}
		sb.WriteString(c.str(h))
		t, ok := try(func() F { return T.Tail(cur) })
		if !ok {
			sb.WriteString(",!panic")
			break
		}
		cur = t
	}
	sb.WriteString("]/")
	n, ok := try(func() int { return T.Length(s) })
	if ok {
		sb.WriteString(strconv.Itoa(n))
	} else {
		sb.WriteString("!panic")
	}
	return sb.String()
}

// snapshot of a register at the time it was created: the string show gave, and (when the walk was
// clean) the projected elements and the reported length, so that the re-reads after every operation can
// compare without printing.  A re-read that is not literally the same falls back to comparing show's strings.
type snapshot struct {
	str   string
	elems []int64
	n     int
	clean bool
}

func snap[F, E any](T seq.Seq[F, E], c codec[E], s F) snapshot {
	sn := snapshot{str: show(T, c, s)}
	_, sn.clean = try(func() bool {
		cur := s
		for i := 0; !T.IsEmpty(cur); i++ {
			v, ok := c.prj(T.Head(cur))
			if !ok || i > walkLimit {
				panic("foreign")
			}
			sn.elems = append(sn.elems, v)
			cur = T.Tail(cur)
		}
		sn.n = T.Length(s)
		return true
	})
	return sn
}

// unchanged: the register reads exactly as in the snapshot (same elements, same end, same Length, no panic).
func unchanged[F, E any](T seq.Seq[F, E], c codec[E], s F, sn *snapshot) bool {
	if !sn.clean {
		return false
	}
	same, ok := try(func() bool {
		cur := s
		for _, w := range sn.elems {
			if T.IsEmpty(cur) {
				return false
			}
			if v, ok := c.prj(T.Head(cur)); !ok || v != w {
				return false
			}
			cur = T.Tail(cur)
		}
		return T.IsEmpty(cur) && T.Length(s) == sn.n
	})
	return ok && same
}

type orig[E any] struct {
	live []E
	copy []int64
}

func run[F, E any](name string, T seq.Seq[F, E], c codec[E], ops []op) (obs []string, persist string) {
	fold := seq.Foldable[F, E]{Seq: T}
	m31 := c.monoid()
	var regs []F
	var snaps []snapshot
	var origs []orig[E]
	persist = "ok"
	check := func(i int) {
		if persist != "ok" {
			return
		}
		for j := range snaps { // every register that existed before this op, and the new one
			if unchanged(T, c, regs[j], &snaps[j]) {
				continue
			}
			if got := show(T, c, regs[j]); got != snaps[j].str {
				persist = fmt.Sprintf("FAIL:%s:op%d:r%d:%s->%s", name, i, j, snaps[j].str, got)
				return
			}
		}
		for j, o := range origs {
			for k := range o.copy {
				if v, ok := c.prj(o.live[k]); !ok || v != o.copy[k] {
					persist = fmt.Sprintf("FAIL:%s:op%d:caller-slice%d[%d]:%d->%s", name, i, j, k, o.copy[k], c.str(o.live[k]))
					return
				}
			}
		}
	}
	push := func(s F) {
		regs = append(regs, s)
		sn := snap(T, c, s)
		snaps = append(snaps, sn)
		obs = append(obs, sn.str)
	}
	for i, o := range ops {
		if o.kind != 'N' && o.r >= len(regs) {
			obs = append(obs, "bad-reg")
			return
		}
		ok := true
		switch o.kind {
		case 'N':
			live := make([]E, len(o.xs))
			for k, v := range o.xs {
				live[k] = c.inj(v)
			}
			cp := make([]int64, len(o.xs))
			copy(cp, o.xs)
			var s F
			s, ok = try(func() F { return T.New(live...) })
			if ok {
				origs = append(origs, orig[E]{live, cp})
				push(s)
			}
		case 'C':
			var s F
			s, ok = try(func() F { return T.Cons(c.inj(o.x), regs[o.r]) })
			if ok {
				push(s)
			}
		case 'T':
			var s F
			s, ok = try(func() F { return T.Tail(regs[o.r]) })
			if ok {
				push(s)
			}
		case 'H':
			var v E
			v, ok = try(func() E { return T.Head(regs[o.r]) })
			if ok {
				obs = append(obs, "v"+c.str(v))
			}
		case 'L':
			var v int
			v, ok = try(func() int { return T.Length(regs[o.r]) })
			if ok {
				obs = append(obs, "n"+strconv.Itoa(v))
			}
		case 'E':
			var v bool
			v, ok = try(func() bool { return T.IsEmpty(regs[o.r]) })
			if ok {
				obs = append(obs, strconv.FormatBool(v))
			}
		case 'F':
			var v E
			v, ok = try(func() E { return fold.Fold(m31, regs[o.r]) })
			if ok {
				obs = append(obs, "v"+c.str(v))
			}
		}
		check(i)
		if !ok {
			obs = append(obs, "panic")
			return
		}
	}
	return
}

// both runs one script on the list and on the slice implementation at element type E.
type both struct {
	ty     string
	lo, so []string
	lp, sp string
}

func runTy[E any](c codec[E], ops []op) (b both) {
	b.ty = c.name
	defer func() { // the interpreter itself guards every trait call; anything that still escapes is an observation too
		if r := recover(); r != nil {
			b.lo, b.so = append(b.lo, "!crash"), append(b.so, "!crash")
		}
	}()
	b.lo, b.lp = run[list.Seq[E], E]("list", list.Trait[E]("seq."+c.name), c, ops)
	b.so, b.sp = run[slice.Seq[E], E]("slice", slice.Trait[E]("seq."+c.name), c, ops)
	return
}

// the element types every script is run at; int is the one the Lean model is compared with.
var runners = []func([]op) both{
	func(ops []op) both { return runTy(cInt, ops) },
	func(ops []op) both { return runTy(cStr, ops) },
	func(ops []op) both { return runTy(cIface, ops) },
	func(ops []op) both { return runTy(cAny, ops) },
}

// firstDiff: <k>:<observation at the other type>:<observation at int>, "" when equal.
func firstDiff(got, want []string) string {
	for k := 0; k < len(got) || k < len(want); k++ {
		g, w := "<none>", "<none>"
		if k < len(got) {
			g = got[k]
		}
		if k < len(want) {
			w = want[k]
		}
		if g != w {
			return fmt.Sprintf("%d:%s:%s", k, g, w)
		}
	}
	return ""
}

func main() {
	in := bufio.NewScanner(os.Stdin)
	in.Buffer(make([]byte, 1<<22), 1<<22)
	out := bufio.NewWriter(os.Stdout)
	defer out.Flush()
	for in.Scan() {
		line := in.Text()
		ops, ok := parse(line)
		if !ok {
			fmt.Fprintln(out, "bad-op")
			continue
		}
		// Order of the element types: int first / int last, decided by the script text (so that a replay
		// of the same script runs in the same order).
		h := fnv.New32a()
		h.Write([]byte(line))
		rev := h.Sum32()&1 == 1
		res := make([]both, len(runners))
		var order []string
		for i := range runners {
			j := i
			if rev {
				j = len(runners) - 1 - i
			}
			res[j] = runners[j](ops)
			order = append(order, res[j].ty)
		}
		it := res[0]
		p := "ok"
		if it.lp != "ok" {
			p = it.lp
		} else if it.sp != "ok" {
			p = it.sp
		}
		// every other element type against the int run of the same implementation
		var bad []string
		for _, r := range res[1:] {
			for _, x := range []struct {
				impl       string
				got, want  []string
				gotp, intp string
			}{{"list", r.lo, it.lo, r.lp, it.lp}, {"slice", r.so, it.so, r.sp, it.sp}} {
				if d := firstDiff(x.got, x.want); d != "" {
					bad = append(bad, r.ty+":"+x.impl+":"+d)
				} else if x.gotp != x.intp {
					bad = append(bad, r.ty+":"+x.impl+":persist:"+x.gotp)
				}
			}
		}
		ty := "ok"
		if len(bad) > 0 {
			ty = strings.Join(bad, ";")
		}
		fmt.Fprintf(out, "%s | %s | persist=%s | ty[%s]=%s\n", strings.Join(it.lo, " "), strings.Join(it.so, " "), p, strings.Join(order, ","), ty)
	}
}
