// Harness for C19: interprets register scripts on the REAL list.Trait and slice.Trait
// (a copy of /repo/internal/seq staged at run time as module github.com/fogfish/golem, dir seq/)
// with the real seq.Foldable and a real monoid.FromOp monoid that is neither commutative nor
// associative (Empty = 7, Combine(a,b) = (31a+b) mod 1000003).
//
// line in : ops separated by blanks: N:1,2,3 (N: = New()), C:x:r, T:r, H:r, L:r, E:r, F:r
// line out: <list observations> | <slice observations> | persist=ok|FAIL:<impl>:op<i>:<what>
//
// A constructor's observation is the element list of the new register read back with
// IsEmpty/Head/Tail plus its Length: [e1,e2]/len.  After EVERY operation every live register is
// read again and compared with what it showed when it was created, and every slice that was
// passed to New is compared with a private copy (persistence / aliasing direct oracle).
package main

import (
	"bufio"
	"fmt"
	"os"
	"strconv"
	"strings"

	"github.com/fogfish/golem/pure/monoid"
	"github.com/fogfish/golem/seq"
	"github.com/fogfish/golem/seq/list"
	"github.com/fogfish/golem/seq/slice"
)

const modulus = 1000003
const walkLimit = 100000

var m31 = monoid.FromOp[int64](7, func(a, b int64) int64 { return (a*31 + b) % modulus })

type op struct {
	kind byte
	xs   []int64
	x    int64
	r    int
}

func parse(line string) ([]op, bool) {
	var ops []op
	for _, w := range strings.Fields(line) {
		p := strings.Split(w, ":")
		if len(p[0]) != 1 {
			return nil, false
		}
		o := op{kind: p[0][0]}
		switch {
		case o.kind == 'N' && len(p) == 2:
			if p[1] != "" {
				for _, s := range strings.Split(p[1], ",") {
					v, err := strconv.ParseInt(s, 10, 64)
					if err != nil {
						return nil, false
					}
					o.xs = append(o.xs, v)
				}
			}
		case o.kind == 'C' && len(p) == 3:
			v, err := strconv.ParseInt(p[1], 10, 64)
			r, err2 := strconv.Atoi(p[2])
			if err != nil || err2 != nil || r < 0 {
				return nil, false
			}
			o.x, o.r = v, r
		case strings.IndexByte("THLEF", o.kind) >= 0 && len(p) == 2:
			r, err := strconv.Atoi(p[1])
			if err != nil || r < 0 {
				return nil, false
			}
			o.r = r
		default:
			return nil, false
		}
		ops = append(ops, o)
	}
	return ops, true
}

func try[T any](f func() T) (v T, ok bool) {
	defer func() {
		if recover() != nil {
			ok = false
		}
	}()
	return f(), true
}

// show reads a sequence out through the trait only: [e1,e2,...]/Length.
func show[F any](T seq.Seq[F, int64], s F) string {
	var sb strings.Builder
	sb.WriteByte('[')
	cur := s
	for i := 0; ; i++ {
		if i > walkLimit {
			sb.WriteString("!loop")
			break
		}
		e, ok := try(func() bool { return T.IsEmpty(cur) })
		if !ok {
			sb.WriteString("!panic")
			break
		}
		if e {
			break
		}
		h, ok := try(func() int64 { return T.Head(cur) })
		if !ok {
			if i > 0 {
				sb.WriteByte(',')
			}
			sb.WriteString("!panic")
			break
		}
		if i > 0 {
			sb.WriteByte(',')
		}
		sb.WriteString(strconv.FormatInt(h, 10))
		t, ok := try(func() F { return T.Tail(cur) })
		if !ok {
			sb.WriteString(",!panic")
			break
		}
		cur = t
	}
	sb.WriteString("]/")
	n, ok := try(func() int { return T.Length(s) })
	if ok {
		sb.WriteString(strconv.Itoa(n))
	} else {
		sb.WriteString("!panic")
	}
	return sb.String()
}

type orig struct{ live, copy []int64 }

func run[F any](name string, T seq.Seq[F, int64], ops []op) (obs []string, persist string) {
	fold := seq.Foldable[F, int64]{Seq: T}
	var regs []F
	var snap []string
	var origs []orig
	persist = "ok"
	check := func(i int) {
		if persist != "ok" {
			return
		}
		for j := range snap { // every register that existed before this op, and the new one
			if got := show(T, regs[j]); got != snap[j] {
				persist = fmt.Sprintf("FAIL:%s:op%d:r%d:%s->%s", name, i, j, snap[j], got)
				return
			}
		}
		for j, o := range origs {
			for k := range o.copy {
				if o.live[k] != o.copy[k] {
					persist = fmt.Sprintf("FAIL:%s:op%d:caller-slice%d[%d]:%d->%d", name, i, j, k, o.copy[k], o.live[k])
					return
				}
			}
		}
	}
	push := func(s F) {
		regs = append(regs, s)
		str := show(T, s)
		snap = append(snap, str)
		obs = append(obs, str)
	}
	for i, o := range ops {
		if o.kind != 'N' && o.r >= len(regs) {
			obs = append(obs, "bad-reg")
			return
		}
		ok := true
		switch o.kind {
		case 'N':
			live := make([]int64, len(o.xs))
			copy(live, o.xs)
			cp := make([]int64, len(o.xs))
			copy(cp, o.xs)
			var s F
			s, ok = try(func() F { return T.New(live...) })
			if ok {
				origs = append(origs, orig{live, cp})
				push(s)
			}
		case 'C':
			var s F
			s, ok = try(func() F { return T.Cons(o.x, regs[o.r]) })
			if ok {
				push(s)
			}
		case 'T':
			var s F
			s, ok = try(func() F { return T.Tail(regs[o.r]) })
			if ok {
				push(s)
			}
		case 'H':
			var v int64
			v, ok = try(func() int64 { return T.Head(regs[o.r]) })
			if ok {
				obs = append(obs, "v"+strconv.FormatInt(v, 10))
			}
		case 'L':
			var v int
			v, ok = try(func() int { return T.Length(regs[o.r]) })
			if ok {
				obs = append(obs, "n"+strconv.Itoa(v))
			}
		case 'E':
			var v bool
			v, ok = try(func() bool { return T.IsEmpty(regs[o.r]) })
			if ok {
				obs = append(obs, strconv.FormatBool(v))
			}
		case 'F':
			var v int64
			v, ok = try(func() int64 { return fold.Fold(m31, regs[o.r]) })
			if ok {
				obs = append(obs, "v"+strconv.FormatInt(v, 10))
			}
		}
		check(i)
		if !ok {
			obs = append(obs, "panic")
			return
		}
	}
	return
}

func main() {
	in := bufio.NewScanner(os.Stdin)
	in.Buffer(make([]byte, 1<<22), 1<<22)
	out := bufio.NewWriter(os.Stdout)
	defer out.Flush()
	for in.Scan() {
		ops, ok := parse(in.Text())
		if !ok {
			fmt.Fprintln(out, "bad-op")
			continue
		}
		lo, lp := run[list.Seq[int64]]("list", list.Trait[int64]("seq.int64"), ops)
		so, sp := run[slice.Seq[int64]]("slice", slice.Trait[int64]("seq.int64"), ops)
		p := "ok"
		if lp != "ok" {
			p = lp
		} else if sp != "ok" {
			p = sp
		}
		fmt.Fprintf(out, "%s | %s | persist=%s\n", strings.Join(lo, " "), strings.Join(so, " "), p)
	}
}
