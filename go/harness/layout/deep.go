// Valid-value phase of the C01 direct oracle, and the write probes of the C02 negative stream.
//
// testOptic (main.go) fills the focus with byte patterns, also in pointer slots: those are not Go
// values, they say which BYTES an optic moves.  This file adds what patterns cannot show: for a
// focus whose type holds references (pointer, slice, map, interface, and arrays / structs of
// those) the field is given a real, dereferenceable value v1 through its ordinary selector and a
// value is Put that is
//
//   - deeply equal to v1 but NOT identical with it (own pointee / backing array / map / boxed value),
//   - of different content,
//   - the zero value (and a non-zero value over the zero value);
//
// afterwards the field, read through its selector, must hold exactly the bits of the value that was
// put (the same pointer, slice header, map), Get must return them, every byte outside the field
// must be unchanged and the same struct pointer must come back.  Strings of equal content are
// built from one constant (same data pointer), a boxed interface value is a pointer: wherever two
// built values differ in a byte they differ under Go's `==` / in identity, never only in
// representation.
//
// A fault inside Get/Put (an optic that dereferences what it finds in the focus meets the byte
// patterns of testOptic) is turned into a recoverable panic by debug.SetPanicOnFault (main.go) and
// reported as a failure of that optic; the harness goes on.
package main

import (
	"fmt"
	"reflect"
	"strings"
	"unsafe"

	"github.com/fogfish/golem/hseq"
)

// hasRefs: a value of type t can be deeply equal to and yet distinguishable from another one.
func hasRefs(t reflect.Type) bool {
	switch t.Kind() {
	case reflect.Pointer, reflect.Slice, reflect.Map, reflect.Interface:
		return true
	case reflect.Array:
		return t.Len() > 0 && hasRefs(t.Elem())
	case reflect.Struct:
		for i := 0; i < t.NumField(); i++ {
			if hasRefs(t.Field(i).Type) {
				return true
			}
		}
	}
	return false
}

var (
	deepChans = map[reflect.Type][2]reflect.Value{}
	deepBytes [2]byte
)

const (
	deepStrA = "deep-equal"
	deepStrB = "other content"
)

// fillVal writes a valid value of type t at p.  Variants 1 and 2 have the same content in objects of
// their own (reflect.DeepEqual holds, identity does not); variant 3 has other content.  Channels are
// compared by identity even by DeepEqual and non-nil funcs are never deeply equal: variants 1 and 2
// share one channel per type and leave funcs nil, variant 3 has a channel and a func of its own.
// Unexported fields are written through their address (reflect.NewAt), depth bounds recursive types.
func fillVal(t reflect.Type, p unsafe.Pointer, variant, depth int) {
	alt := variant == 3
	at := reflect.NewAt(t, p).Elem()
	switch t.Kind() {
	case reflect.Bool:
		at.SetBool(!alt)
	case reflect.Int, reflect.Int8, reflect.Int16, reflect.Int32, reflect.Int64:
		at.SetInt(map[bool]int64{false: 7, true: 9}[alt])
	case reflect.Uint, reflect.Uint8, reflect.Uint16, reflect.Uint32, reflect.Uint64, reflect.Uintptr:
		at.SetUint(map[bool]uint64{false: 7, true: 9}[alt])
	case reflect.Float32, reflect.Float64:
		at.SetFloat(map[bool]float64{false: 1.5, true: 2.5}[alt])
	case reflect.Complex64, reflect.Complex128:
		at.SetComplex(map[bool]complex128{false: 1.5 + 2i, true: 2.5 - 1i}[alt])
	case reflect.String:
		if alt {
			at.SetString(deepStrB)
		} else {
			at.SetString(deepStrA)
		}
	case reflect.UnsafePointer:
		if alt {
			at.SetPointer(unsafe.Pointer(&deepBytes[1]))
		} else {
			at.SetPointer(unsafe.Pointer(&deepBytes[0]))
		}
	case reflect.Pointer:
		if depth > 6 {
			return // nil
		}
		q := reflect.New(t.Elem())
		fillVal(t.Elem(), q.UnsafePointer(), variant, depth+1)
		at.Set(q.Convert(t))
	case reflect.Slice:
		n := 2
		if alt {
			n = 3
		}
		s := reflect.MakeSlice(t, n, n)
		if depth <= 6 {
			for i := 0; i < n; i++ {
				fillVal(t.Elem(), unsafe.Pointer(s.Index(i).UnsafeAddr()), variant, depth+1)
			}
		}
		at.Set(s)
	case reflect.Map:
		m := reflect.MakeMap(t)
		if depth <= 6 {
			k := reflect.New(t.Key())
			fillVal(t.Key(), k.UnsafePointer(), 1, depth+1)
			v := reflect.New(t.Elem())
			fillVal(t.Elem(), v.UnsafePointer(), variant, depth+1)
			m.SetMapIndex(k.Elem(), v.Elem())
		}
		at.Set(m)
	case reflect.Interface:
		if t.NumMethod() == 0 {
			x := new(int64) // boxed pointer: equal under == only if it is the same pointer
			*x = map[bool]int64{false: 7, true: 9}[alt]
			at.Set(reflect.ValueOf(x))
		}
	case reflect.Chan:
		cs, ok := deepChans[t]
		if !ok {
			ct := t
			if t.ChanDir() != reflect.BothDir {
				ct = reflect.ChanOf(reflect.BothDir, t.Elem())
			}
			cs = [2]reflect.Value{reflect.MakeChan(ct, 0).Convert(t), reflect.MakeChan(ct, 0).Convert(t)}
			deepChans[t] = cs
		}
		if alt {
			at.Set(cs[1])
		} else {
			at.Set(cs[0])
		}
	case reflect.Func:
		if alt {
			at.Set(reflect.MakeFunc(t, func([]reflect.Value) []reflect.Value { panic("never called") }))
		}
	case reflect.Array:
		for i := 0; i < t.Len(); i++ {
			fillVal(t.Elem(), unsafe.Add(p, uintptr(i)*t.Elem().Size()), variant, depth)
		}
	case reflect.Struct:
		for i := 0; i < t.NumField(); i++ {
			fillVal(t.Field(i).Type, unsafe.Add(p, t.Field(i).Offset), variant, depth)
		}
	}
}

func maskedEq(a, b []byte, mask []bool) bool {
	for i := range mask {
		if mask[i] && a[i] != b[i] {
			return false
		}
	}
	return true
}

// rawOptic is one optic seen without its type parameters, driven through reflection: deepPhase, probe and the window
// lookups below are NOT generic - one copy in the binary whatever the number of shapes and focus types, and nothing
// is instantiated per (container, focus) pair on their behalf (the compile time of the generated file bounds the
// batch sizes).  Values pass through reflect.Call bit for bit: pointers, slice headers and maps keep their identity.
type rawOptic struct {
	at          reflect.Type  // focus type A
	wt          reflect.Type  // W[S]
	wsize, base uintptr       // size of W[S], offset of S inside it
	mget, mput  reflect.Value // Get(*S) A / Gett(any) A, Put(*S, A) *S / Putt(any, A) any
	views       reflect.Value // func(*S) []fieldView
}

// rawOf: optic is an optics.Lens[S, A] (getM, putM = "Get", "Put") or an optics.Reflector[A] ("Gett", "Putt"),
// w a (*W[S])(nil), views the generated func(*S) []fieldView.
func rawOf(optic any, getM, putM string, w any, views any) rawOptic {
	o := reflect.ValueOf(optic)
	wt := reflect.TypeOf(w).Elem()
	mput := o.MethodByName(putM)
	return rawOptic{at: mput.Type().In(1), wt: wt, wsize: wt.Size(), base: wt.Field(1).Offset,
		mget: o.MethodByName(getM), mput: mput, views: reflect.ValueOf(views)}
}

func (o rawOptic) newW() unsafe.Pointer { return reflect.New(o.wt).UnsafePointer() }

func (o rawOptic) sval(s unsafe.Pointer) reflect.Value {
	return reflect.NewAt(o.wt.Field(1).Type, s)
}

// get: *(*A)(out) = Get(s)
func (o rawOptic) get(s, out unsafe.Pointer) {
	reflect.NewAt(o.at, out).Elem().Set(o.mget.Call([]reflect.Value{o.sval(s)})[0])
}

// put: Put(s, *(*A)(a)); the returned pointer (for Putt: the pointer inside the returned interface, nil if it is none)
func (o rawOptic) put(s, a unsafe.Pointer) unsafe.Pointer {
	r := o.mput.Call([]reflect.Value{o.sval(s), reflect.NewAt(o.at, a).Elem()})[0]
	if r.Kind() == reflect.Interface {
		r = r.Elem()
	}
	if r.Kind() != reflect.Pointer {
		return nil
	}
	return r.UnsafePointer()
}

func (o rawOptic) fieldViews(s unsafe.Pointer) []fieldView {
	return o.views.Call([]reflect.Value{o.sval(s)})[0].Interface().([]fieldView)
}

// deepPhase evaluates C01 on one optic with valid values (see the file comment).  Returns the failures
// and a summary `<kind>:<d|i>` for the evidence: d = the deeply equal pair differed in identity (the case
// was really exercised), i = the two values were bit-identical (chan / zero-size pointee only).
func deepPhase(o rawOptic, focus []int) (fails []string, stat string) {
	at := o.at
	if !hasRefs(at) {
		return nil, ""
	}
	bad := func(format string, a ...any) { fails = append(fails, fmt.Sprintf(format, a...)) }
	step := "building values"
	defer func() {
		if e := recover(); e != nil {
			bad("valid values, %s: panic (%s) %.120v", step, classify(e), e)
		}
	}()
	asize := at.Size()
	mask := make([]bool, asize)
	dataMask(at, mask, 0)
	bytesOf := func(a unsafe.Pointer) []byte { return append([]byte(nil), bytesAt(a, asize)...) }
	val := func(variant int) unsafe.Pointer {
		p := reflect.New(at).UnsafePointer()
		if variant > 0 {
			fillVal(at, p, variant, 0)
		}
		return p
	}
	v1, v2, v3, zero := val(1), val(2), val(3), val(0)
	distinct := !maskedEq(bytesOf(v1), bytesOf(v2), mask)
	stat = at.Kind().String() + map[bool]string{true: ":d", false: ":i"}[distinct]

	cases := []struct {
		name     string
		cur, new unsafe.Pointer
	}{
		{"Put(v2) over v1, v2 deeply equal to (reflect.DeepEqual) but not identical with v1 (own pointee / backing array / map)", v1, v2},
		{"Put(v3) over v1, v3 of other content", v1, v3},
		{"Put(zero value) over v1", v1, zero},
		{"Put(v2) over the zero value", zero, v2},
	}
	for ci, c := range cases {
		step = fmt.Sprintf("case %d", ci+1)
		w := o.newW()
		fill(w, o.wsize, patX)
		sp := unsafe.Add(w, o.base)
		var fv *fieldView
		vs := o.fieldViews(sp)
		for i := range vs {
			if pathEq(vs[i].path, focus) {
				fv = &vs[i]
			}
		}
		if fv == nil || fv.size != asize {
			return []string{"harness: focus path not among the selector views (valid values)"}, stat
		}
		cOff := uintptr(fv.ptr) - uintptr(sp)
		reflect.NewAt(at, fv.ptr).Elem().Set(reflect.NewAt(at, c.cur).Elem()) // typed store at the address of the field's selector
		before := bytesOf2(w, o.wsize)
		want := bytesOf(c.new)

		g := reflect.New(at).UnsafePointer()
		o.get(sp, g)
		if !maskedEq(bytesOf(g), bytesOf(c.cur), mask) {
			bad("valid %s values, %s: Get does not return the field's current value", at.Kind(), c.name)
		}
		if p := o.put(sp, c.new); p != sp {
			bad("valid %s values, %s: Put returned a different pointer", at.Kind(), c.name)
		}
		after := bytesAt(w, o.wsize)
		if fb := bytesAt(fv.ptr, fv.size); !maskedEq(fb, want, mask) {
			how := "it holds neither the old nor the given value"
			if maskedEq(fb, bytesOf(c.cur), mask) {
				how = "it still holds its previous value (the old pointer / slice header / map), Put did not store"
			}
			bad("valid %s values, %s: the field (read through its selector) is not the given value: %s", at.Kind(), c.name, how)
		}
		for i := range after {
			rel := int(i) - int(o.base)
			if after[i] != before[i] && (rel < int(cOff) || rel >= int(cOff+asize)) {
				bad("valid %s values, %s: Put changed byte %d (struct-relative), outside the field [%d,%d)", at.Kind(), c.name, rel, cOff, cOff+asize)
				break
			}
		}
		o.get(sp, g)
		if !maskedEq(bytesOf(g), want, mask) {
			bad("valid %s values, %s: PutGet: Get after Put is not the value that was put (identity differs)", at.Kind(), c.name)
		}
		if len(fails) > 0 {
			break // one failing case per optic is enough
		}
	}
	return fails, stat
}

func bytesOf2(p unsafe.Pointer, n uintptr) []byte { return append([]byte(nil), bytesAt(p, n)...) }

// guarded runs the pattern phase (testOptic) and turns a panic inside Get/Put into a failure of the optic.
func guarded(f func() (string, []string)) (win string, fails []string) {
	defer func() {
		if e := recover(); e != nil {
			win = "fault"
			fails = []string{fmt.Sprintf("byte patterns: Get/Put panicked (%s): the optic looked through the bits stored in the focus instead of moving them - %.120v", classify(e), e)}
		}
	}()
	return f()
}

// addBoth: valid-value failures first (they are the readable ones), byte-pattern failures second.
func (t *tuple) addBoth(i int, win string, dfails, fails []string, stat string) {
	if stat != "" {
		t.deep = append(t.deep, fmt.Sprintf("%d:%s", i, stat))
	}
	t.add(i, win, append(dfails, fails...))
}

// ---------------------------------------------------------------- C02: non-panicking window lookups, write probes

// ents: the listing of hseq.New[T]() without its type parameter.  name / typ print the window of the first entry with
// that key / of that type for a focus of `size` bytes, "?" if there is none.  (The lookups of hseq panic for an absent
// name or type: used on an ACCEPTED derivation they would hide the acceptance.)
type ent struct {
	key string
	typ reflect.Type
	lo  uintptr
}
type ents []ent

func entries[T any](seq hseq.Seq[T]) ents {
	out := make(ents, len(seq))
	for i, e := range seq {
		out[i] = ent{e.FieldKey(), e.Type, e.Offset + e.RootOffs}
	}
	return out
}

func win(lo, size uintptr) string {
	if size == 0 {
		return "-"
	}
	return fmt.Sprintf("%d,%d", lo, lo+size)
}

func (es ents) name(name string, size uintptr) string {
	for _, e := range es {
		if e.key == name {
			return win(e.lo, size)
		}
	}
	return "?"
}

func (es ents) typ(val reflect.Type) string {
	for _, e := range es {
		if e.typ.String() == val.String() && e.typ.AssignableTo(val) {
			return win(e.lo, val.Size())
		}
	}
	return "?"
}

// accepted reports, for a derivation that was demanded to panic, which bytes of a guard-wrapped container (w = new(W[T]))
// one Put / Putt of a pattern value through each returned optic changes, struct-relative: "lo,hi", "-" for a zero-size
// focus, "unchanged", "panic:..".  Direct oracle only (a `chk` line).  Works on the optics as interface values
// (reflection): nothing is instantiated per request.
func accepted(req, method string, w any, optics ...any) {
	wins := make([]string, len(optics))
	for i, o := range optics {
		wins[i] = probe(reflect.ValueOf(w), reflect.ValueOf(o), method)
	}
	emit("chk "+req, "accepted-optics-write "+strings.Join(wins, " "))
}

// method = "Put" (Lens[S, A]: Put(*S, A) *S) or "Putt" (Reflector[A]: Putt(any, A) any)
func probe(w, o reflect.Value, method string) (res string) {
	defer func() {
		if e := recover(); e != nil {
			res = classify(e)
		}
	}()
	m := o.MethodByName(method)
	if !m.IsValid() || m.Type().NumIn() != 2 {
		return "no-" + method + "-method"
	}
	at := m.Type().In(1)
	if at.Size() == 0 {
		return "-"
	}
	wsize := w.Type().Elem().Size()
	fill(w.UnsafePointer(), wsize, patX)
	a := reflect.New(at)
	fill(a.UnsafePointer(), at.Size(), patY)
	before := bytesOf2(w.UnsafePointer(), wsize)
	s := w.Elem().Field(1).Addr()
	m.Call([]reflect.Value{s, a.Elem()})
	base := int(w.Type().Elem().Field(1).Offset)
	for i, b := range bytesAt(w.UnsafePointer(), wsize) {
		if b != before[i] {
			return fmt.Sprintf("%d,%d", i-base, i-base+int(at.Size()))
		}
	}
	return "unchanged"
}
