// Harness for C01/C02/C03: drives the real hseq + optics on struct shapes declared in a
// generated file (shapes_gen.go, written by checks/shapes.py, which defines runAll()).
//
// Output protocol: one line per request, `<request> => <result>`.
//   - requests the Lean oracle can answer (shape, offs, list, forname, fornamemaybe, fortype, new,
//     newn, fmap, lens, lensd, refl) are piped to `oracle C0x` by the check and the results compared;
//   - `chk …` lines carry the verdict of the direct oracle evaluated here on the real memory
//     (`ok` or `FAIL …`); they are not sent to the model.  `dpv …` lines list the optics of a lens request that
//     were also run on valid (dereferenceable) values, and a `chk` line of a `lensd` request carries the write
//     probes of a derivation that was accepted although it had to panic (both: deep.go, direct oracle only).
//
// checks/shapes.py also writes the sub-packages pa/v1, pb/v1, pc/v1 (import paths harness/pa/v1, ...) next to
// this file: all three are `package v1` and declare types of the same names, so that shapes can hold DISTINCT
// types that reflect prints identically (`v1.ID`); shapes_gen.go imports them as v1a, v1b, v1c.  Every batch also
// declares CONTAINER types of equal names there (`v1.Box` of pa, pb and pc, with different or equal layouts, exported
// fields only): runAll() unfolds, derives and executes optics for all of them in this one process.
//
// Panics are canonicalised to a small enum, never message text.  The GC is switched off: lens
// tests fill guard-wrapped values with byte patterns (also in pointer slots) that are never
// dereferenced.
package main

import (
	"bufio"
	"fmt"
	"os"
	"reflect"
	"runtime"
	"runtime/debug"
	"strings"
	"unsafe"

	"github.com/fogfish/golem/hseq"
	"github.com/fogfish/golem/optics"
)

var out *bufio.Writer

// Other is a container type no generated shape is identical to.
type Other struct{ X int }

func main() {
	debug.SetGCPercent(-1)
	// a fault at a non-nil address (an optic that dereferences the byte patterns stored in a focus) becomes a
	// recoverable panic of this goroutine instead of a fatal error: the harness survives and reports (deep.go)
	debug.SetPanicOnFault(true)
	out = bufio.NewWriterSize(os.Stdout, 1<<20)
	defer out.Flush()
	runAll()
}

func emit(req, res string) { fmt.Fprintf(out, "%s => %s\n", req, res) }

// classify maps a recovered panic value to the canonical enum.
func classify(e any) string {
	if e == nil {
		return "panic:nil"
	}
	if fmt.Sprintf("%T", e) == "hseq.errType" {
		return "panic:errType"
	}
	if re, ok := e.(runtime.Error); ok {
		m := re.Error()
		switch {
		case strings.Contains(m, "index out of range"):
			return "panic:index"
		case strings.Contains(m, "slice bounds out of range"):
			return "panic:slice"
		case strings.Contains(m, "nil pointer"):
			return "panic:nilderef"
		}
		return "panic:runtime"
	}
	if s, ok := e.(string); ok {
		if strings.HasPrefix(s, "reflect:") {
			return "panic:reflect"
		}
		return "panic:string"
	}
	if _, ok := e.(error); ok {
		return "panic:error"
	}
	return "panic:other"
}

// try runs f, returning its result or the canonical panic class.
func try(f func() string) (res string) {
	defer func() {
		if e := recover(); e != nil {
			res = classify(e)
		}
	}()
	return f()
}

// ---------------------------------------------------------------- hseq

func showSeq[T any](seq hseq.Seq[T]) string {
	parts := make([]string, len(seq))
	for i, e := range seq {
		anon := 0
		if e.Anonymous {
			anon = 1
		}
		parts[i] = fmt.Sprintf("%d %s %s %d %d %d|%s|%s", e.ID, e.Name, e.FieldKey(), anon, e.Offset, e.RootOffs, e.Type.String(), e.PureType.String())
	}
	return strings.Join(parts, " || ")
}

func showIDs[T any](seq hseq.Seq[T]) string {
	var sb strings.Builder
	sb.WriteString("ok")
	for _, e := range seq {
		fmt.Fprintf(&sb, " %d", e.ID)
	}
	return sb.String()
}

// The listing returned by hseq.New belongs to the caller: after printing it the harness overwrites every entry and
// re-slices it, as a caller filtering or sorting its listing in place would. Every later request on the same type
// (they all unfold again) must be unaffected.
func list[T any](req string) {
	emit(req, try(func() string {
		seq := hseq.New[T]()
		out := showSeq(seq)
		for i := range seq {
			seq[i] = hseq.Type[T]{ID: -7}
		}
		seq = append(seq[:0], hseq.Type[T]{ID: -8})
		_ = seq
		return out
	}))
}

func forName[T any](req, name string) {
	emit(req, try(func() string { return fmt.Sprintf("ok %d", hseq.ForName(hseq.New[T](), name).ID) }))
}

func forNameMaybe[T any](req, name string) {
	emit(req, try(func() string {
		e, ok := hseq.ForNameMaybe(hseq.New[T](), name)
		if !ok {
			if e.ID != 0 || e.Name != "" || e.RootOffs != 0 || e.PureType != nil {
				return "none-but-nonzero"
			}
			return "none"
		}
		return fmt.Sprintf("some %d", e.ID)
	}))
}

func forType[T, A any](req string) {
	emit(req, try(func() string { return fmt.Sprintf("ok %d", hseq.ForType[A](hseq.New[T]()).ID) }))
}

func newNames[T any](req string, names ...string) {
	emit(req, try(func() string { return showIDs(hseq.New[T](names...)) }))
}

// fmapTrace applies FMapn to the first k entries of the listing with id-logging functions; the
// trace is the call order (function number : entry ID).
func fmapTrace[T any](req string, k, n int) {
	emit(req, try(func() string {
		seq := hseq.New[T]()
		if k < len(seq) {
			seq = seq[:k:k]
		}
		var trace []string
		f := func(i int) func(hseq.Type[T]) int {
			return func(t hseq.Type[T]) int {
				trace = append(trace, fmt.Sprintf("%d:%d", i, t.ID))
				return t.ID
			}
		}
		var got []int
		switch n {
		case 1:
			a := hseq.FMap1(seq, f(1))
			got = []int{a}
		case 2:
			a, b := hseq.FMap2(seq, f(1), f(2))
			got = []int{a, b}
		case 3:
			a, b, c := hseq.FMap3(seq, f(1), f(2), f(3))
			got = []int{a, b, c}
		case 4:
			a, b, c, d := hseq.FMap4(seq, f(1), f(2), f(3), f(4))
			got = []int{a, b, c, d}
		case 5:
			a, b, c, d, e := hseq.FMap5(seq, f(1), f(2), f(3), f(4), f(5))
			got = []int{a, b, c, d, e}
		case 6:
			a, b, c, d, e, g := hseq.FMap6(seq, f(1), f(2), f(3), f(4), f(5), f(6))
			got = []int{a, b, c, d, e, g}
		case 7:
			a, b, c, d, e, g, h := hseq.FMap7(seq, f(1), f(2), f(3), f(4), f(5), f(6), f(7))
			got = []int{a, b, c, d, e, g, h}
		case 8:
			a, b, c, d, e, g, h, i := hseq.FMap8(seq, f(1), f(2), f(3), f(4), f(5), f(6), f(7), f(8))
			got = []int{a, b, c, d, e, g, h, i}
		case 9:
			a, b, c, d, e, g, h, i, j := hseq.FMap9(seq, f(1), f(2), f(3), f(4), f(5), f(6), f(7), f(8), f(9))
			got = []int{a, b, c, d, e, g, h, i, j}
		}
		// the i-th RESULT must be what the i-th function returned for the entry it saw
		for i, g := range got {
			if i >= len(trace) || trace[i] != fmt.Sprintf("%d:%d", i+1, g) {
				return "result-order-mismatch " + strings.Join(trace, " ")
			}
		}
		return "ok " + strings.Join(trace, " ")
	}))
}

// ---------------------------------------------------------------- lens tests on real memory

const guard = 32

// W wraps the struct under test between two guard areas.
type W[S any] struct {
	G1 [guard]byte
	S  S
	G2 [guard]byte
}

// fieldView: a field of S as seen through ordinary Go selectors (address, size) plus its
// selector path (field indices).
type fieldView struct {
	path []int
	ptr  unsafe.Pointer
	size uintptr
}

func bytesAt(p unsafe.Pointer, n uintptr) []byte {
	if n == 0 {
		return nil
	}
	return unsafe.Slice((*byte)(p), n)
}

// three byte patterns with pairwise disjoint ranges, so that any write of one over another
// changes every byte.
func patX(i int) byte { return byte(0x01 + i%0x55) }
func patY(i int) byte { return byte(0x56 + (i*3)%0x55) }
func patZ(i int) byte { return byte(0xab + (i*5)%0x55) }

func fill(p unsafe.Pointer, n uintptr, pat func(int) byte) {
	for i, b := 0, bytesAt(p, n); i < len(b); i++ {
		b[i] = pat(i)
	}
}

// dataMask marks the bytes of a value of type t that hold data (not padding), from reflect's
// (i.e. the compiler's) own layout.
func dataMask(t reflect.Type, mask []bool, off uintptr) {
	switch t.Kind() {
	case reflect.Struct:
		for i := 0; i < t.NumField(); i++ {
			dataMask(t.Field(i).Type, mask, off+t.Field(i).Offset)
		}
	case reflect.Array:
		for i := 0; i < t.Len(); i++ {
			dataMask(t.Elem(), mask, off+uintptr(i)*t.Elem().Size())
		}
	default:
		for i := uintptr(0); i < t.Size(); i++ {
			mask[off+i] = true
		}
	}
}

func isPrefix(a, b []int) bool {
	if len(a) > len(b) {
		return false
	}
	for i := range a {
		if a[i] != b[i] {
			return false
		}
	}
	return true
}

func pathEq(a, b []int) bool { return len(a) == len(b) && isPrefix(a, b) }

// testOptic evaluates C01 on one optic (given as get/put closures over *S) whose focus is the
// field with selector path `focus`.  Returns the observed write window relative to the struct
// ("lo,hi" or "-" for a zero-size focus) and a list of property failures.
func testOptic[S, A any](get func(*S) A, put func(*S, A) *S, views func(*S) []fieldView, focus []int) (string, []string) {
	var fails []string
	bad := func(format string, a ...any) { fails = append(fails, fmt.Sprintf(format, a...)) }
	wsize := unsafe.Sizeof(W[S]{})
	asize := unsafe.Sizeof(*new(A))
	mask := make([]bool, asize)
	dataMask(reflect.TypeOf(new(A)).Elem(), mask, 0)

	mk := func() *W[S] {
		w := new(W[S])
		fill(unsafe.Pointer(w), wsize, patX)
		return w
	}
	snap := func(w *W[S]) []byte { return append([]byte(nil), bytesAt(unsafe.Pointer(w), wsize)...) }
	va, vb := new(A), new(A)
	fill(unsafe.Pointer(va), asize, patY)
	fill(unsafe.Pointer(vb), asize, patZ)
	abytes := bytesAt(unsafe.Pointer(va), asize)

	w := mk()
	base := uintptr(unsafe.Pointer(&w.S)) - uintptr(unsafe.Pointer(w)) // where S starts inside W
	var fv *fieldView
	vs := views(&w.S)
	for i := range vs {
		if pathEq(vs[i].path, focus) {
			fv = &vs[i]
		}
	}
	if fv == nil {
		return "?", []string{"harness: focus path not among the selector views"}
	}
	cOff := uintptr(fv.ptr) - uintptr(unsafe.Pointer(&w.S)) // compiler's offset of the focus
	if fv.size != asize {
		bad("focus type size %d differs from selector size %d", asize, fv.size)
	}

	// Get returns exactly the field's current value
	g0 := get(&w.S)
	gb := bytesAt(unsafe.Pointer(&g0), asize)
	for i := range gb {
		if mask[i] && gb[i] != bytesAt(fv.ptr, fv.size)[i] {
			bad("Get byte %d differs from the field read through its selector", i)
			break
		}
	}
	if !equal(snap(w), snap(mk())) {
		bad("Get modified memory")
	}

	// Put: the field becomes the value, nothing else changes, same pointer comes back
	before := snap(w)
	p := put(&w.S, *va)
	after := snap(w)
	if p != &w.S {
		bad("Put returned a different pointer")
	}
	lo := -1
	for i := range after {
		if after[i] != before[i] {
			if lo < 0 {
				lo = i
			}
			rel := int(i) - int(base)
			if rel < int(cOff) || rel >= int(cOff+fv.size) {
				where := "another part of the struct"
				if i < int(base) || i >= int(base+unsafe.Sizeof(w.S)) {
					where = "memory outside the struct (guard)"
				}
				bad("Put changed byte %d (struct-relative), outside the field [%d,%d): %s", rel, cOff, cOff+fv.size, where)
				break
			}
		}
	}
	fb := bytesAt(fv.ptr, fv.size)
	for i := range mask {
		if i < len(fb) && mask[i] && fb[i] != abytes[i] {
			bad("after Put, field byte %d (through its selector) is not the value's byte", i)
			break
		}
	}
	// every other field, read through ordinary selectors, is unchanged
	for _, v := range vs {
		if isPrefix(v.path, focus) || isPrefix(focus, v.path) {
			continue
		}
		o := uintptr(v.ptr) - uintptr(unsafe.Pointer(w))
		if !equal(bytesAt(v.ptr, v.size), before[o:o+v.size]) {
			bad("Put changed the other field %v", v.path)
			break
		}
	}
	win := "-"
	if asize > 0 {
		if lo < 0 {
			win = "unchanged"
		} else {
			win = fmt.Sprintf("%d,%d", lo-int(base), lo-int(base)+int(asize))
		}
	}

	// PutGet
	g1 := get(&w.S)
	g1b := bytesAt(unsafe.Pointer(&g1), asize)
	for i := range g1b {
		if mask[i] && g1b[i] != abytes[i] {
			bad("PutGet: Get after Put differs from the value at byte %d", i)
			break
		}
	}
	// GetPut
	s1 := snap(w)
	put(&w.S, get(&w.S))
	for i, s2 := 0, snap(w); i < len(s2); i++ {
		rel := i - int(base)
		in := rel >= int(cOff) && rel < int(cOff+fv.size)
		if s1[i] != s2[i] && (!in || mask[rel-int(cOff)]) {
			bad("GetPut: Put(s, Get(s)) changed struct-relative byte %d", rel)
			break
		}
	}
	// PutPut: put a; put b  ==  put b   (on the data bytes of the focus and everywhere outside it)
	put(&w.S, *vb)
	w2 := mk()
	put(&w2.S, *vb)
	x, y := snap(w), snap(w2)
	for i := range x {
		rel := i - int(base)
		in := rel >= int(cOff) && rel < int(cOff+fv.size)
		if x[i] != y[i] && (!in || mask[rel-int(cOff)]) {
			bad("PutPut: put a; put b differs from put b at struct-relative byte %d", rel)
			break
		}
	}
	return win, fails
}

func equal(a, b []byte) bool {
	if len(a) != len(b) {
		return false
	}
	for i := range a {
		if a[i] != b[i] {
			return false
		}
	}
	return true
}

// result accumulator for one lens/refl tuple
type tuple struct {
	wins  []string
	fails []string
	deep  []string // valid-value phase (deep.go): `<optic #>:<focus kind>:<d|i>` per optic it ran on
}

func (t *tuple) add(i int, win string, fails []string) {
	t.wins = append(t.wins, win)
	for _, f := range fails {
		t.fails = append(t.fails, fmt.Sprintf("#%d %s", i, f))
	}
}

func (t *tuple) finish(req string) string {
	res := "ok"
	if len(t.fails) > 0 {
		res = "FAIL " + strings.Join(t.fails, "; ")
	}
	emit("chk "+req, res)
	if len(t.deep) > 0 {
		emit("dpv "+req, strings.Join(t.deep, " "))
	}
	return "ok " + strings.Join(t.wins, " ")
}

func lensCase[S, A any](t *tuple, i int, l optics.Lens[S, A], views func(*S) []fieldView, focus []int) {
	dfails, stat := deepPhase(rawOf(l, "Get", "Put", (*W[S])(nil), views), focus) // valid values (deep.go)
	win, fails := guarded(func() (string, []string) { return testOptic(l.Get, l.Put, views, focus) })
	t.addBoth(i, win, dfails, fails, stat)
}

func reflCase[S, A any](t *tuple, i int, r optics.Reflector[A], views func(*S) []fieldView, focus []int) {
	var extra []string
	get := func(s *S) A { return r.Gett(s) }
	put := func(s *S, a A) *S {
		x := r.Putt(s, a)
		p, ok := x.(*S)
		if !ok {
			extra = append(extra, "Putt returned a value that is not the *S it was given")
			return s
		}
		return p
	}
	dfails, stat := deepPhase(rawOf(r, "Gett", "Putt", (*W[S])(nil), views), focus) // valid values (deep.go)
	win, fails := guarded(func() (string, []string) { return testOptic(get, put, views, focus) })
	t.addBoth(i, win, dfails, append(fails, extra...), stat)
}

// window of the entry a lens was derived from, taken from hseq (what the unexported lens uses):
// never touches memory.  `A` gives the focus size.
func entryWin[T, A any](e hseq.Type[T]) string {
	sz := unsafe.Sizeof(*new(A))
	if sz == 0 {
		return "-"
	}
	lo := e.Offset + e.RootOffs
	return fmt.Sprintf("%d,%d", lo, lo+sz)
}

// reflector dynamic-argument probe: r.Gett / r.Putt with `dyn`; mem is the memory that must not
// change when the call panics.
func reflDyn[A any](req string, r func() optics.Reflector[A], dyn any, watch unsafe.Pointer, n uintptr, op string) {
	var chk string
	res := try(func() string {
		rr := r()
		before := append([]byte(nil), bytesAt(watch, n)...)
		defer func() {
			if e := recover(); e != nil {
				if !equal(before, bytesAt(watch, n)) {
					chk = "FAIL rejected call modified memory"
				}
				panic(e)
			}
		}()
		if op == "gett" {
			rr.Gett(dyn)
		} else {
			var a A
			rr.Putt(dyn, a)
		}
		return "ok"
	})
	emit(req, res)
	if chk != "" {
		emit("chk "+req, chk)
	}
}
