// Element types of the harness.  The expression builders (main.go, pair.go) are generic in the key type K
// and value type V of pair.Seq[K, V] and in the element type E of seq.Seq[E]; a codec carries the int of the
// case line into the type (inj) and back (prj), prj(inj(x)) == x.
package main

import (
	"hash/fnv"
	"strconv"
)

type codec[T any] struct {
	inj func(int) T
	prj func(T) int
}

// projection of a value that is the image of no int (a zero value made up by a combinator, say)
const garbage = -424242

var intCodec = codec[int]{
	inj: func(x int) int { return x },
	prj: func(x int) int { return x },
}

var stringCodec = codec[string]{
	inj: strconv.Itoa,
	prj: func(s string) int {
		x, err := strconv.Atoi(s)
		if err != nil {
			return garbage
		}
		return x
	},
}

// an interface element type: 0 is the NIL interface value, every other int a boxed one, so that nil
// interface values come out of mappings and flow through Plus, Join, Filter, ...
type boxed interface{ unbox() int }

type box int

func (b box) unbox() int { return int(b) }

var ifaceCodec = codec[boxed]{
	inj: func(x int) boxed {
		if x == 0 {
			return nil
		}
		return box(x)
	},
	prj: func(b boxed) int {
		if b == nil {
			return 0
		}
		return b.unbox()
	},
}

// the empty interface, again with 0 as nil
var anyCodec = codec[any]{
	inj: func(x int) any {
		if x == 0 {
			return nil
		}
		return x
	},
	prj: func(a any) int {
		switch x := a.(type) {
		case nil:
			return 0
		case int:
			return x
		}
		return garbage
	},
}

// one typing of an expression: pair.Seq[K, V] and seq.Seq[E] throughout
type types[K, V, E any] struct {
	name string
	k    codec[K]
	v    codec[V]
	e    codec[E]
}

func (ty *types[K, V, E]) label() string { return ty.name }

type typing interface {
	label() string
	drainSeq(n *node) string
	forEachSeq(n *node, errAt int) string
	drainPair(n *node) string
	forEachPair(n *node, errAt int) string
}

// C14 has no pair expressions: K and V are idle.
var typingsC14 = []typing{
	&types[int, int, int]{"int", intCodec, intCodec, intCodec},
	&types[int, int, string]{"string", intCodec, intCodec, stringCodec},
	&types[int, int, boxed]{"iface", intCodec, intCodec, ifaceCodec},
}

var typingsC15 = []typing{
	&types[int, int, int]{"int", intCodec, intCodec, intCodec},
	&types[int, string, string]{"string", intCodec, stringCodec, stringCodec},
	&types[int, boxed, boxed]{"iface", intCodec, ifaceCodec, ifaceCodec},
	&types[any, string, int]{"keys", anyCodec, stringCodec, intCodec}, // K = any, V = string, E = int
}

func hashLine(s string) uint64 {
	h := fnv.New64a()
	h.Write([]byte(s))
	return h.Sum64()
}

// permutation number h (mod n!) of 0..n-1: the order in which the typings of a case are run
func permutation(n int, h uint64) []int {
	pool := make([]int, n)
	for i := range pool {
		pool[i] = i
	}
	out := make([]int, 0, n)
	for len(pool) > 0 {
		i := int(h % uint64(len(pool)))
		h /= uint64(len(pool))
		out = append(out, pool[i])
		pool = append(pool[:i], pool[i+1:]...)
	}
	return out
}
