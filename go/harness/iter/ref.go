// Callback-argument check.  `reference` evaluates the case EAGERLY over int slices (take-while, drop-while,
// filter, map, append, flat-map; no library code), with the same predicates, mappings and join bodies as the
// real run, and records every call list semantics makes as (callback node, environment, arguments).  The
// callbacks handed to the real combinators report their (projected) arguments to `called`: a call outside
// the recorded set is an argument the list functions never pass to that function.  For pair callbacks the
// entry holds key AND value, so a key handed over with the value of another element shows here.
package main

import (
	"strconv"
	"strings"
)

// the eager evaluation of a generated case makes a few thousand calls at most; beyond this budget the
// set is given up and the case reported as `calls=unchecked`
const refBudget = 2000000

var (
	allowed     = map[string]struct{}{}
	allowedFull bool   // the reference evaluation ran to its end
	refCalls    int    // calls made by the reference evaluation
	extraCall   string // first call of the real run outside `allowed`
	afterStop   bool   // the visitor of the running ForEach has returned its error
	curTyping   string // label of the typing being run
	keyBuf      []byte
)

type refOverflow struct{}

func callKey(n *node, e env, nargs, a, b int) []byte {
	buf := keyBuf[:0]
	buf = strconv.AppendInt(buf, int64(n.id), 10)
	buf = append(buf, '[')
	for _, x := range e {
		buf = strconv.AppendInt(buf, int64(x), 10)
		buf = append(buf, ',')
	}
	buf = append(buf, ']')
	buf = strconv.AppendInt(buf, int64(a), 10)
	if nargs > 1 {
		buf = append(buf, ',')
		buf = strconv.AppendInt(buf, int64(b), 10)
	}
	keyBuf = buf
	return buf
}

// allow: the reference evaluation calls the function of node n, built in environment e, on (a) / (a, b)
func allow(n *node, e env, nargs, a, b int) {
	refCalls++
	if refCalls > refBudget {
		panic(refOverflow{})
	}
	k := callKey(n, e, nargs, a, b)
	if _, ok := allowed[string(k)]; !ok {
		allowed[string(k)] = struct{}{}
	}
}

// called: the real combinators call the function of node n on (a) / (a, b)
func called(n *node, e env, nargs, a, b int) {
	tick()
	if extraCall != "" {
		return
	}
	// "ForEach stops with the first error returned": once the visitor has returned its error, no user callback runs
	// any more (afterStop is set by the visitor of the ForEach runs, cleared when a run starts)
	after := afterStop
	if !after {
		if !allowedFull {
			return
		}
		if _, ok := allowed[string(callKey(n, e, nargs, a, b))]; ok {
			return
		}
	}
	var sb strings.Builder
	if after {
		sb.WriteString("after-stop:")
	}
	sb.WriteString(n.op)
	if n.fn != "" {
		sb.WriteString("." + n.fn)
	}
	sb.WriteString("#" + strconv.Itoa(n.id) + "[")
	for i, x := range e {
		if i > 0 {
			sb.WriteString(",")
		}
		sb.WriteString(strconv.Itoa(x))
	}
	sb.WriteString("](" + strconv.Itoa(a))
	if nargs > 1 {
		sb.WriteString("," + strconv.Itoa(b))
	}
	sb.WriteString(")@" + curTyping)
	extraCall = sb.String()
}

func callsVerdict() string {
	switch {
	case extraCall != "":
		return "extra:" + extraCall
	case !allowedFull:
		return "unchecked"
	}
	return "ok"
}

// reference fills `allowed` for the case; returns a complete result line for a case that names an
// unknown function, "" otherwise.
func reference(n *node, pairKind bool) (bad string) {
	clear(allowed)
	allowedFull, refCalls, extraCall, afterStop = false, 0, "", false
	defer func() {
		if r := recover(); r != nil {
			if _, ok := r.(refOverflow); ok {
				return // allowedFull stays false
			}
			if _, ok := r.(badFn); ok {
				bad = "bad-case"
				return
			}
			panic(r)
		}
	}()
	if pairKind {
		refPair(n, nil)
	} else {
		refSeq(n, nil)
	}
	allowedFull = true
	return ""
}

func refSeq(n *node, e env) []int {
	switch n.op {
	case "F":
		return []int{n.terms[0].eval(e)}
	case "S":
		out := make([]int, len(n.terms))
		for i, t := range n.terms {
			out[i] = t.eval(e)
		}
		return out
	case "TW", "DW", "FI":
		f := pred1(n.fn, e)
		if f == nil {
			panic(badFn{n.fn})
		}
		l := refSeq(n.kids[0], e)
		switch n.op {
		case "TW":
			for i, x := range l {
				allow(n, e, 1, x, 0)
				if !f(x) {
					return l[:i]
				}
			}
			return l
		case "DW":
			for i, x := range l {
				allow(n, e, 1, x, 0)
				if !f(x) {
					return l[i:]
				}
			}
			return nil
		}
		var out []int
		for _, x := range l {
			allow(n, e, 1, x, 0)
			if f(x) {
				out = append(out, x)
			}
		}
		return out
	case "MP":
		f := map1(n.fn, e)
		if f == nil {
			panic(badFn{n.fn})
		}
		l := refSeq(n.kids[0], e)
		out := make([]int, len(l))
		for i, x := range l {
			allow(n, e, 1, x, 0)
			out[i] = f(x)
		}
		return out
	case "PL":
		l := refSeq(n.kids[0], e)
		r := refSeq(n.kids[1], e)
		return append(append([]int(nil), l...), r...)
	case "JN":
		var out []int
		for _, x := range refSeq(n.kids[0], e) {
			allow(n, e, 1, x, 0)
			out = append(out, refSeq(n.kids[1], e.push(x))...)
		}
		return out
	case "TS":
		var out []int
		for _, x := range refPair(n.kids[0], e) {
			allow(n, e, 2, x.k, x.v)
			out = append(out, refSeq(n.kids[1], e.push(x.k, x.v))...)
		}
		return out
	}
	panic(badFn{n.op})
}

func refPair(n *node, e env) []kv {
	switch n.op {
	case "PF":
		return []kv{{n.terms[0].eval(e), n.terms[1].eval(e)}}
	case "PTW", "PDW", "PFI":
		f := pred2(n.fn, e)
		if f == nil {
			panic(badFn{n.fn})
		}
		l := refPair(n.kids[0], e)
		switch n.op {
		case "PTW":
			for i, x := range l {
				allow(n, e, 2, x.k, x.v)
				if !f(x.k, x.v) {
					return l[:i]
				}
			}
			return l
		case "PDW":
			for i, x := range l {
				allow(n, e, 2, x.k, x.v)
				if !f(x.k, x.v) {
					return l[i:]
				}
			}
			return nil
		}
		var out []kv
		for _, x := range l {
			allow(n, e, 2, x.k, x.v)
			if f(x.k, x.v) {
				out = append(out, x)
			}
		}
		return out
	case "PMP":
		f := map2(n.fn, e)
		if f == nil {
			panic(badFn{n.fn})
		}
		l := refPair(n.kids[0], e)
		out := make([]kv, len(l))
		for i, x := range l {
			allow(n, e, 2, x.k, x.v)
			out[i] = kv{x.k, f(x.k, x.v)} // keys untouched
		}
		return out
	case "PPL":
		l := refPair(n.kids[0], e)
		r := refPair(n.kids[1], e)
		return append(append([]kv(nil), l...), r...)
	case "PJN":
		var out []kv
		for _, x := range refPair(n.kids[0], e) {
			allow(n, e, 2, x.k, x.v)
			out = append(out, refPair(n.kids[1], e.push(x.k, x.v))...)
		}
		return out
	case "FS":
		var out []kv
		for _, x := range refSeq(n.kids[0], e) {
			allow(n, e, 1, x, 0)
			out = append(out, refPair(n.kids[1], e.push(x))...)
		}
		return out
	}
	panic(badFn{n.op})
}
