// Harness for C14 / C15: interprets expression-tree case lines with the REAL combinators of
// github.com/fogfish/golem/trait/{seq,pair} (module replaced by /repo/trait at run time).
//
//	harness.bin C14      case: <errAt> <seq-expr>
//	harness.bin C15      case: <errAt> <S|P> <expr>       (see pair.go)
//
// For every case the expression is built twice from fresh slices: once drained with the documented
// loop `for has := s != nil; has; has = s.Next() { s.Value() }`, once consumed by ForEach with a
// callback that fails at visit index errAt.  Result line:
//
//	<drained>|<visited>|<err>|src=<ok|MODIFIED>|ty=<ok|T:...>|calls=<ok|extra:...|unchecked>|order=<T,T,..>
//
// The first three fields are the run at element type int (the part the Lean model is compared with).
//
// ty: the builders are generic in the element type (types.go): the SAME expression is evaluated, in the
// same process, at every other typing of the mode (values injected from int by a codec, predicates p.prj,
// mappings inj.m.prj), the order of the typings (int included) chosen by a hash of the case line, so that
// whatever one instantiation leaves behind in the package meets the next one.  The projected result of each
// typing must equal the int result; the first one that does not is reported as `ty=<T>:<drained>/<visited>/<err>`.
//
// calls: every user callback (predicate, mapping, join/ToSeq/FromSeq body) logs (callback node, environment,
// arguments).  An EAGER reference evaluator over int slices (ref.go) with the same callbacks is run first and
// gives the set of calls list semantics makes; the real (lazy) combinators may make any subset of them, any
// number of times, but no other: the first other call is reported as `calls=extra:<op>.<fn>#<node>[env](args)@<T>` (T: the typing of the run that made it).
//
// Panics are canonicalised to panic:nil / panic:index / panic:other, a drain that does not stop
// after 5000 elements to `runaway`.
package main

import (
	"bufio"
	"fmt"
	"os"
	"runtime"
	"strconv"
	"strings"

	"github.com/fogfish/golem/trait/seq"
)

// ---------------------------------------------------------------- tokens, terms, functions

type env []int // innermost variable first

func (e env) at(i int) int {
	if i < 0 || i >= len(e) {
		return 0
	}
	return e[i]
}

func (e env) push(vs ...int) env {
	n := make(env, 0, len(e)+len(vs))
	n = append(n, vs...)
	return append(n, e...)
}

type term struct {
	isVar bool
	i, c  int
}

func (t term) eval(e env) int {
	if t.isVar {
		return e.at(t.i) + t.c
	}
	return t.c
}

func parseTerm(s string) (term, bool) {
	if strings.HasPrefix(s, "$") {
		p := strings.Split(s[1:], ":")
		if len(p) != 2 {
			return term{}, false
		}
		i, e1 := strconv.Atoi(p[0])
		c, e2 := strconv.Atoi(p[1])
		return term{true, i, c}, e1 == nil && e2 == nil && i >= 0
	}
	c, err := strconv.Atoi(s)
	return term{false, 0, c}, err == nil
}

func splitColon(s string) (string, int, bool, bool) {
	p := strings.Split(s, ":")
	if len(p) == 1 {
		return p[0], 0, false, true
	}
	if len(p) != 2 {
		return s, 0, false, false
	}
	k, err := strconv.Atoi(p[1])
	return p[0], k, true, err == nil
}

// unary predicates over the element (C14 and the seq side of C15)
func pred1(tok string, e env) func(int) bool {
	name, k, has, ok := splitColon(tok)
	if !ok {
		return nil
	}
	switch {
	case name == "lt" && has:
		return func(v int) bool { return v < k }
	case name == "ge" && has:
		return func(v int) bool { return v >= k }
	case name == "ltv" && has:
		x := e.at(k)
		return func(v int) bool { return v < x }
	case name == "nev" && has:
		x := e.at(k)
		return func(v int) bool { return v != x }
	case name == "even" && !has:
		return func(v int) bool { return v%2 == 0 }
	case name == "odd" && !has:
		return func(v int) bool { return v%2 != 0 }
	case name == "T" && !has:
		return func(int) bool { return true }
	case name == "N" && !has:
		return func(int) bool { return false }
	}
	return nil
}

func map1(tok string, e env) func(int) int {
	name, k, has, ok := splitColon(tok)
	if !ok {
		return nil
	}
	switch {
	case name == "inc" && !has:
		return func(v int) int { return v + 1 }
	case name == "dbl" && !has:
		return func(v int) int { return v * 2 }
	case name == "neg" && !has:
		return func(v int) int { return -v }
	case name == "mod3" && !has:
		return func(v int) int { return v % 3 }
	case name == "addv" && has:
		x := e.at(k)
		return func(v int) int { return v + x }
	}
	return nil
}

// ---------------------------------------------------------------- syntax tree

type node struct {
	op    string
	fn    string // predicate / mapping name
	terms []term
	kids  []*node
	id    int // preorder number: names the callback of this node in the call log
}

func number(n *node, next *int) {
	if n == nil {
		return
	}
	n.id = *next
	*next++
	for _, k := range n.kids {
		number(k, next)
	}
}

type parser struct {
	toks []string
	pos  int
	bad  bool
}

func (p *parser) next() string {
	if p.pos >= len(p.toks) {
		p.bad = true
		return ""
	}
	t := p.toks[p.pos]
	p.pos++
	return t
}

func (p *parser) terms(n int) []term {
	ts := make([]term, 0, n)
	for i := 0; i < n; i++ {
		t, ok := parseTerm(p.next())
		if !ok {
			p.bad = true
		}
		ts = append(ts, t)
	}
	return ts
}

// ---------------------------------------------------------------- source-slice tracking

// one closure per source slice built for the current case: true while the whole backing array still
// holds (the images of) the values it was filled with
var sourceChecks []func() bool

// newSlice builds the source slice as a WINDOW of a larger backing array (guard cells in front, spare
// capacity behind, so cap > len): a combinator that appends to or writes around a source slice is
// caught by comparing the whole backing array afterwards ("source slices are never modified").
func newSlice[E any](c codec[E], ts []term, e env) []E {
	const guard, spare = 2, 4
	orig := make([]int, guard+len(ts)+spare)
	for i := range orig {
		orig[i] = -7770 - i
	}
	for i, t := range ts {
		orig[guard+i] = t.eval(e)
	}
	backing := make([]E, len(orig))
	for i := range backing {
		backing[i] = c.inj(orig[i])
	}
	sourceChecks = append(sourceChecks, func() bool {
		for i := range backing {
			if c.prj(backing[i]) != orig[i] {
				return false
			}
		}
		return true
	})
	return backing[guard : guard+len(ts)]
}

func sourcesIntact() bool {
	for _, ok := range sourceChecks {
		if !ok() {
			return false
		}
	}
	return true
}

// ---------------------------------------------------------------- seq expressions (C14)

func (p *parser) seqExpr() *node {
	if p.bad {
		return nil
	}
	op := p.next()
	switch op {
	case "F":
		return &node{op: op, terms: p.terms(1)}
	case "S":
		n, err := strconv.Atoi(p.next())
		if err != nil || n < 0 || n > 64 {
			p.bad = true
			return nil
		}
		return &node{op: op, terms: p.terms(n)}
	case "TW", "DW", "FI", "MP":
		fn := p.next()
		return &node{op: op, fn: fn, kids: []*node{p.seqExpr()}}
	case "PL", "JN":
		a := p.seqExpr()
		b := p.seqExpr()
		return &node{op: op, kids: []*node{a, b}}
	case "TS": // C15 only: ToSeq <pair-expr> <seq-body with 2 variables>
		if !allowPair {
			p.bad = true
			return nil
		}
		a := p.pairExpr()
		b := p.seqExpr()
		return &node{op: op, kids: []*node{a, b}}
	}
	p.bad = true
	return nil
}

var allowPair bool

type badFn struct{ name string }

// buildSeq builds the expression with the real combinators at element type E.  Callbacks work on the
// projection of their argument (predicates p.prj, mappings inj.m.prj) and log it (ref.go).
func (ty *types[K, V, E]) buildSeq(n *node, e env) seq.Seq[E] {
	c := ty.e
	switch n.op {
	case "F":
		return seq.From(c.inj(n.terms[0].eval(e)))
	case "S":
		return seq.FromSlice(newSlice(c, n.terms, e))
	case "TW", "DW", "FI":
		f0 := pred1(n.fn, e)
		if f0 == nil {
			panic(badFn{n.fn})
		}
		f := func(v E) bool { x := c.prj(v); called(n, e, 1, x, 0); return f0(x) }
		s := ty.buildSeq(n.kids[0], e)
		switch n.op {
		case "TW":
			return seq.TakeWhile(s, f)
		case "DW":
			return seq.DropWhile(s, f)
		}
		return seq.Filter(s, f)
	case "MP":
		f0 := map1(n.fn, e)
		if f0 == nil {
			panic(badFn{n.fn})
		}
		return seq.Map(ty.buildSeq(n.kids[0], e), func(v E) E { x := c.prj(v); called(n, e, 1, x, 0); return c.inj(f0(x)) })
	case "PL":
		l := ty.buildSeq(n.kids[0], e)
		r := ty.buildSeq(n.kids[1], e)
		return seq.Plus(l, r)
	case "JN":
		body := n.kids[1]
		return seq.Join(ty.buildSeq(n.kids[0], e), func(v E) seq.Seq[E] {
			x := c.prj(v)
			called(n, e, 1, x, 0)
			return ty.buildSeq(body, e.push(x))
		})
	case "TS":
		return ty.buildToSeq(n, e)
	}
	panic(badFn{n.op})
}

// ---------------------------------------------------------------- running a case

const runawayLimit = 5000

// Every user callback ticks; a library loop that never ends (possible in a mutated tree) calls a
// user function on each iteration, so the tick limit turns it into the observation `runaway`.
const tickLimit = 300000

var ticks int

type runaway struct{}

func tick() {
	ticks++
	if ticks > tickLimit {
		panic(runaway{})
	}
}

func classify(r any) string {
	if _, ok := r.(badFn); ok {
		return "bad-case"
	}
	if _, ok := r.(runaway); ok {
		return "runaway"
	}
	if err, ok := r.(error); ok {
		m := err.Error()
		switch {
		case strings.Contains(m, "nil pointer dereference"):
			return "panic:nil"
		case strings.Contains(m, "index out of range"), strings.Contains(m, "slice bounds out of range"):
			return "panic:index"
		}
	}
	return "panic:other"
}

func ints(xs []int) string {
	ss := make([]string, len(xs))
	for i, x := range xs {
		ss[i] = strconv.Itoa(x)
	}
	return strings.Join(ss, " ")
}

type visitErr struct{ idx int }

func (v *visitErr) Error() string { return "E" + strconv.Itoa(v.idx) }

func (ty *types[K, V, E]) drainSeq(n *node) (out string) {
	defer func() {
		if r := recover(); r != nil {
			out = classify(r)
		}
	}()
	ticks = 0
	afterStop = false
	s := ty.buildSeq(n, nil)
	var got []int
	for has := s != nil; has; has = s.Next() {
		got = append(got, ty.e.prj(s.Value()))
		if len(got) > runawayLimit {
			return "runaway"
		}
	}
	return ints(got)
}

func (ty *types[K, V, E]) forEachSeq(n *node, errAt int) (out string) {
	defer func() {
		if r := recover(); r != nil {
			out = classify(r)
		}
	}()
	ticks = 0
	afterStop = false
	s := ty.buildSeq(n, nil)
	var log []int
	var sent *visitErr
	err := seq.ForEach(s, func(v E) error {
		idx := len(log)
		log = append(log, ty.e.prj(v))
		if idx == errAt {
			sent = &visitErr{idx}
			afterStop = true
			return sent
		}
		if len(log) > runawayLimit {
			panic(runaway{})
		}
		return nil
	})
	es := "-"
	if err != nil {
		if ve, ok := err.(*visitErr); ok && ve == sent {
			es = ve.Error()
		} else {
			es = "foreign-error"
		}
	} else if sent != nil {
		es = "error-lost"
	}
	return ints(log) + "|" + es
}

// runCase evaluates one parsed case at every typing of the mode (typings[0] is the all-int one) and
// assembles the result line described at the top of this file.
func runCase(line string, n *node, errAt int, pairKind bool, typings []typing) string {
	next := 0
	number(n, &next)
	sourceChecks = sourceChecks[:0]
	if bad := reference(n, pairKind); bad != "" {
		return bad
	}
	order := permutation(len(typings), hashLine(line))
	res := make([]string, len(typings))
	names := make([]string, len(typings))
	for pos, i := range order {
		t := typings[i]
		curTyping = t.label()
		names[pos] = t.label()
		if pairKind {
			res[i] = t.drainPair(n) + "|" + t.forEachPair(n, errAt)
		} else {
			res[i] = t.drainSeq(n) + "|" + t.forEachSeq(n, errAt)
		}
	}
	tyField := "ok"
	for i := 1; i < len(typings); i++ {
		if res[i] != res[0] {
			tyField = typings[i].label() + ":" + strings.ReplaceAll(res[i], "|", "/")
			break
		}
	}
	src := "ok"
	if !sourcesIntact() {
		src = "MODIFIED"
	}
	return res[0] + "|src=" + src + "|ty=" + tyField + "|calls=" + callsVerdict() + "|order=" + strings.Join(names, ",")
}

func runC14(line string) string {
	toks := strings.Fields(line)
	if len(toks) < 2 {
		return "bad-case"
	}
	errAt, err := strconv.Atoi(toks[0])
	p := &parser{toks: toks[1:]}
	n := p.seqExpr()
	if err != nil || p.bad || p.pos != len(p.toks) {
		return "bad-case"
	}
	return runCase(line, n, errAt, false, typingsC14)
}

func main() {
	// one P: the harness is sequential, and whatever per-P state the library keeps (a sync.Pool, say) is then
	// met again by the next evaluation instead of depending on where the scheduler puts the goroutine
	runtime.GOMAXPROCS(1)
	mode := "C14"
	if len(os.Args) > 1 {
		mode = os.Args[1]
	}
	allowPair = mode == "C15"
	in := bufio.NewScanner(os.Stdin)
	in.Buffer(make([]byte, 1<<20), 1<<20)
	out := bufio.NewWriter(os.Stdout)
	defer out.Flush()
	for in.Scan() {
		if mode == "C15" {
			fmt.Fprintln(out, runC15(in.Text()))
		} else {
			fmt.Fprintln(out, runC14(in.Text()))
		}
	}
}
