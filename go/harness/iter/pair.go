// C15 part of the harness: pair.Seq[K,V] expressions mixed with seq.Seq[E] through
// pair.ToSeq / pair.FromSeq, at the typings of types.go (K = V = E = int is the one compared with the
// model).  Grammar: see lean/Golem/Driver/C15.lean.
package main

import (
	"strconv"
	"strings"

	"github.com/fogfish/golem/trait/pair"
	"github.com/fogfish/golem/trait/seq"
)

func pred2(tok string, e env) func(int, int) bool {
	name, c, has, ok := splitColon(tok)
	if !ok {
		return nil
	}
	switch {
	case name == "klt" && has:
		return func(k, v int) bool { return k < c }
	case name == "kge" && has:
		return func(k, v int) bool { return k >= c }
	case name == "vlt" && has:
		return func(k, v int) bool { return v < c }
	case name == "vge" && has:
		return func(k, v int) bool { return v >= c }
	case name == "sumlt" && has:
		return func(k, v int) bool { return k+v < c }
	case name == "knev" && has:
		x := e.at(c)
		return func(k, v int) bool { return k != x }
	case name == "vltv" && has:
		x := e.at(c)
		return func(k, v int) bool { return v < x }
	case name == "keven" && !has:
		return func(k, v int) bool { return k%2 == 0 }
	case name == "kodd" && !has:
		return func(k, v int) bool { return k%2 != 0 }
	case name == "veven" && !has:
		return func(k, v int) bool { return v%2 == 0 }
	case name == "vodd" && !has:
		return func(k, v int) bool { return v%2 != 0 }
	case name == "kltv" && !has:
		return func(k, v int) bool { return k < v }
	case name == "T" && !has:
		return func(int, int) bool { return true }
	case name == "N" && !has:
		return func(int, int) bool { return false }
	}
	return nil
}

func map2(tok string, e env) func(int, int) int {
	name, c, has, ok := splitColon(tok)
	if !ok {
		return nil
	}
	switch {
	case name == "subk" && !has:
		return func(k, v int) int { return v - k }
	case name == "kx10" && !has:
		return func(k, v int) int { return 10*k + v }
	case name == "vinc" && !has:
		return func(k, v int) int { return v + 1 }
	case name == "onlyk" && !has:
		return func(k, v int) int { return k }
	case name == "addv" && has:
		x := e.at(c)
		return func(k, v int) int { return v + x }
	}
	return nil
}

func (p *parser) pairExpr() *node {
	if p.bad {
		return nil
	}
	op := p.next()
	switch op {
	case "PF":
		return &node{op: op, terms: p.terms(2)}
	case "PTW", "PDW", "PFI", "PMP":
		fn := p.next()
		return &node{op: op, fn: fn, kids: []*node{p.pairExpr()}}
	case "PPL", "PJN":
		a := p.pairExpr()
		b := p.pairExpr()
		return &node{op: op, kids: []*node{a, b}}
	case "FS":
		a := p.seqExpr()
		b := p.pairExpr()
		return &node{op: op, kids: []*node{a, b}}
	}
	p.bad = true
	return nil
}

// buildPair builds the expression with the real combinators at pair.Seq[K, V]; callbacks project key and
// value, log the pair (ref.go) and work on the ints.
func (ty *types[K, V, E]) buildPair(n *node, e env) pair.Seq[K, V] {
	ck, cv := ty.k, ty.v
	switch n.op {
	case "PF":
		return pair.From(ck.inj(n.terms[0].eval(e)), cv.inj(n.terms[1].eval(e)))
	case "PTW", "PDW", "PFI":
		f0 := pred2(n.fn, e)
		if f0 == nil {
			panic(badFn{n.fn})
		}
		f := func(k K, v V) bool { a, b := ck.prj(k), cv.prj(v); called(n, e, 2, a, b); return f0(a, b) }
		s := ty.buildPair(n.kids[0], e)
		switch n.op {
		case "PTW":
			return pair.TakeWhile(s, f)
		case "PDW":
			return pair.DropWhile(s, f)
		}
		return pair.Filter(s, f)
	case "PMP":
		f0 := map2(n.fn, e)
		if f0 == nil {
			panic(badFn{n.fn})
		}
		return pair.Map(ty.buildPair(n.kids[0], e), func(k K, v V) V {
			a, b := ck.prj(k), cv.prj(v)
			called(n, e, 2, a, b)
			return cv.inj(f0(a, b))
		})
	case "PPL":
		l := ty.buildPair(n.kids[0], e)
		r := ty.buildPair(n.kids[1], e)
		return pair.Plus(l, r)
	case "PJN":
		body := n.kids[1]
		return pair.Join(ty.buildPair(n.kids[0], e), func(k K, v V) pair.Seq[K, V] {
			a, b := ck.prj(k), cv.prj(v)
			called(n, e, 2, a, b)
			return ty.buildPair(body, e.push(a, b))
		})
	case "FS":
		body := n.kids[1]
		return pair.FromSeq(ty.buildSeq(n.kids[0], e), func(x E) pair.Seq[K, V] {
			a := ty.e.prj(x)
			called(n, e, 1, a, 0)
			return ty.buildPair(body, e.push(a))
		})
	}
	panic(badFn{n.op})
}

func (ty *types[K, V, E]) buildToSeq(n *node, e env) seq.Seq[E] {
	body := n.kids[1]
	return pair.ToSeq(ty.buildPair(n.kids[0], e), func(k K, v V) seq.Seq[E] {
		a, b := ty.k.prj(k), ty.v.prj(v)
		called(n, e, 2, a, b)
		return ty.buildSeq(body, e.push(a, b))
	})
}

type kv struct{ k, v int }

func kvs(xs []kv) string {
	ss := make([]string, len(xs))
	for i, x := range xs {
		ss[i] = strconv.Itoa(x.k) + ":" + strconv.Itoa(x.v)
	}
	return strings.Join(ss, " ")
}

func (ty *types[K, V, E]) drainPair(n *node) (out string) {
	defer func() {
		if r := recover(); r != nil {
			out = classify(r)
		}
	}()
	ticks = 0
	afterStop = false
	s := ty.buildPair(n, nil)
	var got []kv
	for has := s != nil; has; has = s.Next() {
		// Key() and Value() are read separately at each position
		got = append(got, kv{ty.k.prj(s.Key()), ty.v.prj(s.Value())})
		if len(got) > runawayLimit {
			return "runaway"
		}
	}
	return kvs(got)
}

func (ty *types[K, V, E]) forEachPair(n *node, errAt int) (out string) {
	defer func() {
		if r := recover(); r != nil {
			out = classify(r)
		}
	}()
	ticks = 0
	afterStop = false
	s := ty.buildPair(n, nil)
	var log []kv
	var sent *visitErr
	err := pair.ForEach(s, func(k K, v V) error {
		idx := len(log)
		log = append(log, kv{ty.k.prj(k), ty.v.prj(v)})
		if idx == errAt {
			sent = &visitErr{idx}
			afterStop = true
			return sent
		}
		if len(log) > runawayLimit {
			panic(runaway{})
		}
		return nil
	})
	es := "-"
	if err != nil {
		if ve, ok := err.(*visitErr); ok && ve == sent {
			es = ve.Error()
		} else {
			es = "foreign-error"
		}
	} else if sent != nil {
		es = "error-lost"
	}
	return kvs(log) + "|" + es
}

func runC15(line string) string {
	toks := strings.Fields(line)
	if len(toks) < 3 {
		return "bad-case"
	}
	errAt, err := strconv.Atoi(toks[0])
	p := &parser{toks: toks[2:]}
	var n *node
	switch toks[1] {
	case "S":
		n = p.seqExpr()
	case "P":
		n = p.pairExpr()
	default:
		return "bad-case"
	}
	if err != nil || p.bad || p.pos != len(p.toks) {
		return "bad-case"
	}
	return runCase(line, n, errAt, toks[1] == "P", typingsC15)
}
