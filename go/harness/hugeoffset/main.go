// Harness for C01 / C02: a focus displaced by 4 GiB or more inside its container (the container is one zero-initialised
// heap object: virtual address space only, nothing is touched besides the pages the lens writes).  Offsets are uintptr; an
// implementation that keeps them in 32 bits addresses the displacement modulo 2^32, inside the padding.
//
// Prints one line per probe: `ok <what>` or `FAIL <what> …`.
package main

import (
	"fmt"
	"os"
	"runtime/debug"
	"unsafe"

	"github.com/fogfish/golem/optics"
)

type Inner struct {
	P [1 << 31]byte
	V int32
	W uint64
}

type Huge struct {
	Pad [1<<32 + 24]byte
	X   int64
	Inner
	Y uint16
}

func main() {
	debug.SetGCPercent(-1)
	hp := new(Huge) // fresh pages from the OS: nothing is touched besides what the lenses write
	huge := hp

	bad := 0
	report := func(ok bool, what string, args ...any) {
		if ok {
			fmt.Println("ok " + what)
			return
		}
		bad++
		fmt.Println("FAIL " + what + " " + fmt.Sprint(args...))
	}
	defer func() {
		if e := recover(); e != nil {
			fmt.Println("FAIL panic", e)
			os.Exit(1)
		}
		if bad != 0 {
			os.Exit(1)
		}
	}()
	fmt.Printf("offsets X=%d V=%d W=%d Y=%d size=%d\n", unsafe.Offsetof(huge.X), unsafe.Offsetof(huge.Inner)+unsafe.Offsetof(huge.Inner.V),
		unsafe.Offsetof(huge.Inner)+unsafe.Offsetof(huge.Inner.W), unsafe.Offsetof(huge.Y), unsafe.Sizeof(*huge))

	// by name, beyond 4 GiB
	lx := optics.ForProduct1[Huge, int64]("X")
	p := lx.Put(huge, 0x1122334455667788)
	report(p == huge, "Put returns the same pointer")
	report(huge.X == 0x1122334455667788, "X holds the value put", huge.X)
	report(lx.Get(huge) == 0x1122334455667788, "Get returns the field", lx.Get(huge))
	lo := unsafe.Offsetof(huge.X) - 1<<32
	report(huge.Pad[lo] == 0 && huge.Pad[lo+7] == 0, "the padding at displacement mod 2^32 is untouched", huge.Pad[lo : lo+8])

	// promoted through a value-embedded struct: RootOffs + Offset crosses 2^32 + 2^31
	lv, lw := optics.ForProduct2[Huge, int32, uint64]("V", "W")
	lv.Put(huge, -77)
	lw.Put(huge, 0xCAFEBABE00C0FFEE)
	report(huge.V == -77 && huge.Inner.W == 0xCAFEBABE00C0FFEE, "V and W (embedded, beyond 6 GiB) hold the values put", huge.V, huge.W)
	report(lv.Get(huge) == -77 && lw.Get(huge) == 0xCAFEBABE00C0FFEE, "Get on the embedded fields")
	report(huge.X == 0x1122334455667788 && huge.Y == 0, "neighbours unchanged")

	// Reflector on the last field
	ry := optics.ForSpectrum1[Huge, uint16]("Y")
	ry.Putt(huge, 0xBEEF)
	report(huge.Y == 0xBEEF && ry.Gett(huge) == 0xBEEF, "Reflector on Y", huge.Y)
	report(huge.Inner.W == 0xCAFEBABE00C0FFEE, "W unchanged by the Reflector")
}
