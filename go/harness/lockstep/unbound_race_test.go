//go:build lockstep_unbound

// Free-running stress for pipe.New (property C08, thorough tier): close of the send side by the sender
// racing with cancel. No synctest: real scheduler, real goroutines.
//
// Phase A: k blocking sends, then close alone resp. cancel alone, drain and compare (nothing may crash).
// Phase A2: cancel while a producer goroutine is sending: every completed send is delivered (cancel_delivers_all).
// Phase B, every round: k blocking sends (all complete before the race starts), then `cancel()` and `close(snd)`
// from two goroutines released together (the closer staggered by 0..39 yields), then the receive side is
// drained and compared with what was sent.
//
// Known finding (known_findings.json, C08 cancel-close-race): when the sender's close lands between the
// pump's empty non-blocking drain and the pump's own close(in), the LIBRARY goroutine panics with
// "close of closed channel"; that panic cannot be recovered here and kills the process — the check
// recognises it by the stack. The sender's own double close (the pump closed first) is recovered: it is
// the sender's problem, not the library's.
//
// env: UNBOUND_RACE_MS (wall-clock budget), UNBOUND_RACE_OUT (result file), UNBOUND_RACE_SEED
package lockstep

import (
	"context"
	"fmt"
	"os"
	"runtime"
	"strconv"
	"sync"
	"testing"
	"time"

	"github.com/fogfish/golem/pipe/v2"
)

func oneTo(k int) []int {
	r := []int{}
	for v := 1; v <= k; v++ {
		r = append(r, v)
	}
	return r
}

func appendOut(path, s string) {
	if f, err := os.OpenFile(path, os.O_APPEND|os.O_CREATE|os.O_WRONLY, 0o644); err == nil {
		f.WriteString(s)
		f.Close()
	}
}

func TestUnboundRace(t *testing.T) {
	out := os.Getenv("UNBOUND_RACE_OUT")
	ms, _ := strconv.Atoi(os.Getenv("UNBOUND_RACE_MS"))
	if out == "" || ms <= 0 {
		t.Skip("UNBOUND_RACE_OUT / UNBOUND_RACE_MS not set")
	}
	seed, _ := strconv.Atoi(os.Getenv("UNBOUND_RACE_SEED"))
	start := time.Now()
	budget := time.Duration(ms) * time.Millisecond
	rounds, bad := 0, ""
	// phase A (a fifth of the budget): close alone and cancel alone — nothing here may crash or lose a value
	_ = os.WriteFile(out, []byte("phase=A\n"), 0o644)
	for i := seed; time.Since(start) < budget/5 && bad == ""; i++ {
		rounds++
		cp := []int{0, 1, 2, 4}[i%4]
		ctx, cancel := context.WithCancel(context.Background())
		rcv, snd := pipe.New[int](ctx, cp)
		k := (i / 4) % 6
		for v := 1; v <= k; v++ {
			snd <- v
		}
		if i%2 == 0 {
			close(snd)
		} else {
			cancel()
		}
		got := []int{}
		for v := range rcv {
			got = append(got, v)
		}
		if fmt.Sprint(got) != fmt.Sprint(oneTo(k)) {
			bad = fmt.Sprintf("round %d cap=%d (%s alone): sent 1..%d, received %v", i, cp, map[bool]string{true: "close", false: "cancel"}[i%2 == 0], k, got)
		}
		cancel()
	}
	// phase A2 (another fifth): cancel racing with an ACTIVE producer — every send that completed (returned normally) must
	// still be delivered before the receive side closes; a send that hits the send side after the pump closed it panics
	// in the sender (recovered here: the sender's problem) and does not count
	for i := seed; time.Since(start) < 2*budget/5 && bad == ""; i++ {
		rounds++
		cp := []int{1, 2, 4, 8}[i%4]
		ctx, cancel := context.WithCancel(context.Background())
		rcv, snd := pipe.New[int](ctx, cp)
		completed := 0
		done := make(chan struct{})
		go func() {
			defer close(done)
			defer func() { _ = recover() }()
			for v := 1; v <= 64; v++ {
				snd <- v
				completed = v
			}
		}()
		for y := 0; y < i%97; y++ {
			runtime.Gosched()
		}
		cancel()
		<-done
		got := []int{}
		for v := range rcv {
			got = append(got, v)
		}
		if fmt.Sprint(got) != fmt.Sprint(oneTo(completed)) {
			bad = fmt.Sprintf("round %d cap=%d (cancel under an active producer): %d sends completed, received %v", i, cp, completed, got)
		}
	}
	// phase B: close racing with cancel
	if bad == "" {
		appendOut(out, "phase=B\n")
	}
	for i := seed; time.Since(start) < budget && bad == ""; i++ {
		rounds++
		cp := []int{0, 1, 2, 4}[i%4]
		ctx, cancel := context.WithCancel(context.Background())
		rcv, snd := pipe.New[int](ctx, cp)
		k := (i / 4) % 6
		for v := 1; v <= k; v++ {
			snd <- v
		}
		var wg sync.WaitGroup
		wg.Add(2)
		gate := make(chan struct{})
		go func() { defer wg.Done(); <-gate; cancel() }()
		go func() {
			defer wg.Done()
			<-gate
			for y := 0; y < i%40; y++ {
				runtime.Gosched()
			}
			defer func() { _ = recover() }() // the sender's own double close
			close(snd)
		}()
		close(gate)
		wg.Wait()
		got := []int{}
		for v := range rcv {
			got = append(got, v)
		}
		if fmt.Sprint(got) != fmt.Sprint(oneTo(k)) {
			bad = fmt.Sprintf("round %d cap=%d (close racing with cancel): sent 1..%d, received %v", i, cp, k, got)
		}
		cancel()
	}
	res := fmt.Sprintf("rounds=%d", rounds)
	if bad != "" {
		res += " LOSS " + bad
	}
	// (appended, never truncated: a pump that panics still runs its deferred close(eg), which lets this goroutine get
	// here while the process is dying — the phase marker must survive)
	appendOut(out, res+"\n")
	if bad != "" {
		t.Fatal(bad)
	}
}
