// fork.Fold with monoid VARIANTS the plain int family of monoidOf cannot express (property C10).
//
//	cfg:   stage=FoldM pkg=fork par=<n> cap=<c> mon=[slow<d>:][ref:]<base>      (base: sum prod max min and or)
//	moves: s<v>, c0, r0, z as for every other stage; t<d> lets d virtual ms pass
//
//	slow<d>: Combine takes d virtual milliseconds (time.Sleep inside the synctest bubble). Virtual time only
//	         advances in t<d> moves, so calls of Combine made by different goroutines OVERLAP deterministically:
//	         every worker that picked up an element - and whatever merges partial results - stays inside Combine
//	         until the script lets time pass.
//	ref:     the carrier is a reference type, *cell. Empty() returns a FRESH cell holding the identity and
//	         Combine accumulates IN PLACE into its left operand and returns it (the *big.Int idiom
//	         `a.Add(a, b); return a`). The harness input stays a `chan int`: an adapter goroutine (outside the
//	         library, not counted by the census) wraps every element into a fresh cell and forwards it over an
//	         unbuffered channel; it holds at most one element, which is why these scripts are not compared
//	         with the Lean model (channel lengths differ by that element) but judged by the direct oracle only.
//	ref:same: as ref, but equal element values are THE SAME *cell object (the adapter interns the cells by value): an
//	         input like s5 s5 s5 is one caller-owned object occurring three times (a shared constant).
//	         Every ref script has a second, pseudo output r1 that INSPECTS the caller's side: w<orig>=<now>,…/f<fold> lists
//	         every distinct cell handed to the library (value when it was created = value the script sent, value it holds
//	         now) and the sequential left fold from a fresh Empty() over the very same cell objects in the order sent,
//	         as they are now (what pipe.Fold of the same input gives: it only reads the elements).
//
// Which goroutine count the stage uses must not depend on GOMAXPROCS: the check runs part of the scripts in a
// harness process started with GOMAXPROCS=1 / 2 (cfg key procs=<n>, read by checks/C10.py, ignored here).
package lockstep

import (
	"context"
	"strconv"
	"strings"
	"sync"
	"time"

	"github.com/fogfish/golem/pipe/v2/fork"
	"github.com/fogfish/golem/pure/monoid"
)

type cell struct{ v int }

// in-place accumulating monoid over *cell
type cellMonoid struct {
	e     int
	op    func(int, int) int
	delay time.Duration
}

func (m cellMonoid) Empty() *cell { return &cell{v: m.e} }

func (m cellMonoid) Combine(a, b *cell) *cell {
	if m.delay > 0 {
		time.Sleep(m.delay)
	}
	a.v = m.op(a.v, b.v)
	return a
}

func outCell(ch <-chan *cell) outp {
	return outp{func() string {
		select {
		case v, ok := <-ch:
			if !ok {
				return "closed"
			}
			if v == nil {
				return "vnil"
			}
			return "v" + strconv.Itoa(v.v)
		default:
			return "empty"
		}
	}, func() int { return len(ch) }, nil}
}

// the caller's view of the cells it handed to the library (ref scripts)
type cellLog struct {
	mu     sync.Mutex
	same   bool
	byVal  map[int]*cell
	cells  []*cell // distinct objects, in order of creation
	orig   []int
	sent   []*cell // in the order handed over (an interned object occurs as often as it was sent)
	closed bool
}

func (l *cellLog) wrap(x int) *cell {
	l.mu.Lock()
	defer l.mu.Unlock()
	c, ok := l.byVal[x]
	if !ok || !l.same {
		c = &cell{v: x}
		l.byVal[x] = c
		l.cells = append(l.cells, c)
		l.orig = append(l.orig, x)
	}
	l.sent = append(l.sent, c)
	return c
}

// pseudo output: w<orig>=<now>,…/f<left fold of the sent cells as they are now, from a fresh identity>
func (l *cellLog) output(e int, op func(int, int) int) outp {
	return outp{func() string {
		l.mu.Lock()
		defer l.mu.Unlock()
		if l.closed {
			return "closed"
		}
		ps := make([]string, len(l.cells))
		for i, c := range l.cells {
			ps[i] = strconv.Itoa(l.orig[i]) + "=" + strconv.Itoa(c.v)
		}
		acc := e
		for _, c := range l.sent {
			acc = op(acc, c.v)
		}
		return "w" + strings.Join(ps, ",") + "/f" + strconv.Itoa(acc)
	}, func() int { return 0 }, nil}
}

// a carrier that cannot be compared (a slice): one element; Empty and Combine build fresh values
type vec []int

type vecMonoid struct {
	e     int
	op    func(int, int) int
	delay time.Duration
}

func (m vecMonoid) Empty() vec { return vec{m.e} }

func (m vecMonoid) Combine(a, b vec) vec {
	if m.delay > 0 {
		time.Sleep(m.delay)
	}
	return vec{m.op(a[0], b[0])}
}

func outVec(ch <-chan vec) outp {
	return outp{func() string {
		select {
		case v, ok := <-ch:
			if !ok {
				return "closed"
			}
			if len(v) != 1 {
				return "vbad" + strconv.Itoa(len(v))
			}
			return "v" + strconv.Itoa(v[0])
		default:
			return "empty"
		}
	}, func() int { return len(ch) }, nil}
}

// parseFoldM splits mon=[slow<d>:][vec:][ref:[same:]]<base>
func parseFoldM(name string) (delay time.Duration, ref bool, base string) {
	parts := strings.Split(name, ":")
	for len(parts) > 1 {
		switch {
		case strings.HasPrefix(parts[0], "slow"):
			d, _ := strconv.Atoi(parts[0][4:])
			delay = time.Duration(d) * time.Millisecond
		case parts[0] == "ref", parts[0] == "vec":
			ref = true
		}
		parts = parts[1:]
	}
	return delay, ref, parts[0]
}

func init() {
	special["FoldM"] = func(ctx context.Context, e *env) ([]chan int, []outp) {
		c := e.c
		delay, ref, base := parseFoldM(c.mon)
		bm := monoidOf(base)
		in := make(chan int, c.cap)
		if !ref {
			m := monoid.FromOp(bm.Empty(), func(a, b int) int {
				if delay > 0 {
					time.Sleep(delay)
				}
				return bm.Combine(a, b)
			})
			return []chan int{in}, []outp{outInt(fork.Fold(ctx, c.par, in, m))}
		}
		if strings.Contains(":"+c.mon, ":vec:") {
			vin := make(chan vec)
			go func() {
				defer close(vin)
				for x := range in {
					select {
					case vin <- vec{x}:
					case <-ctx.Done(): // teardown: keep draining so that this goroutine always exits
					}
				}
			}()
			m := vecMonoid{e: bm.Empty(), op: bm.Combine, delay: delay}
			return []chan int{in}, []outp{outVec(fork.Fold[vec](ctx, c.par, vin, m))}
		}
		cin := make(chan *cell)
		log := &cellLog{same: strings.Contains(":"+c.mon, ":same:"), byVal: map[int]*cell{}}
		go func() {
			defer close(cin)
			for x := range in {
				select {
				case cin <- log.wrap(x):
				case <-ctx.Done(): // teardown: keep draining so that this goroutine always exits
				}
			}
		}()
		e.teardown = append(e.teardown, func() {
			log.mu.Lock()
			log.closed = true
			log.mu.Unlock()
		})
		m := cellMonoid{e: bm.Empty(), op: bm.Combine, delay: delay}
		return []chan int{in}, []outp{outCell(fork.Fold[*cell](ctx, c.par, cin, m)), log.output(bm.Empty(), bm.Combine)}
	}
}
