// Source stages pipe.Emit / pipe.Unfold for the lock-step harness (virtual clock).
//
// cfg: stage=Emit|Unfold mode=pure|lift|try cap=<n> freq=<virtual ms> fn=<1|2|3> seed=<n> fail=<a,b,..>
//
//	Emit  : f(i) = 10*i+3 ; fail lists failing INDICES
//	Unfold: fn=1: x+1, fn=2: 2x, fn=3: (3x+1) mod 1000003 ; fail lists failing VALUES (arguments);
//	        a failing call returns (0, error) like the rest of the harness family
//	the failing set is honoured only when mode != pure (env.fails)
//
// moves: t<d> (advance the virtual clock), r0 (receive from out), r1 (receive from exx), x (cancel),
//
//	z (census), v (call log of the user function: "(arg,ms,arg,ms,...)" with virtual ms since start)
//
// Mirrored in lean/Golem/Driver/Timed.lean and checks/C11.py.
package lockstep

import (
	"context"
	"time"

	"github.com/fogfish/golem/pipe/v2"
)

func emitVal(i int) int { return 10*i + 3 }

func stepVal(fn, x int) int {
	switch fn {
	case 1:
		return x + 1
	case 2:
		return 2 * x
	}
	return (3*x + 1) % modulus
}

// logged wraps the user function: every call is recorded as (argument, virtual ms since start)
// in env.visits, which the generic `v` move prints.
func (e *env) logged(start time.Time, f func(int) int) func(int) (int, error) {
	return func(x int) (int, error) {
		e.mu.Lock()
		e.visits = append(e.visits, x, int(time.Since(start)/time.Millisecond))
		e.mu.Unlock()
		if e.fails(x) {
			return 0, e.failure(x) /* [errkinds] */
		}
		return f(x), nil
	}
}

func init() {
	special["Emit"] = func(ctx context.Context, e *env) ([]chan int, []outp) {
		c := e.c
		start := time.Now()
		emit := emitVal
		if c.work > 0 {
			emit = func(x int) int { time.Sleep(time.Duration(c.work) * time.Millisecond); return emitVal(x) }
		}
		out, exx := pipe.Emit(ctx, c.cap, time.Duration(c.freq)*time.Millisecond, pipeF(c.mode, e.logged(start, emit)))
		return nil, []outp{outInt(out), outErr(exx)}
	}
	special["Unfold"] = func(ctx context.Context, e *env) ([]chan int, []outp) {
		c := e.c
		start := time.Now()
		step := func(x int) int {
			if c.work > 0 { // a step function that takes time: a consumer that keeps up is parked on the channel when it returns
				time.Sleep(time.Duration(c.work) * time.Millisecond)
			}
			return stepVal(c.fn, x)
		}
		out, exx := pipe.Unfold(ctx, c.cap, c.seed, pipeF(c.mode, e.logged(start, step)))
		return nil, []outp{outInt(out), outErr(exx)}
	}
}
