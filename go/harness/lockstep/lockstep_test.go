// Lock-step harness for the channel stages of pipe and pipe/fork (DESIGN.md section 5).
//
// A script = one stage configuration + a list of environment moves. The stage runs inside a
// testing/synctest bubble; every move is a NON-BLOCKING attempt followed by synctest.Wait(), so the
// observation after each move is taken with every goroutine durably blocked (quiescence), on a
// virtual clock. The same script line + the observations go to the Lean oracle, which checks that
// the model admits exactly this observation sequence.
//
// in : LOCKSTEP_IN  (one script per line:  key=value ... | move move ...)
// out: LOCKSTEP_OUT ("#<idx>" marker before each script, then "<idx> <obs> <obs> ...")
package lockstep

import (
	"bufio"
	"context"
	"fmt"
	"os"
	"runtime"
	"sort"
	"strconv"
	"strings"
	"sync"
	"sync/atomic"
	"testing"
	"testing/synctest"
	"time"

	"github.com/fogfish/golem/pipe/v2"
	"github.com/fogfish/golem/pipe/v2/fork"
	"github.com/fogfish/golem/pure/monoid"
)

type cfg struct {
	pre              bool
	deco             bool
	presend          []int
	stage, pkg, mode string
	mon              string // fork.Fold / Fold: monoid name (default: the non-commutative affine one)
	cap, par, n, fn  int
	k                int // Join: number of inputs
	gated            bool
	fail             map[int]bool
	ops              int
	ival, freq       int // Throttling interval / Emit frequency (virtual ms)
	seed             int
	caps             []int         // Join: per-input capacities
	unit             time.Duration // what one time unit of the script is (ival, freq, t<d>): a millisecond, or a microsecond with unit=us
	work             int           // Emit/Unfold: the user function takes this long (virtual ms) before it returns
	dl               int           // context deadline (virtual ms after the start); 0 = a plain WithCancel context
	ek               string        // [errkinds] kind of the error a failing element returns (errkinds_test.go); "" = plain
}

func parseCfg(s string) cfg {
	c := cfg{pkg: "pipe", mode: "pure", par: 1, fn: 2, fail: map[int]bool{}, ops: 1, ival: 1000, freq: 1000, unit: time.Millisecond}
	for _, kv := range strings.Fields(s) {
		p := strings.SplitN(kv, "=", 2)
		if len(p) != 2 {
			continue
		}
		iv, _ := strconv.Atoi(p[1])
		switch p[0] {
		case "stage":
			c.stage = p[1]
		case "pkg":
			c.pkg = p[1]
		case "mode":
			c.mode = p[1]
		case "mon":
			c.mon = p[1]
		case "cap":
			c.cap = iv
		case "par":
			c.par = iv
		case "n":
			c.n = iv
		case "fn":
			c.fn = iv
		case "k":
			c.k = iv
		case "gated":
			c.gated = iv != 0
		case "ops":
			c.ops = iv
		case "ival":
			c.ival = iv
		case "freq":
			c.freq = iv
		case "dl":
			c.dl = iv
		case "deco": // the stage function is a struct that embeds a pipe.F and overrides Apply (decoF)
			c.deco = iv != 0
		case "presend":
			for _, x := range strings.Split(p[1], ",") {
				if x != "" {
					v, _ := strconv.Atoi(x)
					c.presend = append(c.presend, v)
				}
			}
		case "pre": // the caller's context is already cancelled when the stage is created (the script starts with `x`)
			c.pre = iv != 0
		case "work":
			c.work = iv
		case "unit":
			if p[1] == "us" {
				c.unit = time.Microsecond
			}
		case "seed":
			c.seed = iv
		case "ek": // [errkinds]
			c.ek = p[1]
		case "fail":
			for _, x := range strings.Split(p[1], ",") {
				if x != "" {
					v, _ := strconv.Atoi(x)
					c.fail[v] = true
				}
			}
		case "caps":
			for _, x := range strings.Split(p[1], ",") {
				if x != "" {
					v, _ := strconv.Atoi(x)
					c.caps = append(c.caps, v)
				}
			}
		}
	}
	return c
}

// an output of the stage as the environment sees it
type outp struct {
	try  func() string // non-blocking receive: v<val> | e<val> | u | empty | closed
	len  func() int
	wait func() bool // blocking receive; false when the channel is closed (nil: not offered for this output)
}

func outInt(ch <-chan int) outp {
	return outp{func() string {
		select {
		case v, ok := <-ch:
			if !ok {
				return "closed"
			}
			return "v" + strconv.Itoa(v)
		default:
			return "empty"
		}
	}, func() int { return len(ch) }, nil}.withWait(func() bool { _, ok := <-ch; return ok })
}

func (o outp) withWait(w func() bool) outp { o.wait = w; return o }

func outErr(ch <-chan error) outp {
	return outp{func() string {
		select {
		case v, ok := <-ch:
			if !ok {
				return "closed"
			}
			return "e" + v.Error()
		default:
			return "empty"
		}
	}, func() int { return len(ch) }, nil}
}

func outUnit(ch <-chan struct{}) outp {
	return outp{func() string {
		select {
		case _, ok := <-ch:
			if !ok {
				return "closed"
			}
			return "u"
		default:
			return "empty"
		}
	}, func() int { return len(ch) }, nil}
}

const modulus = 1000003

// user-function family (mirrored in lean/Golem/Driver/Funs.lean and in checks/lockstep.py)
func fMap(x int) int { return 3*x + 1 }
func gFMap(x int) []int {
	r := []int{}
	m := x % 3
	if m < 0 {
		m = -m
	}
	for i := 0; i < m; i++ {
		r = append(r, 10*x+i)
	}
	return r
}
func pred(fn, x int) bool  { return x%fn != 0 }
func combine(a, b int) int { return (a*31 + b) % modulus }

const foldEmpty = 7

// monoid family for Fold (mirrored in lean/Golem/Driver/ForkFold.lean and checks/C10.py)
func monoidOf(name string) monoid.Monoid[int] {
	switch name {
	case "sum":
		return monoid.FromOp(0, func(a, b int) int { return a + b })
	case "prod":
		return monoid.FromOp(1, func(a, b int) int { return (a * b) % modulus })
	case "max":
		return monoid.FromOp(-1000000, func(a, b int) int {
			if a > b {
				return a
			}
			return b
		})
	case "min":
		return monoid.FromOp(1000000, func(a, b int) int {
			if a < b {
				return a
			}
			return b
		})
	case "and":
		return monoid.FromOp(1048575, func(a, b int) int { return a & b })
	case "or":
		return monoid.FromOp(0, func(a, b int) int { return a | b })
	}
	return monoid.FromOp(foldEmpty, combine)
}

type env struct {
	c       cfg
	mu      sync.Mutex
	gates   map[int]chan struct{}
	visits  []int
	applied []int
	// library goroutines that belong to the environment's own background use of the library (e.g. another Join that is
	// still alive, join_test.go): not counted by the census
	baseline int
	teardown []func()
}

func (e *env) gate(x int) {
	e.mu.Lock()
	e.applied = append(e.applied, x)
	if !e.c.gated {
		e.mu.Unlock()
		return
	}
	g, ok := e.gates[x]
	if !ok {
		g = make(chan struct{})
		e.gates[x] = g
	}
	e.mu.Unlock()
	<-g
}

// number of gated user-function calls that have started and were not released yet: workers inside the user function
func (e *env) running() int {
	e.mu.Lock()
	defer e.mu.Unlock()
	n := 0
	for _, g := range e.gates {
		select {
		case <-g:
		default:
			n++
		}
	}
	return n
}

func (e *env) fails(x int) bool { return e.c.mode != "pure" && e.c.fail[x] }

func (e *env) release(x int) string {
	e.mu.Lock()
	defer e.mu.Unlock()
	g, ok := e.gates[x]
	if !ok {
		return "nope"
	}
	select {
	case <-g:
		return "nope"
	default:
	}
	close(g)
	return "ok"
}

func (e *env) releaseAll() {
	e.mu.Lock()
	defer e.mu.Unlock()
	e.c.gated = false
	for _, g := range e.gates {
		select {
		case <-g:
		default:
			close(g)
		}
	}
}

func (e *env) either(f func(int) int) func(int) (int, error) {
	return func(x int) (int, error) {
		e.gate(x)
		if e.fails(x) {
			return 0, e.failure(x) /* [errkinds] */
		}
		return f(x), nil
	}
}

func (e *env) eitherB(f func(int) bool) func(int) (bool, error) {
	return func(x int) (bool, error) {
		e.gate(x)
		if e.fails(x) {
			return true, e.failure(x) /* [errkinds] */
		}
		return f(x), nil
	}
}

func (e *env) arrow() func(context.Context, int, chan<- int) error {
	return func(ctx context.Context, x int, out chan<- int) error {
		e.gate(x)
		if e.fails(x) {
			return e.failure(x) /* [errkinds] */
		}
		for _, b := range gFMap(x) {
			select {
			case out <- b:
			case <-ctx.Done():
				return nil
			}
		}
		return nil
	}
}

func pipeF[B any](mode string, f func(int) (B, error)) pipe.F[int, B] {
	switch mode {
	case "try":
		return pipe.Try(f)
	case "lift":
		return pipe.Lift(f)
	}
	return pipe.Pure(func(x int) B { b, _ := f(x); return b })
}

// decoF is an application's own morphism: a struct that embeds a pipe.F (which supplies the unexported methods) and
// overrides Apply. The stage must call THIS Apply. The embedded morphism computes pre(f(x)), the override applies post,
// with post(pre(b)) == b: the stage sees f exactly when it goes through the override.
type decoF[B any] struct {
	pipe.F[int, B]
	post func(B) B
}

func (d decoF[B]) Apply(x int) (B, error) {
	b, err := d.F.Apply(x)
	if err != nil {
		return b, err
	}
	return d.post(b), nil
}

func decorated[B any](deco bool, mode string, f func(int) (B, error), pre, post func(B) B) pipe.F[int, B] {
	if !deco {
		return pipeF(mode, f)
	}
	return decoF[B]{F: pipeF(mode, func(x int) (B, error) {
		b, err := f(x)
		if err != nil {
			return b, err
		}
		return pre(b), nil
	}), post: post}
}

func subK(b int) int   { return b - 1000 }
func addK(b int) int   { return b + 1000 }
func notB(b bool) bool { return !b }

func forkF[B any](mode string, f func(int) (B, error)) fork.F[int, B] {
	switch mode {
	case "try":
		return fork.Try(f)
	case "lift":
		return fork.Lift(f)
	}
	return fork.Pure(func(x int) B { b, _ := f(x); return b })
}

// build starts the stage; returns inputs (send side) and outputs
func build(ctx context.Context, e *env) ([]chan int, []outp) {
	c := e.c
	if c.stage == "Join" {
		ins := make([]chan int, c.k)
		ro := make([]<-chan int, c.k)
		for i := range ins {
			cp := c.cap
			if i < len(c.caps) {
				cp = c.caps[i]
			}
			ins[i] = make(chan int, cp)
			ro[i] = ins[i]
		}
		return ins, []outp{outInt(pipe.Join(ctx, ro...))}
	}
	in := make(chan int, c.cap)
	ins := []chan int{in}
	visit := func(x int) (int, error) {
		e.gate(x)
		e.mu.Lock()
		e.visits = append(e.visits, x)
		e.mu.Unlock()
		if e.fails(x) {
			// ForEach ignores what its function returns: a failing visit must not stop the stage
			return x, e.failure(x)
		}
		return x, nil
	}
	m := monoidOf(c.mon)
	p := func(x int) bool { return pred(c.fn, x) }
	if c.pkg == "fork" {
		switch c.stage {
		case "Map":
			o, x := fork.Map(ctx, c.par, in, forkF(c.mode, e.either(fMap)))
			return ins, []outp{outInt(o), outErr(x)}
		case "FMap":
			var ff fork.FF[int, int]
			if c.mode == "try" {
				ff = fork.TryF(e.arrow())
			} else {
				ff = fork.LiftF(e.arrow())
			}
			o, x := fork.FMap(ctx, c.par, in, ff)
			return ins, []outp{outInt(o), outErr(x)}
		case "Filter":
			return ins, []outp{outInt(fork.Filter(ctx, c.par, in, forkF(c.mode, e.eitherB(p))))}
		case "Partition":
			l, r := fork.Partition(ctx, c.par, in, forkF(c.mode, e.eitherB(p)))
			return ins, []outp{outInt(l), outInt(r)}
		case "ForEach":
			return ins, []outp{outUnit(fork.ForEach(ctx, c.par, in, forkF(c.mode, visit)))}
		case "Void":
			return ins, []outp{outUnit(fork.Void(ctx, c.par, in))}
		case "Fold":
			return ins, []outp{outInt(fork.Fold(ctx, c.par, in, m))}
		}
		panic("unknown fork stage " + c.stage)
	}
	switch c.stage {
	case "Map":
		o, x := pipe.Map(ctx, in, decorated(c.deco, c.mode, e.either(fMap), subK, addK))
		return ins, []outp{outInt(o), outErr(x)}
	case "FMap":
		var ff pipe.FF[int, int]
		if c.mode == "try" {
			ff = pipe.TryF(e.arrow())
		} else {
			ff = pipe.LiftF(e.arrow())
		}
		o, x := pipe.FMap(ctx, in, ff)
		return ins, []outp{outInt(o), outErr(x)}
	case "Filter":
		return ins, []outp{outInt(pipe.Filter(ctx, in, decorated(c.deco, c.mode, e.eitherB(p), notB, notB)))}
	case "Partition":
		l, r := pipe.Partition(ctx, in, decorated(c.deco, c.mode, e.eitherB(p), notB, notB))
		return ins, []outp{outInt(l), outInt(r)}
	case "TakeWhile":
		return ins, []outp{outInt(pipe.TakeWhile(ctx, in, decorated(c.deco, c.mode, e.eitherB(p), notB, notB)))}
	case "Take":
		return ins, []outp{outInt(pipe.Take(ctx, in, c.n))}
	case "ForEach":
		return ins, []outp{outUnit(pipe.ForEach(ctx, in, pipeF(c.mode, visit)))}
	case "Void":
		return ins, []outp{outUnit(pipe.Void(ctx, in))}
	case "Fold":
		return ins, []outp{outInt(pipe.Fold(ctx, in, m))}
	case "StdErrMap":
		// Map composed with StdErr: the value channel is passed through, the error channel drained
		o, x := pipe.Map(ctx, in, pipeF(c.mode, e.either(fMap)))
		return ins, []outp{outInt(pipe.StdErr(o, x))}
	}
	panic("unknown pipe stage " + c.stage)
}

// number of goroutines with a frame inside the library
func census() int {
	buf := make([]byte, 1<<20)
	n := runtime.Stack(buf, true)
	cnt := 0
	for _, g := range strings.Split(string(buf[:n]), "\n\n") {
		if strings.Contains(g, "github.com/fogfish/golem/pipe/v2") && !strings.Contains(g, "lockstep.census") {
			cnt++
		}
	}
	return cnt
}

func lens(ins []chan int, closedIn []bool, outs []outp) string {
	a := []string{}
	for _, c := range ins {
		a = append(a, strconv.Itoa(len(c)))
	}
	b := []string{}
	for _, o := range outs {
		b = append(b, strconv.Itoa(o.len()))
	}
	return "[" + strings.Join(a, ",") + ";" + strings.Join(b, ",") + "]"
}

func runScript(t *testing.T, line string) (res string) {
	parts := strings.SplitN(line, "|", 2)
	c := parseCfg(parts[0])
	moves := []string{}
	if len(parts) > 1 {
		moves = strings.Fields(parts[1])
	}
	obs := []string{}
	synctest.Test(t, func(t *testing.T) {
		ctx, cancel := context.WithCancel(context.Background())
		if c.dl > 0 {
			// a caller's context with a deadline (virtual clock): cancelled by the runtime when the deadline passes
			ctx, cancel = context.WithTimeout(context.Background(), time.Duration(c.dl)*time.Millisecond)
		}
		if c.pre {
			cancel()
		}
		e := &env{c: c, gates: map[int]chan struct{}{}}
		var ins []chan int
		var outs []outp
		if sp, ok := special[c.stage]; ok {
			ins, outs = sp(ctx, e)
		} else {
			ins, outs = build(ctx, e)
		}
		closedIn := make([]bool, len(ins))
		synctest.Wait()
		obs = append(obs, "i:"+lens(ins, closedIn, outs))
		// one executes a single environment move (no waiting for quiescence) and returns its result
		var one func(mv string) string
		one = func(mv string) string {
			var r string
			switch mv[0] {
			case 'b': // burst: sub-moves separated by ',' run back to back, quiescence is awaited only after the last one
				rs := []string{}
				for _, sub := range strings.Split(mv[1:], ",") {
					if sub != "" && sub[0] != 'b' {
						rs = append(rs, one(sub))
					}
				}
				r = strings.Join(rs, ",")
			case 's':
				j, v := 0, 0
				if p := strings.SplitN(mv[1:], ":", 2); len(p) == 2 {
					j, _ = strconv.Atoi(p[0])
					v, _ = strconv.Atoi(p[1])
				} else {
					v, _ = strconv.Atoi(mv[1:])
				}
				if j >= len(ins) || closedIn[j] {
					r = "nope"
				} else {
					select {
					case ins[j] <- v:
						r = "ok"
					default:
						r = "full"
					}
				}
			case 'c':
				j, _ := strconv.Atoi(mv[1:])
				if j >= len(ins) || closedIn[j] {
					r = "nope"
				} else {
					close(ins[j])
					closedIn[j] = true
					r = "ok"
				}
			case 'r':
				k, _ := strconv.Atoi(mv[1:])
				if k >= len(outs) {
					r = "nope"
				} else {
					r = outs[k].try()
					if r == "closed" && e.c.gated && e.running() > 0 {
						// an output is closed although a worker is still inside the user function (its call was never released)
						r = "closed-while-call-running"
					}
				}
			case 'x':
				cancel()
				r = "ok"
				if closesInOnCancel[c.stage] {
					for j := range closedIn {
						closedIn[j] = true
					}
				}
			case 'k': // k<out>_<limit>: a consumer PARKED on the output keeps receiving (up to limit values); once it runs, the
				// context is cancelled; result n<total>_<after cancel>_<closed seen>. The move returns when the consumer
				// has seen the close or has taken its limit.
				p := strings.SplitN(mv[1:], "_", 2)
				k, _ := strconv.Atoi(p[0])
				lim := 200
				if len(p) == 2 {
					lim, _ = strconv.Atoi(p[1])
				}
				if k >= len(outs) || outs[k].wait == nil {
					r = "nope"
					break
				}
				var cancelled atomic.Bool
				total, after, closedSeen := 0, 0, false
				done := make(chan struct{})
				go func() {
					defer close(done)
					for after < lim { // the limit counts values taken AFTER the cancel; before it the consumer just keeps up
						if !outs[k].wait() {
							closedSeen = true
							return
						}
						total++
						if cancelled.Load() {
							after++
						}
					}
				}()
				runtime.Gosched()
				cancel()
				cancelled.Store(true)
				<-done
				r = fmt.Sprintf("n%d_%d_%v", total, after, closedSeen)
			case 'g':
				v, _ := strconv.Atoi(mv[1:])
				r = e.release(v)
			case 't':
				d, _ := strconv.Atoi(mv[1:])
				time.Sleep(time.Duration(d) * c.unit)
				r = "ok"
			case 'z':
				synctest.Wait()
				r = strconv.Itoa(census() - e.baseline)
			case 'v':
				e.mu.Lock()
				s := make([]string, len(e.visits))
				for i, x := range e.visits {
					s[i] = strconv.Itoa(x)
				}
				e.mu.Unlock()
				r = "(" + strings.Join(s, ",") + ")"
			case 'a': // multiset of elements the user function was applied to so far
				e.mu.Lock()
				a := append([]int{}, e.applied...)
				e.mu.Unlock()
				sort.Ints(a)
				s := make([]string, len(a))
				for i, x := range a {
					s[i] = strconv.Itoa(x)
				}
				r = "(" + strings.Join(s, ",") + ")"
			default:
				r = "bad"
			}
			return r
		}
		for _, mv := range moves {
			r := one(mv)
			synctest.Wait()
			obs = append(obs, mv+":"+r+lens(ins, closedIn, outs))
		}
		// teardown: everything must be able to exit, else synctest reports a deadlock (= a leak)
		cancel()
		e.releaseAll()
		for _, f := range e.teardown {
			f()
		}
		if closesInOnCancel[c.stage] {
			for j := range closedIn {
				closedIn[j] = true
			}
		}
		for j := range ins {
			if !closedIn[j] {
				close(ins[j])
				closedIn[j] = true
			}
		}
		synctest.Wait()
		open := len(outs)
		for round := 0; round < 100000 && open > 0; round++ {
			open = 0
			for _, o := range outs {
				for {
					r := o.try()
					if r == "closed" {
						break
					}
					if r == "empty" {
						open++
						break
					}
				}
			}
			time.Sleep(time.Duration(c.ival+c.freq) * time.Millisecond)
			synctest.Wait()
		}
		left := census()
		obs = append(obs, fmt.Sprintf("end:%d:%d", open, left))
	})
	return strings.Join(obs, " ")
}

var special = map[string]func(context.Context, *env) ([]chan int, []outp){}

// stages that close their send side themselves once the context is cancelled (pipe.New): after a
// cancel the harness must neither send on nor close those inputs (it answers `nope`)
var closesInOnCancel = map[string]bool{}

func TestLockstep(t *testing.T) {
	inp, outp := os.Getenv("LOCKSTEP_IN"), os.Getenv("LOCKSTEP_OUT")
	if inp == "" || outp == "" {
		t.Skip("LOCKSTEP_IN / LOCKSTEP_OUT not set")
	}
	fi, err := os.Open(inp)
	if err != nil {
		t.Fatal(err)
	}
	defer fi.Close()
	fo, err := os.OpenFile(outp, os.O_CREATE|os.O_WRONLY|os.O_APPEND, 0o644)
	if err != nil {
		t.Fatal(err)
	}
	defer fo.Close()
	sc := bufio.NewScanner(fi)
	sc.Buffer(make([]byte, 1<<20), 1<<20)
	for sc.Scan() {
		line := sc.Text()
		sp := strings.SplitN(line, " ", 2)
		if len(sp) != 2 {
			continue
		}
		fmt.Fprintf(fo, "#%s\n", sp[0])
		fo.Sync()
		// watchdog on the REAL clock: a script takes milliseconds; a bubble whose goroutines wait on something created
		// outside it (package-level state of the library) is not recognised as deadlocked by synctest and would hang until
		// the test timeout. The process is ended instead; the runner attributes the crash to this script.
		wd := time.AfterFunc(45*time.Second, func() {
			fmt.Fprintln(os.Stderr, "panic: watchdog: the script did not finish within 45 s of real time (deadlock that synctest cannot see: a library goroutine waits on package-level state)")
			os.Exit(3)
		})
		res := runScript(t, sp[1])
		wd.Stop()
		fmt.Fprintf(fo, "%s %s\n", sp[0], res)
	}
}
