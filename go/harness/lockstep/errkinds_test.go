// Lock-step harness: kinds of the error a failing element returns (cfg key `ek=`).
//
// The error modes of pipe (property C07) are stated for every error value: Lift/LiftF deliver the
// first error once and stop, Try/TryF deliver one error per failing element and go on — whatever
// the TYPE of the error is, as long as the pipeline context is alive. In particular an error that
// wraps context.Canceled / context.DeadlineExceeded (an element-level timeout, a cancelled
// sub-request) is an ordinary failure of that element: the context handed to the stage is not done.
//
// Every kind prints as the element itself (Error() == strconv.Itoa(x)), so the observation tokens
// (`e<x>`) and therefore the Lean oracle, which knows nothing about error types, are unaffected.
//
//	ek=            plain errors.New (default)
//	ek=canceled    wraps context.Canceled            (errors.Is(err, context.Canceled))
//	ek=deadline    wraps context.DeadlineExceeded    (errors.Is(err, context.DeadlineExceeded))
//	ek=eof         wraps io.EOF
//	ek=value       a struct-valued error without a cause
//	ek=deep        wraps a wrapper of context.Canceled (two Unwrap steps)
//	ek=elemctx     wraps sub.Err() of a context private to the element (child of Background, cancelled
//	               by the user function itself); the pipeline context is untouched
package lockstep

import (
	"context"
	"errors"
	"io"
	"strconv"
)

// elemErr is the failure of element x caused by `cause`
type elemErr struct {
	x     int
	cause error
}

func (e elemErr) Error() string { return strconv.Itoa(e.x) }
func (e elemErr) Unwrap() error { return e.cause }

type midErr struct{ cause error }

func (e midErr) Error() string { return "sub-request: " + e.cause.Error() }
func (e midErr) Unwrap() error { return e.cause }

func (e *env) failure(x int) error {
	switch e.c.ek {
	case "canceled":
		return elemErr{x, context.Canceled}
	case "deadline":
		return elemErr{x, context.DeadlineExceeded}
	case "deep":
		return elemErr{x, midErr{context.Canceled}}
	case "eof":
		// an error that wraps io.EOF (a reader reporting a truncated record, …): still an error of the element
		return elemErr{x, io.EOF}
	case "value":
		// a value-typed (non-pointer) error: elemErr itself is a struct value; here without a cause
		return elemErr{x, nil}
	case "elemctx":
		// a context private to this element, independent of the pipeline's one
		sub, cancel := context.WithCancel(context.Background())
		cancel()
		return elemErr{x, sub.Err()}
	}
	return errors.New(strconv.Itoa(x))
}
