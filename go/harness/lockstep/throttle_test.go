// Lock-step harness, stage family "Throttling" (property C13 and its share of C06).
//
//	cfg:   stage=Throttling cap=<c> ops=<ops> ival=<interval in virtual ms> [dl=<deadline of the context>] [mode=hist]
//	       mode=hist: the process has a history. Before the stage under test is built, another Throttling has
//	       been used and cancelled while its pacer was waiting for its interval, and a third, unrelated one (own
//	       context, another interval) is busy for the whole run. Calls are independent: none of that may show.
//	moves: s<v> (non-blocking send), c0 (close in), r0 (non-blocking receive), x (cancel),
//	       t<d> (the main goroutine sleeps d virtual ms), z (goroutine census)
//
// Virtual time only advances in t<d> moves, so the check reconstructs the virtual time of every
// receive from the t moves that precede it.
package lockstep

import (
	"context"
	"testing/synctest"
	"time"

	"github.com/fogfish/golem/pipe/v2"
)

func init() {
	special["Throttling"] = func(ctx context.Context, e *env) ([]chan int, []outp) {
		if e.c.mode == "hist" {
			ival := time.Duration(e.c.ival) * e.c.unit
			ctxA, cancelA := context.WithCancel(context.Background())
			inA := make(chan int)
			outA := pipe.Throttling(ctxA, inA, 1, ival)
			inA <- 1
			<-outA
			synctest.Wait() // the pacer of A sits in its interval wait
			cancelA()
			close(inA)
			for range outA {
			}
			synctest.Wait()
			ctxB, cancelB := context.WithCancel(context.Background())
			inB := make(chan int)
			outB := pipe.Throttling(ctxB, inB, 1, 3*ival+7*time.Millisecond)
			go func() {
				for v := 0; ; v++ {
					select {
					case inB <- v:
					case <-ctxB.Done():
						close(inB)
						return
					}
				}
			}()
			go func() {
				for range outB {
				}
			}()
			synctest.Wait()
			e.baseline = census()
			e.teardown = append(e.teardown, func() { cancelB(); synctest.Wait() })
		}
		in := make(chan int, e.c.cap)
		out := pipe.Throttling(ctx, in, e.c.ops, time.Duration(e.c.ival)*e.c.unit)
		return []chan int{in}, []outp{outInt(out)}
	}
}
