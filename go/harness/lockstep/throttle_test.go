// Lock-step harness, stage family "Throttling" (property C13 and its share of C06).
//
//	cfg:   stage=Throttling cap=<c> ops=<ops> ival=<interval in virtual ms>
//	moves: s<v> (non-blocking send), c0 (close in), r0 (non-blocking receive), x (cancel),
//	       t<d> (the main goroutine sleeps d virtual ms), z (goroutine census)
//
// Virtual time only advances in t<d> moves, so the check reconstructs the virtual time of every
// receive from the t moves that precede it.
package lockstep

import (
	"context"
	"time"

	"github.com/fogfish/golem/pipe/v2"
)

func init() {
	special["Throttling"] = func(ctx context.Context, e *env) ([]chan int, []outp) {
		in := make(chan int, e.c.cap)
		out := pipe.Throttling(ctx, in, e.c.ops, time.Duration(e.c.ival)*time.Millisecond)
		return []chan int{in}, []outp{outInt(out)}
	}
}
