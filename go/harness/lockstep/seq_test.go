package lockstep

import (
	"bufio"
	"fmt"
	"os"
	"strconv"
	"strings"
	"testing"

	"github.com/fogfish/golem/pipe/v2"
)

// Seq / ToSeq (no concurrency): per input line of ints print
//
//	<cap> <len before> | <ToSeq result> | <closed after drain>
func TestSeqToSeq(t *testing.T) {
	inp, outp := os.Getenv("SEQ_IN"), os.Getenv("SEQ_OUT")
	if inp == "" || outp == "" {
		t.Skip()
	}
	fi, _ := os.Open(inp)
	defer fi.Close()
	fo, _ := os.Create(outp)
	defer fo.Close()
	sc := bufio.NewScanner(fi)
	sc.Buffer(make([]byte, 1<<20), 1<<20)
	for sc.Scan() {
		xs := []int{}
		for _, w := range strings.Fields(sc.Text()) {
			v, _ := strconv.Atoi(w)
			xs = append(xs, v)
		}
		ch := pipe.Seq(xs...)
		c, l := cap(ch), len(ch)
		// the caller reuses its slice as soon as Seq has returned: the sequence must already be in the channel
		for i := range xs {
			xs[i] = -777
		}
		got := pipe.ToSeq(ch)
		_, ok := <-ch
		s := make([]string, len(got))
		for i, v := range got {
			s[i] = strconv.Itoa(v)
		}
		fmt.Fprintf(fo, "%d %d | %s | %v\n", c, l, strings.Join(s, " "), !ok)
	}
}
