//go:build lockstep_unbound

// pipe.New (the unbounded channel, property C08) as an extra stage family of the lock-step harness.
//
// Script:  stage=New cap=<n> | s<v> … c0 … r0 … x … z
//
//	s<v> non-blocking send on the send side, c0 close of the send side BY THE SENDER,
//	r0 non-blocking receive on the receive side, x cancel, z goroutine census.
//
// pipe.New closes its send side itself once the context is cancelled, so after an `x` the harness
// must neither send on it nor close it (either would crash the harness, not the library): the stage is
// registered in closesInOnCancel and the generic loop then answers `nope`, as the model does.
package lockstep

import (
	"context"
	"unsafe"

	"github.com/fogfish/golem/pipe/v2"
)

func init() {
	closesInOnCancel["New"] = true
	special["New"] = func(ctx context.Context, e *env) ([]chan int, []outp) {
		rcv, snd := pipe.New[int](ctx, e.c.cap)
		// The generic move loop wants `chan int` (it uses len, non-blocking send and close, all of which
		// are legal on a send-only channel). A channel value is one pointer whatever its direction, so the
		// send-only view is widened instead of bridging through a second channel (which would add buffering).
		in := *(*chan int)(unsafe.Pointer(&snd))
		// cfg presend=v1,v2,…: sent at once, before the pump has taken a step (with pre=1: under a context that is already done)
		for _, v := range e.c.presend {
			select {
			case in <- v:
			default:
			}
		}
		return []chan int{in}, []outp{outInt(rcv)}
	}
}
