//go:build verif && lockstep_unbound

// pipe.New at element types other than int (property C08, direct oracle only): the same send / receive / close scenario
// over string, over `any` and over a non-empty interface type, the value 0 being the NIL interface value at the two
// interface types. env: UNBOUND_TYPES_IN (lines `<cap> <mode> v1 v2 …`, mode c = close by the sender at the end,
// x = cancel at the end), UNBOUND_TYPES_OUT (per line `#<n>` when started, then `<n> <result>`).
package lockstep

import (
	"bufio"
	"context"
	"fmt"
	"os"
	"strconv"
	"strings"
	"testing"
	"testing/synctest"

	"github.com/fogfish/golem/pipe/v2"
)

type boxed interface{ unbox() int }
type boxInt int

func (b boxInt) unbox() int { return int(b) }

func newTyped[E any](t *testing.T, cp int, mode string, vals []int, inj func(int) E, prj func(E) int) (res string) {
	synctest.Test(t, func(t *testing.T) {
		ctx, cancel := context.WithCancel(context.Background())
		defer cancel()
		rcv, snd := pipe.New[E](ctx, cp)
		got := []int{}
		// interleave: send two, receive one, …, then end the stream and drain
		k := 0
		for i, v := range vals {
			snd <- inj(v)
			if i%2 == 1 {
				synctest.Wait()
				select {
				case x, ok := <-rcv:
					if !ok {
						res = "closed-early"
						return
					}
					got = append(got, prj(x))
					k++
				default:
				}
			}
		}
		synctest.Wait()
		if mode == "x" {
			cancel()
		} else {
			close(snd)
		}
		for x := range rcv {
			got = append(got, prj(x))
			if len(got) > len(vals)+4 {
				break
			}
		}
		if fmt.Sprint(got) != fmt.Sprint(vals) {
			res = fmt.Sprintf("got %v want %v", got, vals)
			return
		}
		res = "ok"
	})
	return res
}

func TestUnboundTypes(t *testing.T) {
	inp, outp := os.Getenv("UNBOUND_TYPES_IN"), os.Getenv("UNBOUND_TYPES_OUT")
	if inp == "" || outp == "" {
		t.Skip("UNBOUND_TYPES_IN / UNBOUND_TYPES_OUT not set")
	}
	fi, err := os.Open(inp)
	if err != nil {
		t.Fatal(err)
	}
	defer fi.Close()
	fo, err := os.OpenFile(outp, os.O_CREATE|os.O_WRONLY|os.O_APPEND, 0o644)
	if err != nil {
		t.Fatal(err)
	}
	defer fo.Close()
	sc := bufio.NewScanner(fi)
	n := 0
	for sc.Scan() {
		w := strings.Fields(sc.Text())
		if len(w) < 2 {
			continue
		}
		cp, _ := strconv.Atoi(w[0])
		vals := []int{}
		for _, x := range w[2:] {
			v, _ := strconv.Atoi(x)
			vals = append(vals, v)
		}
		fmt.Fprintf(fo, "#%d\n", n)
		fo.Sync()
		rs := []string{
			"string:" + newTyped(t, cp, w[1], vals, strconv.Itoa, func(s string) int { v, _ := strconv.Atoi(s); return v }),
			"any:" + newTyped(t, cp, w[1], vals, func(v int) any {
				if v == 0 {
					return nil
				}
				return v
			}, func(x any) int {
				if x == nil {
					return 0
				}
				return x.(int)
			}),
			"iface:" + newTyped(t, cp, w[1], vals, func(v int) boxed {
				if v == 0 {
					return nil
				}
				return boxInt(v)
			}, func(x boxed) int {
				if x == nil {
					return 0
				}
				return x.unbox()
			}),
		}
		// a zero-size element type (the usual signal channel): only the NUMBER of values can differ
		rs = append(rs, "zero:"+newTyped(t, cp, w[1], make([]int, len(vals)), func(int) struct{} { return struct{}{} }, func(struct{}) int { return 0 }))
		fmt.Fprintf(fo, "%d %s\n", n, strings.Join(rs, " | "))
		n++
	}
}
