// pipe.Join at extreme arities (property C12: "any number of inputs"), direct oracle only: k inputs, every third one
// carrying one element, all closed; the output must deliver exactly those elements and then close.
// env: JOINARITY_OUT (per arity `#<k>` when started, then `<k> ok` / `<k> DIFF …`).
package lockstep

import (
	"context"
	"fmt"
	"os"
	"testing"
	"time"

	"github.com/fogfish/golem/pipe/v2"
)

func TestJoinArity(t *testing.T) {
	outp := os.Getenv("JOINARITY_OUT")
	if outp == "" {
		t.Skip("JOINARITY_OUT not set")
	}
	fo, err := os.OpenFile(outp, os.O_CREATE|os.O_WRONLY|os.O_APPEND, 0o644)
	if err != nil {
		t.Fatal(err)
	}
	defer fo.Close()
	for _, k := range []int{0, 1, 2, 1000, 65536, 65537, 70000, 65534, 65535} {
		fmt.Fprintf(fo, "#%d\n", k)
		fo.Sync()
		ctx, cancel := context.WithCancel(context.Background())
		ins := make([]<-chan int, k)
		want := 0
		for i := range ins {
			c := make(chan int, 1)
			if i%3 == 0 {
				c <- i
				want++
			}
			close(c)
			ins[i] = c
		}
		out := pipe.Join(ctx, ins...)
		seen := map[int]bool{}
		res := "ok"
		deadline := time.After(60 * time.Second)
	loop:
		for {
			select {
			case v, ok := <-out:
				if !ok {
					break loop
				}
				if seen[v] || v%3 != 0 || v < 0 || v >= k {
					res = fmt.Sprintf("DIFF duplicate or invented element %d", v)
				}
				seen[v] = true
			case <-deadline:
				res = fmt.Sprintf("SLOW output not closed within 60 s (%d of %d elements delivered)", len(seen), want)
				break loop
			}
		}
		if res == "ok" && len(seen) != want {
			res = fmt.Sprintf("DIFF %d of %d elements delivered before the output closed", len(seen), want)
		}
		cancel()
		fmt.Fprintf(fo, "%d %s\n", k, res)
	}
}
