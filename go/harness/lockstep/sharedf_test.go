// One morphism value used by several stages (property C07, direct oracle only). A value returned by pipe.Lift / Try /
// LiftF / TryF describes a function and an error mode; handing the same value to a second stage — after an earlier stage
// that used it has already met failures — must give that stage the documented behaviour again: under Lift/LiftF the
// results before the first failure and that first error once, under Try/TryF one error per failing element.
//
// env: SHAREDF_IN (lines `<mode> <stage> <cap> | <input 1> | <input 2>`, elements that are multiples of 7 fail),
// SHAREDF_OUT (per line `<n> ok` or `<n> DIFF …`).
package lockstep

import (
	"bufio"
	"context"
	"errors"
	"fmt"
	"os"
	"strconv"
	"strings"
	"testing"
	"testing/synctest"

	"github.com/fogfish/golem/pipe/v2"
)

func sharedRun(t *testing.T, mode, stage string, cp int, inputs [][]int) (res string) {
	synctest.Test(t, func(t *testing.T) {
		fn := func(x int) (int, error) {
			if x%7 == 0 {
				return 0, errors.New(strconv.Itoa(x))
			}
			return 10 * x, nil
		}
		arrow := func(ctx context.Context, x int, out chan<- int) error {
			if x%7 == 0 {
				return errors.New(strconv.Itoa(x))
			}
			select {
			case out <- 10 * x:
			case <-ctx.Done():
			}
			return nil
		}
		var f pipe.F[int, int]
		var ff pipe.FF[int, int]
		switch mode {
		case "lift":
			f, ff = pipe.Lift(fn), pipe.LiftF(arrow)
		default:
			f, ff = pipe.Try(fn), pipe.TryF(arrow)
		}
		for round, xs := range inputs {
			ctx, cancel := context.WithCancel(context.Background())
			in := make(chan int, cp)
			var out <-chan int
			var exx <-chan error
			if stage == "FMap" {
				out, exx = pipe.FMap(ctx, in, ff)
			} else {
				out, exx = pipe.Map(ctx, in, f)
			}
			go func() {
				defer close(in)
				for _, x := range xs {
					select {
					case in <- x:
					case <-ctx.Done():
						return
					}
				}
			}()
			var vals []int
			var errs []string
			for out != nil || exx != nil {
				select {
				case v, ok := <-out:
					if !ok {
						out = nil
						continue
					}
					vals = append(vals, v)
				case e, ok := <-exx:
					if !ok {
						exx = nil
						continue
					}
					errs = append(errs, e.Error())
				}
			}
			cancel()
			synctest.Wait()
			var wv []int
			var we []string
			for _, x := range xs {
				if x%7 == 0 {
					we = append(we, strconv.Itoa(x))
					if mode == "lift" {
						break
					}
					continue
				}
				wv = append(wv, 10*x)
			}
			if fmt.Sprint(vals) != fmt.Sprint(wv) || fmt.Sprint(errs) != fmt.Sprint(we) {
				res = fmt.Sprintf("DIFF use %d of the value: values %v errors %v, documented %v / %v", round+1, vals, errs, wv, we)
				return
			}
		}
		res = "ok"
	})
	return res
}

func TestSharedMorphism(t *testing.T) {
	inp, outp := os.Getenv("SHAREDF_IN"), os.Getenv("SHAREDF_OUT")
	if inp == "" || outp == "" {
		t.Skip("SHAREDF_IN / SHAREDF_OUT not set")
	}
	fi, err := os.Open(inp)
	if err != nil {
		t.Fatal(err)
	}
	defer fi.Close()
	fo, err := os.OpenFile(outp, os.O_CREATE|os.O_WRONLY|os.O_APPEND, 0o644)
	if err != nil {
		t.Fatal(err)
	}
	defer fo.Close()
	sc := bufio.NewScanner(fi)
	n := 0
	for sc.Scan() {
		parts := strings.Split(sc.Text(), "|")
		head := strings.Fields(parts[0])
		if len(head) != 3 || len(parts) < 2 {
			continue
		}
		cp, _ := strconv.Atoi(head[2])
		var inputs [][]int
		for _, p := range parts[1:] {
			xs := []int{}
			for _, w := range strings.Fields(p) {
				v, _ := strconv.Atoi(w)
				xs = append(xs, v)
			}
			inputs = append(inputs, xs)
		}
		fmt.Fprintf(fo, "#%d\n", n)
		fo.Sync()
		fmt.Fprintf(fo, "%d %s\n", n, sharedRun(t, head[0], head[1], cp, inputs))
		n++
	}
}
