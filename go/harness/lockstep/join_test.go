// pipe.Join called with a SPREAD slice that the caller reuses right after the call (C12).
//
// cfg: stage=Join k=<n> cap=<c> caps=<c0,c1,..> mode=pure|reuse|reusenil
//
//	mode=pure (default)  exactly the generic path of build() in lockstep_test.go (nothing changes for C06 & co)
//	mode=reuse           Join(ctx, arg...) and then, before the caller yields the processor for the first time,
//	                     every element of `arg` is overwritten with a FOREIGN channel (buffered, closed, carrying the two
//	                     marked values foreignMark+10*i, foreignMark+10*i+1). Go does not copy a spread slice: Join's
//	                     parameter aliases `arg`. The property speaks about the channels Join was CALLED with, so the
//	                     foreign values must never come out and the real inputs must be merged as usual.
//	mode=reusenil        the same with nil channels
//	mode=dup             the first input appears twice in the argument list
//	mode=bg              an unrelated Join on an open input is alive for the whole run (not counted by the census)
//
// The environment keeps sending on / closing the REAL inputs (`ins`); the moves and the observations are the ones of
// stage=Join, so the Lean oracle (`oracle lockstep`, which ignores `mode` for Join) checks them unchanged.
//
// "Right after the call" is made schedule-independent by running the call and the overwrite with GOMAXPROCS(1): no
// goroutine started by Join can run before the overwrite unless Join itself waits for it.
package lockstep

import (
	"context"
	"runtime"
	"testing/synctest"

	"github.com/fogfish/golem/pipe/v2"
)

const foreignMark = 900000

func init() {
	special["Join"] = func(ctx context.Context, e *env) ([]chan int, []outp) {
		c := e.c
		if c.mode == "dup" && c.k >= 1 {
			// the same channel appears twice in the argument list: Join(ctx, in0, in0, in1, …). Two copiers share in0; every
			// element still comes out exactly once and the output closes once all inputs are closed and drained.
			ins := make([]chan int, c.k)
			arg := []<-chan int{}
			for i := range ins {
				cp := c.cap
				if i < len(c.caps) {
					cp = c.caps[i]
				}
				ins[i] = make(chan int, cp)
				arg = append(arg, ins[i])
				if i == 0 {
					arg = append(arg, ins[i])
				}
			}
			return ins, []outp{outInt(pipe.Join(ctx, arg...))}
		}
		if c.mode == "bg" {
			// another, unrelated Join is alive (its input stays open until the end of the run): this Join must not wait for it
			other := make(chan int)
			bg := pipe.Join(context.Background(), other)
			synctest.Wait()
			e.baseline = census()
			e.teardown = append(e.teardown, func() {
				close(other)
				for range bg {
				}
			})
			return build(ctx, e)
		}
		if c.mode != "reuse" && c.mode != "reusenil" {
			return build(ctx, e)
		}
		ins := make([]chan int, c.k)
		arg := make([]<-chan int, c.k)
		foreign := make([]<-chan int, c.k)
		for i := range ins {
			cp := c.cap
			if i < len(c.caps) {
				cp = c.caps[i]
			}
			ins[i] = make(chan int, cp)
			arg[i] = ins[i]
			if c.mode == "reuse" {
				f := make(chan int, 2)
				f <- foreignMark + 10*i
				f <- foreignMark + 10*i + 1
				close(f)
				foreign[i] = f
			}
		}
		prev := runtime.GOMAXPROCS(1)
		out := pipe.Join(ctx, arg...)
		copy(arg, foreign) // the caller reuses its scratch slice
		runtime.GOMAXPROCS(prev)
		return ins, []outp{outInt(out)}
	}
}
