package lockstep

import (
	"context"
	"os"
	"runtime"
	"sort"
	"sync/atomic"
	"testing"

	"github.com/fogfish/golem/pipe/v2"
	"github.com/fogfish/golem/pipe/v2/fork"
	"github.com/fogfish/golem/pure/monoid"
)

// Free-running stress (no synctest, real scheduler, meant to be built with -race): only
// schedule-independent facts are asserted, so it never alarms on a correct tree. It supports the
// parts of C09/C10/C12 that a lock-step replay at quiescent points cannot reach: data races on
// state shared between workers.  STRESS=<name>[,<name>...]  (forkmap, forkfold, join), STRESS_ROUNDS=n.
func stressRounds() int {
	n := 20
	if v := os.Getenv("STRESS_ROUNDS"); v != "" {
		x := 0
		for _, c := range v {
			x = x*10 + int(c-'0')
		}
		if x > 0 {
			n = x
		}
	}
	return n
}

func wants(name string) bool {
	for _, w := range splitComma(os.Getenv("STRESS")) {
		if w == name || w == "all" {
			return true
		}
	}
	return false
}

func splitComma(s string) []string {
	out, cur := []string{}, ""
	for _, c := range s {
		if c == ',' {
			out = append(out, cur)
			cur = ""
		} else {
			cur += string(c)
		}
	}
	return append(out, cur)
}

type wide struct {
	a, b, c, d int
}

func TestStressForkMap(t *testing.T) {
	if !wants("forkmap") {
		t.Skip()
	}
	for _, procs := range []int{1, 2, 16} {
		runtime.GOMAXPROCS(procs)
		for par := 1; par <= 8; par *= 2 {
			for rep := 0; rep < stressRounds(); rep++ {
				ctx, cancel := context.WithCancel(context.Background())
				n := 2000 + rep
				xs := make([]int, n)
				for i := range xs {
					xs[i] = i + 1
				}
				var calls int64
				out, exx := fork.Map(ctx, par, pipe.Seq(xs...), fork.Try(func(x int) (int, error) {
					atomic.AddInt64(&calls, 1)
					return 3*x + 1, nil
				}))
				got := pipe.ToSeq(fork.StdErr(out, exx))
				sort.Ints(got)
				if len(got) != n || int(calls) != n {
					t.Fatalf("STRESS forkmap procs=%d par=%d: %d results, %d calls for %d inputs", procs, par, len(got), calls, n)
				}
				for i, v := range got {
					if v != 3*(i+1)+1 {
						t.Fatalf("STRESS forkmap procs=%d par=%d: result multiset differs at %d: %d", procs, par, i, v)
					}
				}
				l, r := fork.Partition(ctx, par, pipe.Seq(xs...), fork.Pure(func(x int) bool { return x%2 == 0 }))
				dl := pipe.ForEach(ctx, l, pipe.Pure(func(x int) int { return x }))
				gr := pipe.ToSeq(r)
				<-dl
				if len(gr) != (n+1)/2 {
					t.Fatalf("STRESS forkmap: partition lost elements: %d", len(gr))
				}
				cancel()
			}
		}
	}
}

func TestStressForkFold(t *testing.T) {
	if !wants("forkfold") {
		t.Skip()
	}
	runtime.GOMAXPROCS(16)
	m := monoid.FromOp(0, func(a, b int) int { return a + b })
	for rep := 0; rep < stressRounds(); rep++ {
		for _, par := range []int{2, 4, 8} {
			n := 100000
			in := make(chan int, 64)
			go func() {
				for i := 1; i <= n; i++ {
					in <- i
				}
				close(in)
			}()
			got := <-fork.Fold(context.Background(), par, in, m)
			if got != n*(n+1)/2 {
				t.Fatalf("STRESS forkfold par=%d: fork.Fold(sum 1..%d) = %d, sequential fold = %d", par, n, got, n*(n+1)/2)
			}
		}
	}
}

func TestStressJoin(t *testing.T) {
	if !wants("join") {
		t.Skip()
	}
	runtime.GOMAXPROCS(16)
	const k, n = 8, 20000
	for rep := 0; rep < stressRounds(); rep++ {
		ins := make([]<-chan wide, k)
		for j := 0; j < k; j++ {
			c := make(chan wide, 4)
			ins[j] = c
			go func(j int, c chan wide) {
				for i := 0; i < n; i++ {
					c <- wide{j, i, j ^ i, j + i}
				}
				close(c)
			}(j, c)
		}
		next := make([]int, k)
		total := 0
		for v := range pipe.Join(context.Background(), ins...) {
			if v.a < 0 || v.a >= k || v.c != v.a^v.b || v.d != v.a+v.b {
				t.Fatalf("STRESS join: invented / torn element %+v", v)
			}
			if v.b != next[v.a] {
				t.Fatalf("STRESS join: input %d: element %d arrived where %d was expected (lost, duplicated or reordered)", v.a, v.b, next[v.a])
			}
			next[v.a]++
			total++
		}
		if total != k*n {
			t.Fatalf("STRESS join: %d elements delivered, %d sent", total, k*n)
		}
	}
}
