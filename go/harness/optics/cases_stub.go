//go:build !verif

package main

// Replaced at run time by the generated cases_gen.go (build tag verif).
var cases = []func() string{}
