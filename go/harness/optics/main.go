// Harness for C04: runs generated scenarios against the real github.com/fogfish/golem/optics
// (replaced to /repo/optics and /repo/hseq).  checks/C04.py generates cases_gen.go (struct types,
// whole-value printers, one function per scenario); this file is the fixed runner and the atom
// printers.  One stdin line = one case (the i-th line runs cases[i]); one result line per case.
// Canonical output: values as s-expressions `(r f1 f2 ..)`, maps `(m k v ..)` sorted by key or
// `nil`, panics as `panic:<class>`; no addresses (pointer identity is printed as same:/diff:).
//
// An optic that addresses memory outside its focus (wrong offset, wrong type) must end up as a
// wrong result LINE of its own case, not as a dead harness: memory faults are turned into panics
// (debug.SetPanicOnFault, caught per step), atoms read through such an optic are printed
// defensively (length guard, non-printable bytes escaped: one case = one line of valid UTF-8), the
// output is flushed per case, and `harness.bin <k>` starts at cases[k] so that the check can step
// over a case that killed the process (fatal runtime errors cannot be recovered).
package main

import (
	"bufio"
	"cmp"
	"encoding/hex"
	"fmt"
	"math"
	"os"
	"runtime/debug"
	"sort"
	"strconv"
	"strings"
	"sync"
)

type Ints interface {
	~int | ~int8 | ~int16 | ~int32 | ~int64
}

func aInt[T Ints](v T) string { return strconv.FormatInt(int64(v), 10) }

// wildLen: no generated value is longer than a few bytes; a longer one was read through a
// misplaced optic (its data pointer is as unreliable as its length: do not touch the bytes).
const wildLen = 1 << 12

// plain: bytes printed as they are (everything the generators produce); the rest is escaped.
func plain(c byte) bool {
	return c > 0x20 && c <= 0x7e && c != '"' && c != '\\' && c != '(' && c != ')' && c != ';'
}

func aStr[T ~string](v T) string {
	if len(v) > wildLen || len(v) < 0 {
		return "wild:strlen=" + strconv.Itoa(len(v))
	}
	var sb strings.Builder
	sb.WriteString(`"`)
	for i := 0; i < len(v); i++ {
		if c := v[i]; plain(c) {
			sb.WriteByte(c)
		} else {
			fmt.Fprintf(&sb, "\\x%02x", c)
		}
	}
	sb.WriteString(`"`)
	return sb.String()
}

func aBytes[T ~[]byte](v T) string {
	if len(v) > wildLen || len(v) < 0 {
		return "wild:byteslen=" + strconv.Itoa(len(v))
	}
	if v != nil && len(v) == 0 {
		return "xe" // empty, not nil
	}
	return "x" + hex.EncodeToString([]byte(v))
}

func aFloat[T ~float32 | ~float64](v T) string {
	if v == 0 && math.Signbit(float64(v)) {
		return "negzero"
	}
	return strconv.FormatFloat(float64(v), 'g', -1, 64)
}

func aBool[T ~bool](v T) string {
	if v {
		return "true"
	}
	return "false"
}

func same(b bool) string {
	if b {
		return "same:"
	}
	return "diff:"
}

func snapMap[M ~map[K]V, K cmp.Ordered, V any](m M, kf func(K) string, vf func(V) string) string {
	if m == nil {
		return "nil"
	}
	keys := make([]K, 0, len(m))
	for k := range m {
		keys = append(keys, k)
	}
	sort.Slice(keys, func(i, j int) bool { return keys[i] < keys[j] })
	var sb strings.Builder
	sb.WriteString("(m")
	for _, k := range keys {
		sb.WriteString(" " + kf(k) + " " + vf(m[k]))
	}
	sb.WriteString(")")
	return sb.String()
}

func classify(e any) string {
	msg := fmt.Sprint(e)
	switch {
	case strings.Contains(msg, "assignment to entry in nil map"):
		return "panic:nilmap"
	case strings.Contains(msg, "nil pointer dereference"):
		return "panic:nilptr"
	case strings.Contains(msg, "index out of range"), strings.Contains(msg, "slice bounds out of range"):
		return "panic:index"
	case strings.Contains(msg, "unexpected fault address"):
		return "panic:fault"
	}
	fmt.Fprintln(os.Stderr, "panic:", msg)
	return "panic:other"
}

// try runs one step under recover.
func try(f func() string) (out string) {
	defer func() {
		if e := recover(); e != nil {
			out = classify(e)
		}
	}()
	return f()
}

// share makes the optic built by the first caller the one every later caller of the same case uses: in the concurrent
// pass (`harness.bin par G R`) G goroutines then work through ONE optic value, each on a value of its own.
var sharedOptics sync.Map

func share[T any](key int, v T) T {
	actual, _ := sharedOptics.LoadOrStore(key, v)
	return actual.(T)
}

// par: every case once alone (its own result is the reference), then G goroutines x R rounds of the same case at once
func par(g, r int) {
	out := bufio.NewWriter(os.Stdout)
	defer out.Flush()
	for i, c := range cases {
		want := try(c)
		var mu sync.Mutex
		diff := ""
		var wg sync.WaitGroup
		for k := 0; k < g; k++ {
			wg.Add(1)
			go func() {
				defer wg.Done()
				for j := 0; j < r; j++ {
					if got := try(c); got != want {
						mu.Lock()
						if diff == "" {
							diff = got
						}
						mu.Unlock()
						return
					}
				}
			}()
		}
		wg.Wait()
		if diff == "" {
			fmt.Fprintf(out, "%d ok\n", i)
		} else {
			fmt.Fprintf(out, "%d DIFF %s\n", i, strings.ReplaceAll(diff, "\n", " "))
		}
	}
}

func main() {
	debug.SetPanicOnFault(true)
	if len(os.Args) == 4 && os.Args[1] == "par" {
		g, _ := strconv.Atoi(os.Args[2])
		r, _ := strconv.Atoi(os.Args[3])
		par(g, r)
		return
	}
	in := bufio.NewScanner(os.Stdin)
	in.Buffer(make([]byte, 1<<22), 1<<22)
	out := bufio.NewWriter(os.Stdout)
	defer out.Flush()
	i := 0
	if len(os.Args) > 1 { // first stdin line runs cases[k]
		if k, err := strconv.Atoi(os.Args[1]); err == nil && k >= 0 {
			i = k
		}
	}
	for in.Scan() {
		if strings.TrimSpace(in.Text()) == "" {
			continue
		}
		if i >= len(cases) {
			fmt.Fprintln(out, "bad-op")
		} else {
			fmt.Fprintln(out, try(cases[i]))
		}
		out.Flush()
		i++
	}
}
