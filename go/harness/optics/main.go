// Harness for C04: runs generated scenarios against the real github.com/fogfish/golem/optics
// (replaced to /repo/optics and /repo/hseq).  checks/C04.py generates cases_gen.go (struct types,
// whole-value printers, one function per scenario); this file is the fixed runner and the atom
// printers.  One stdin line = one case (the i-th line runs cases[i]); one result line per case.
// Canonical output: values as s-expressions `(r f1 f2 ..)`, maps `(m k v ..)` sorted by key or
// `nil`, panics as `panic:<class>`; no addresses (pointer identity is printed as same:/diff:).
package main

import (
	"bufio"
	"cmp"
	"encoding/hex"
	"fmt"
	"os"
	"sort"
	"strconv"
	"strings"
)

type Ints interface {
	~int | ~int8 | ~int16 | ~int32 | ~int64
}

func aInt[T Ints](v T) string { return strconv.FormatInt(int64(v), 10) }

func aStr[T ~string](v T) string { return `"` + string(v) + `"` }

func aBytes[T ~[]byte](v T) string { return "x" + hex.EncodeToString([]byte(v)) }

func aFloat[T ~float32 | ~float64](v T) string {
	return strconv.FormatFloat(float64(v), 'g', -1, 64)
}

func aBool[T ~bool](v T) string {
	if v {
		return "true"
	}
	return "false"
}

func same(b bool) string {
	if b {
		return "same:"
	}
	return "diff:"
}

func snapMap[M ~map[K]V, K cmp.Ordered, V any](m M, kf func(K) string, vf func(V) string) string {
	if m == nil {
		return "nil"
	}
	keys := make([]K, 0, len(m))
	for k := range m {
		keys = append(keys, k)
	}
	sort.Slice(keys, func(i, j int) bool { return keys[i] < keys[j] })
	var sb strings.Builder
	sb.WriteString("(m")
	for _, k := range keys {
		sb.WriteString(" " + kf(k) + " " + vf(m[k]))
	}
	sb.WriteString(")")
	return sb.String()
}

func classify(e any) string {
	msg := fmt.Sprint(e)
	switch {
	case strings.Contains(msg, "assignment to entry in nil map"):
		return "panic:nilmap"
	case strings.Contains(msg, "nil pointer dereference"):
		return "panic:nilptr"
	case strings.Contains(msg, "index out of range"), strings.Contains(msg, "slice bounds out of range"):
		return "panic:index"
	}
	fmt.Fprintln(os.Stderr, "panic:", msg)
	return "panic:other"
}

// try runs one step under recover.
func try(f func() string) (out string) {
	defer func() {
		if e := recover(); e != nil {
			out = classify(e)
		}
	}()
	return f()
}

func main() {
	in := bufio.NewScanner(os.Stdin)
	in.Buffer(make([]byte, 1<<22), 1<<22)
	out := bufio.NewWriter(os.Stdout)
	defer out.Flush()
	i := 0
	for in.Scan() {
		if strings.TrimSpace(in.Text()) == "" {
			continue
		}
		if i >= len(cases) {
			fmt.Fprintln(out, "bad-op")
		} else {
			fmt.Fprintln(out, try(cases[i]))
		}
		i++
	}
}
