// Harness for C18: drives the real skip list (a copy of /repo/internal/maplike staged at run time
// as module github.com/fogfish/golem, see checks/C18.py) with operation histories.
//
// line in : <int|str> <nat|rev> <op> <op> ...   <op> = P:<key>:<val>[:<ignored>] | G:<key> | R:<key>
// line out: per op "<ret> <printed>" joined by " | "
//
//	<ret>     = "_" for Put, the returned value for Get / Remove, "panic:<kind>" if the call panicked
//	a history that does not finish within the watchdog period (a cyclic finger chain makes Get/String spin)
//	prints "hang <ops completed>" and the harness exits with status 3
//	<printed> = canonical rendering of list.String(): the "--- SkipList %p ---" address header is
//	            dropped, every node line "{key\t| f1 f2 ... }" becomes "[key]f1,f2,...", a trailing run
//	            of N>=1 nil fingers becomes "~N"; nodes are joined by ";"
//
// int keys use ord.Int, string keys ord.String; "rev" wraps the reversed comparison in ord.From.
// The node heights are drawn by the implementation (seeded from the clock); they are visible in the output
// as the number of fingers of each node.
package main

import (
	"bufio"
	"fmt"
	"os"
	"strconv"
	"strings"
	"sync/atomic"
	"time"

	"github.com/fogfish/golem/maplike"
	"github.com/fogfish/golem/maplike/skiplist"
	"github.com/fogfish/golem/pure/ord"
)

func canon(s string) string {
	lines := strings.Split(s, "\n")
	var sb strings.Builder
	first := true
	for i, ln := range lines {
		if i == 0 && strings.HasPrefix(ln, "--- SkipList") {
			continue
		}
		if ln == "" {
			continue
		}
		if !first {
			sb.WriteByte(';')
		}
		first = false
		if !strings.HasPrefix(ln, "{") || !strings.HasSuffix(ln, "}") {
			sb.WriteString("?" + strconv.Quote(ln))
			continue
		}
		body := ln[1 : len(ln)-1]
		k := strings.Index(body, "\t| ")
		if k < 0 {
			sb.WriteString("?" + strconv.Quote(ln))
			continue
		}
		fs := strings.Fields(body[k+3:])
		n := len(fs)
		for n > 0 && fs[n-1] == "nil" {
			n--
		}
		sb.WriteString("[" + body[:k] + "]")
		sb.WriteString(strings.Join(fs[:n], ","))
		if n < len(fs) {
			sb.WriteString("~" + strconv.Itoa(len(fs)-n))
		}
	}
	return sb.String()
}

func kind(e any) string {
	msg := fmt.Sprint(e)
	switch {
	case strings.Contains(msg, "index out of range"):
		return "panic:index"
	case strings.Contains(msg, "nil pointer"):
		return "panic:nil"
	}
	return "panic:other"
}

var (
	out      *bufio.Writer
	done     atomic.Int64 // operations completed in the current history
	serial   atomic.Int64 // histories started
	watchdog = 5 * time.Second
)

// watch aborts the whole run when history number n is still running after the watchdog period.
func watch(n int64) {
	time.AfterFunc(watchdog, func() {
		if serial.Load() == n {
			fmt.Fprintf(out, "hang %d\n", done.Load())
			out.Flush()
			os.Exit(3)
		}
	})
}

func history[K any](list maplike.MapLike[K, int], pk func(string) (K, bool), ops []string) string {
	res := make([]string, 0, len(ops))
	done.Store(0)
	watch(serial.Add(1))
	defer serial.Add(1)
	for _, op := range ops {
		f := strings.Split(op, ":")
		ret := "bad-op"
		func() {
			defer func() {
				if e := recover(); e != nil {
					ret = kind(e)
				}
			}()
			switch {
			case f[0] == "P" && len(f) >= 3:
				k, ok := pk(f[1])
				v, err := strconv.Atoi(f[2])
				if ok && err == nil {
					list.Put(k, v)
					ret = "_"
				}
			case f[0] == "G" && len(f) == 2:
				if k, ok := pk(f[1]); ok {
					ret = strconv.Itoa(list.Get(k))
				}
			case f[0] == "R" && len(f) == 2:
				if k, ok := pk(f[1]); ok {
					ret = strconv.Itoa(list.Remove(k))
				}
			}
		}()
		if ret == "bad-op" {
			return "bad-op"
		}
		pr := "panic:string"
		func() {
			defer func() { recover() }()
			pr = canon(list.(fmt.Stringer).String())
		}()
		res = append(res, ret+" "+pr)
		done.Add(1)
	}
	return strings.Join(res, " | ")
}

func main() {
	in := bufio.NewScanner(os.Stdin)
	in.Buffer(make([]byte, 1<<24), 1<<24)
	out = bufio.NewWriterSize(os.Stdout, 1<<20)
	defer out.Flush()
	pint := func(s string) (int, bool) { v, err := strconv.Atoi(s); return v, err == nil }
	pstr := func(s string) (string, bool) { return s, true }
	for in.Scan() {
		w := strings.Fields(in.Text())
		if len(w) < 2 {
			fmt.Fprintln(out, "bad-op")
			continue
		}
		switch w[0] + " " + w[1] {
		case "int nat":
			fmt.Fprintln(out, history(skiplist.New[int, int](ord.Int), pint, w[2:]))
		case "int rev":
			fmt.Fprintln(out, history(skiplist.New[int, int](ord.From[int](func(a, b int) ord.Ordering { return ord.Int.Compare(b, a) })), pint, w[2:]))
		case "str nat":
			fmt.Fprintln(out, history(skiplist.New[string, int](ord.String), pstr, w[2:]))
		case "str rev":
			fmt.Fprintln(out, history(skiplist.New[string, int](ord.From[string](func(a, b string) ord.Ordering { return ord.String.Compare(b, a) })), pstr, w[2:]))
		default:
			fmt.Fprintln(out, "bad-op")
		}
	}
}
