// Harness for C16: drives the real github.com/fogfish/golem/duct (replaced to /repo/duct).
//
// The Go type parameters of the combinators are static, so the programs are *generated Go
// source*: checks/C16.py writes programs_gen.go next to this file (func init() appending to
// `programs`), one closure per program, each step with explicit type arguments, e.g.
//
//	m0 := duct.From[T0](duct.L1[T0](nil))
//	m1 := duct.Join[T0, T0, []T1](duct.L2[T0, []T1](nil), m0)
//	m2 := duct.LiftF[T0, T1, T0](duct.L2[T1, T0](nil), m1)
//
// line in:   P<pid> <k> from <A> join <B> <C> liftF <B> <C> wrapF <B> unit <B> yield <B> ...
// line out:  n=<callbacks invoked> err=<nil|E<k>|...> | <event> <event> ...
//
// The visitor records every callback (callback name, depth, node fields) and returns its error
// from the callback with 0-based index k.  event = +|- kind : depth : payload with
// kind = morph|seq (payload r<Root>d<Deferred>n<len(Seq)>), map (TypeA>TypeB), from, yield (Type).
package main

import (
	"bufio"
	"context"
	"errors"
	"fmt"
	"io"
	"os"
	"strconv"
	"strings"

	"github.com/fogfish/golem/duct"
)

type T0 struct{}
type T1 struct{ X int }

type applier interface{ Apply(duct.Visitor) error }

type program struct {
	desc  string
	build func() applier
}

var programs []program

type rec struct {
	n   int
	k   int
	err error
	out []string
}

func (r *rec) on(ev string) error {
	r.out = append(r.out, ev)
	i := r.n
	r.n++
	if i == r.k {
		return r.err
	}
	return nil
}

func b(x bool) int {
	if x {
		return 1
	}
	return 0
}

func seq(n duct.AstSeq) string {
	return fmt.Sprintf("r%dd%dn%d", b(n.Root), b(n.Deferred), len(n.Seq))
}

func (r *rec) OnEnterMorphism(d int, n duct.AstSeq) error {
	return r.on(fmt.Sprintf("+morph:%d:%s", d, seq(n)))
}
func (r *rec) OnLeaveMorphism(d int, n duct.AstSeq) error {
	return r.on(fmt.Sprintf("-morph:%d:%s", d, seq(n)))
}
func (r *rec) OnEnterSeq(d int, n duct.AstSeq) error {
	return r.on(fmt.Sprintf("+seq:%d:%s", d, seq(n)))
}
func (r *rec) OnLeaveSeq(d int, n duct.AstSeq) error {
	return r.on(fmt.Sprintf("-seq:%d:%s", d, seq(n)))
}
func (r *rec) OnEnterMap(d int, n duct.AstMap) error {
	return r.on(fmt.Sprintf("+map:%d:%s>%s", d, n.TypeA, n.TypeB))
}
func (r *rec) OnLeaveMap(d int, n duct.AstMap) error {
	return r.on(fmt.Sprintf("-map:%d:%s>%s", d, n.TypeA, n.TypeB))
}
func (r *rec) OnEnterFrom(d int, n duct.AstFrom) error {
	return r.on(fmt.Sprintf("+from:%d:%s", d, n.Type))
}
func (r *rec) OnLeaveFrom(d int, n duct.AstFrom) error {
	return r.on(fmt.Sprintf("-from:%d:%s", d, n.Type))
}
func (r *rec) OnEnterYield(d int, n duct.AstYield) error {
	return r.on(fmt.Sprintf("+yield:%d:%s", d, n.Type))
}
func (r *rec) OnLeaveYield(d int, n duct.AstYield) error {
	return r.on(fmt.Sprintf("-yield:%d:%s", d, n.Type))
}

type wrapped struct {
	k     int
	cause error
}

func (w wrapped) Error() string { return "E" + strconv.Itoa(w.k) }
func (w wrapped) Unwrap() error { return w.cause }

func visit(p program, k int) (line string) {
	defer func() {
		if e := recover(); e != nil {
			line = "panic"
		}
	}()
	// the error a callback returns is the caller's business: plain, or one of the well-known sentinels, or a wrapper of
	// one (a visitor that reads its configuration and runs out of input, a cancelled sub-request, …). Whatever it is,
	// Apply must return that very error value.
	var mine error
	switch k % 5 {
	case 1:
		mine = io.EOF
	case 2:
		mine = fmt.Errorf("E%d: %w", k, io.EOF)
	case 3:
		mine = fmt.Errorf("E%d: %w", k, context.Canceled)
	case 4:
		mine = wrapped{k, io.ErrUnexpectedEOF}
	default:
		mine = errors.New("E" + strconv.Itoa(k))
	}
	r := &rec{k: k, err: mine}
	m := p.build()
	err := m.Apply(r)
	es := "nil"
	switch {
	case err == nil:
	case err == mine:
		es = "E" + strconv.Itoa(k) // the very value the callback returned
	default:
		es = "other:" + strings.ReplaceAll(err.Error(), " ", "_")
	}
	return fmt.Sprintf("n=%d err=%s | %s", r.n, es, strings.Join(r.out, " "))
}

func main() {
	in := bufio.NewScanner(os.Stdin)
	in.Buffer(make([]byte, 1<<20), 1<<20)
	out := bufio.NewWriter(os.Stdout)
	defer out.Flush()
	for in.Scan() {
		w := strings.SplitN(in.Text(), " ", 3)
		if len(w) != 3 || !strings.HasPrefix(w[0], "P") {
			fmt.Fprintln(out, "bad-op")
			continue
		}
		pid, e1 := strconv.Atoi(w[0][1:])
		k, e2 := strconv.Atoi(w[1])
		if e1 != nil || e2 != nil || pid < 0 || pid >= len(programs) || k < 0 {
			fmt.Fprintln(out, "bad-op")
			continue
		}
		if programs[pid].desc != w[2] {
			fmt.Fprintln(out, "bad-desc "+programs[pid].desc)
			continue
		}
		fmt.Fprintln(out, visit(programs[pid], k))
	}
}
