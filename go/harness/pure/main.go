// Harness for C17: drives the REAL pure/eq, pure/ord, pure/monoid, pure/semigroup
// (module github.com/fogfish/golem/pure replaced by vlib.REPO/pure).
//
// One case per line, one result line per case (`result | trace` where user functions are involved;
// the trace lists every call of a user-supplied function with its arguments, in call order):
//
//	eqi a b | eqs ha hb           eq.Int.Equal / eq.String.Equal              -> true|false
//	ordi a b | ords ha hb         ord.Int.Compare / ord.String.Compare         -> -1|0|1 (the Ordering value)
//	tri a b c | trs ha hb hc      cmp(a,b) cmp(b,a) cmp(b,c) cmp(a,c) eq(a,b) eq(b,a) eq(b,c) eq(a,c) eq(a,a)
//	cme k a b                     eq.ContraMap[int,int]{eq.From(lt), x/k}.Equal(a,b)       (asymmetric base, non-injective projection)
//	cmo k a b                     ord.ContraMap[int,int]{ord.From(odd), x/k}.Compare(a,b)  (asymmetric base with non-standard results)
//	cmes k ha hb | cmos k ha hb   eq/ord.ContraMap[int,string]{eq.Int|ord.Int, proj_k}      (k=0 len, 1 first byte or -1, 2 byte sum mod 7)
//	fre a b | fro a b             eq.From(lt).Equal / ord.From(odd).Compare
//	sgi a b | sgs ha hb           semigroup.From(sub|concat).Combine
//	moi e a b | mos he ha hb      m := monoid.FromOp(e, sub|concat): m.Empty() m.Combine(a,b)
//	mfi e a b | mfs he ha hb      m := monoid.From(e, semigroup.From(sub|concat)): the same
//
// strings are hex-encoded bytes (`-` = empty); they need not be valid UTF-8.
package main

import (
	"bufio"
	"encoding/hex"
	"errors"
	"fmt"
	"os"
	"strconv"
	"strings"

	"github.com/fogfish/golem/pure/eq"
	"github.com/fogfish/golem/pure/monoid"
	"github.com/fogfish/golem/pure/ord"
	"github.com/fogfish/golem/pure/semigroup"
)

var trace []string

var caseNo int

func hx(s string) string {
	if s == "" {
		return "-"
	}
	return hex.EncodeToString([]byte(s))
}

func unhx(s string) (string, bool) {
	if s == "-" {
		return "", true
	}
	b, err := hex.DecodeString(s)
	return string(b), err == nil
}

func lt(x, y int) bool {
	trace = append(trace, fmt.Sprintf("b:%d:%d", x, y))
	return x < y
}

// an asymmetric "ordering" with results outside {LT, EQ, GT}
func odd(x, y int) ord.Ordering {
	trace = append(trace, fmt.Sprintf("b:%d:%d", x, y))
	switch {
	case x < y:
		return ord.Ordering(5)
	case x == y:
		return ord.Ordering(-7)
	}
	return ord.Ordering(0)
}

func sub(a, b int) int {
	trace = append(trace, fmt.Sprintf("s:%d:%d", a, b))
	return a - b
}

func concat(a, b string) string {
	trace = append(trace, fmt.Sprintf("s:%s:%s", hx(a), hx(b)))
	return a + b
}

func divk(k int) func(int) int {
	return func(x int) int {
		trace = append(trace, fmt.Sprintf("p:%d", x))
		return x / k
	}
}

func projs(k int) func(string) int {
	return func(s string) int {
		trace = append(trace, "p:"+hx(s))
		switch k {
		case 0:
			return len(s)
		case 1:
			if s == "" {
				return -1
			}
			return int(s[0])
		}
		n := 0
		for i := 0; i < len(s); i++ {
			n += int(s[i])
		}
		return n % 7
	}
}

func tri[T any](e eq.Eq[T], o ord.Ord[T], a, b, c T) string {
	return fmt.Sprintf("%d %d %d %d %t %t %t %t %t", o.Compare(a, b), o.Compare(b, a), o.Compare(b, c), o.Compare(a, c),
		e.Equal(a, b), e.Equal(b, a), e.Equal(b, c), e.Equal(a, c), e.Equal(a, a))
}

func run(w []string) (res string, ok bool) {
	defer func() {
		if recover() != nil {
			res, ok = "panic", true
		}
	}()
	if len(w) == 0 {
		return "", false
	}
	var iv []int
	var sv []string
	isStr := strings.HasSuffix(w[0], "s") && w[0] != "cmes" && w[0] != "cmos" || w[0] == "trs"
	args := w[1:]
	k := 0
	if strings.HasPrefix(w[0], "cm") {
		if len(args) < 1 {
			return "", false
		}
		v, err := strconv.Atoi(args[0])
		if err != nil {
			return "", false
		}
		k, args = v, args[1:]
		isStr = w[0] == "cmes" || w[0] == "cmos"
		if isStr && (k < 0 || k > 2) {
			return "", false
		}
	}
	for _, a := range args {
		if isStr {
			s, good := unhx(a)
			if !good {
				return "", false
			}
			sv = append(sv, s)
		} else {
			v, err := strconv.ParseInt(a, 10, 64)
			if err != nil {
				return "", false
			}
			iv = append(iv, int(v))
		}
	}
	// Every other case, a string argument that occurs inside another argument shares that argument's storage (a
	// caller comparing key[:k] with key, or a key with itself): the instances are about the strings' contents.
	caseNo++
	if caseNo%2 == 1 {
		for i := range sv {
			for j := range sv {
				if i == j || len(sv[i]) > len(sv[j]) || (len(sv[i]) == len(sv[j]) && i < j) {
					continue
				}
				if p := strings.Index(sv[j], sv[i]); p >= 0 {
					sv[i] = sv[j][p : p+len(sv[i])]
					break
				}
			}
		}
	}
	n := len(iv) + len(sv)
	need := map[string]int{"eqi": 2, "eqs": 2, "ordi": 2, "ords": 2, "tri": 3, "trs": 3, "cme": 2, "cmo": 2, "cmes": 2, "cmos": 2,
		"fre": 2, "fro": 2, "sgi": 2, "sgs": 2, "moi": 3, "mos": 3, "mfi": 3, "mfs": 3, "mmi": 3}
	if want, known := need[w[0]]; !known || want != n {
		return "", false
	}
	trace = trace[:0]
	switch w[0] {
	case "eqi":
		return strconv.FormatBool(eq.Int.Equal(iv[0], iv[1])), true
	case "eqs":
		return strconv.FormatBool(eq.String.Equal(sv[0], sv[1])), true
	case "ordi":
		return strconv.Itoa(int(ord.Int.Compare(iv[0], iv[1]))), true
	case "ords":
		return strconv.Itoa(int(ord.String.Compare(sv[0], sv[1]))), true
	case "tri":
		return tri[int](eq.Int, ord.Int, iv[0], iv[1], iv[2]), true
	case "trs":
		return tri[string](eq.String, ord.String, sv[0], sv[1], sv[2]), true
	case "cme":
		if k <= 0 {
			return "", false
		}
		var e eq.Eq[int] = eq.ContraMap[int, int]{Eq: eq.From[int](lt), ContraMap: divk(k)}
		res = strconv.FormatBool(e.Equal(iv[0], iv[1]))
	case "cmo":
		if k <= 0 {
			return "", false
		}
		var o ord.Ord[int] = ord.ContraMap[int, int]{Ord: ord.From[int](odd), ContraMap: divk(k)}
		res = strconv.Itoa(int(o.Compare(iv[0], iv[1])))
	case "cmes":
		var e eq.Eq[string] = eq.ContraMap[int, string]{Eq: eq.Int, ContraMap: projs(k)}
		res = strconv.FormatBool(e.Equal(sv[0], sv[1]))
	case "cmos":
		var o ord.Ord[string] = ord.ContraMap[int, string]{Ord: ord.Int, ContraMap: projs(k)}
		res = strconv.Itoa(int(o.Compare(sv[0], sv[1])))
	case "fre":
		var e eq.Eq[int] = eq.From[int](lt)
		res = strconv.FormatBool(e.Equal(iv[0], iv[1]))
	case "fro":
		var o ord.Ord[int] = ord.From[int](odd)
		res = strconv.Itoa(int(o.Compare(iv[0], iv[1])))
	case "sgi":
		var s semigroup.Semigroup[int] = semigroup.From[int](sub)
		res = strconv.Itoa(s.Combine(iv[0], iv[1]))
	case "sgs":
		var s semigroup.Semigroup[string] = semigroup.From[string](concat)
		res = hx(s.Combine(sv[0], sv[1]))
	case "moi":
		m := monoid.FromOp(iv[0], sub)
		res = fmt.Sprintf("%d %d", m.Empty(), m.Combine(iv[1], iv[2]))
	case "mos":
		m := monoid.FromOp(sv[0], concat)
		res = hx(m.Empty()) + " " + hx(m.Combine(sv[1], sv[2]))
	case "mfi":
		m := monoid.From[int](iv[0], semigroup.From[int](sub))
		res = fmt.Sprintf("%d %d", m.Empty(), m.Combine(iv[1], iv[2]))
	case "mmi": // From over a semigroup that is itself a monoid (with another identity): Empty is still the given element
		m := monoid.From[int](iv[0], monoid.FromOp(iv[0]+17, sub))
		res = fmt.Sprintf("%d %d", m.Empty(), m.Combine(iv[1], iv[2]))
	case "mfs":
		m := monoid.From[string](sv[0], semigroup.From[string](concat))
		res = hx(m.Empty()) + " " + hx(m.Combine(sv[1], sv[2]))
	}
	return res + " | " + strings.Join(trace, " "), true
}

// probe: "Empty is the given element" at element types whose zero-ness or identity can be lost by a copy: a nil slice, a
// nil map, an empty non-nil slice, a pointer (the very pointer), an interface holding a typed nil
func probe() {
	type box struct{ v int }
	say := func(name string, ok bool) {
		if ok {
			fmt.Println(name + " ok")
		} else {
			fmt.Println(name + " DIFF")
		}
	}
	cat := func(a, b []int) []int { return append(append([]int{}, a...), b...) }
	say("nil-slice FromOp", monoid.FromOp[[]int](nil, cat).Empty() == nil)
	say("nil-slice From", monoid.From[[]int](nil, semigroup.From[[]int](cat)).Empty() == nil)
	e := monoid.FromOp[[]int]([]int{}, cat).Empty()
	say("empty-slice FromOp", e != nil && len(e) == 0)
	merge := func(a, b map[string]int) map[string]int { return a }
	say("nil-map FromOp", monoid.FromOp[map[string]int](nil, merge).Empty() == nil)
	p := &box{7}
	say("pointer FromOp", monoid.FromOp[*box](p, func(a, b *box) *box { return a }).Empty() == p)
	var tn error = (*os.PathError)(nil)
	got := monoid.FromOp[error](tn, func(a, b error) error { return a }).Empty()
	say("typed-nil-interface FromOp", got == tn && got != nil)
	sl := []int{1, 2, 3}
	es := monoid.FromOp[[]int](sl, cat).Empty()
	say("slice-identity FromOp", len(es) == 3 && &es[0] == &sl[0])
	// ContraMap over pointer- and interface-typed arguments with a projection that is defined on nil: exactly the base
	// instance on the projections, whatever the arguments are
	val := func(b *box) int {
		if b == nil {
			return 0
		}
		return b.v
	}
	elen := func(e error) int {
		if e == nil {
			return 0
		}
		return len(e.Error())
	}
	ce := eq.ContraMap[int, *box]{Eq: eq.Int, ContraMap: val}
	co := ord.ContraMap[int, *box]{Ord: ord.Int, ContraMap: val}
	boxes := []*box{nil, {0}, {-5}, {5}, nil}
	okE, okO := true, true
	for _, a := range boxes {
		for _, b := range boxes {
			if ce.Equal(a, b) != eq.Int.Equal(val(a), val(b)) {
				okE = false
			}
			if co.Compare(a, b) != ord.Int.Compare(val(a), val(b)) {
				okO = false
			}
		}
	}
	say("pointer-args eq.ContraMap", okE)
	say("pointer-args ord.ContraMap", okO)
	ie := eq.ContraMap[int, error]{Eq: eq.Int, ContraMap: elen}
	io_ := ord.ContraMap[int, error]{Ord: ord.Int, ContraMap: elen}
	errs := []error{nil, errors.New(""), errors.New("ab"), tn0()}
	okE, okO = true, true
	for _, a := range errs {
		for _, b := range errs {
			if ie.Equal(a, b) != eq.Int.Equal(elen(a), elen(b)) {
				okE = false
			}
			if io_.Compare(a, b) != ord.Int.Compare(elen(a), elen(b)) {
				okO = false
			}
		}
	}
	say("interface-args eq.ContraMap", okE)
	say("interface-args ord.ContraMap", okO)
}

type zeroErr struct{}

func (*zeroErr) Error() string { return "" }

// a typed nil pointer inside a non-nil interface value (its method is defined on nil)
func tn0() error { return (*zeroErr)(nil) }

func main() {
	if len(os.Args) > 1 && os.Args[1] == "probe" {
		probe()
		return
	}
	in := bufio.NewScanner(os.Stdin)
	in.Buffer(make([]byte, 1<<20), 1<<20)
	out := bufio.NewWriter(os.Stdout)
	defer out.Flush()
	for in.Scan() {
		res, ok := run(strings.Fields(in.Text()))
		if !ok {
			fmt.Fprintln(out, "bad-op")
			continue
		}
		fmt.Fprintln(out, res)
	}
}
