package main

import (
	"fmt"
	"go/ast"
	"go/token"
	"strings"
)

// family queue:  pipe/queue.go  ->  Gen/PipeQueue.lean
//
// The four pointer programs `enq`, `deq`, `head`, `emit` over `*queue[A]`, statement by statement, into the monad
// `QM` of lean/Golem/Model/QueueDSL.lean (state: the arena of Model/Queue.lean; failure: nil dereference).
//
//	queue.head / queue.tail                    (← getHead) / (← getTail)
//	p.next / p.value                           (← nextOf p) / (← valueOf p)
//	queue.head = e / queue.tail = e            setHead e / setTail e
//	p.next = e / p.value = e                   setNext p e / setValue p e
//	v := queue.pool.Get().(*q[A])              let v := (← poolGet c)
//	queue.pool.Put(p)                          poolPut p
//	*e  (e : *A)                               (← deref e)             *new(A), `var zero A`: the zero value
//	nil                                        none                    x (parameter `x *A`): some x
//	a == b / a != b (pointers)                 (a == b) / (a != b)
//	if c { … }   return e   return             do-notation
//	return nil / return ch  (result chan<- A)  return false / return true   (emit: the nil-channel trick)
func init() { families["queue"] = queueFamily }

type qCtx struct {
	fn      string
	queue   string            // the *queue[A] parameter
	valPtr  map[string]bool   // parameters of type *A (pointer to an element): `x` in enq
	chans   map[string]bool   // channel parameters
	locals  map[string]string // local -> "node" | "zero"
	resChan bool              // the result is a channel (emit)
}

func qfail(n ast.Node, format string, args ...any) {
	panic(stReject{fmt.Sprintf("%s: %s", fset.Position(n.Pos()), fmt.Sprintf(format, args...))})
}

// pointer-valued expression (node pointer or value pointer) -> Lean term of type Option _
func (c *qCtx) ptr(e ast.Expr) string {
	switch x := e.(type) {
	case *ast.ParenExpr:
		return c.ptr(x.X)
	case *ast.Ident:
		if x.Name == "nil" {
			return "none"
		}
		if c.locals[x.Name] == "node" {
			return id(x.Name)
		}
		if c.valPtr[x.Name] {
			return "(some " + id(x.Name) + ")"
		}
	case *ast.SelectorExpr:
		if i, ok := x.X.(*ast.Ident); ok && i.Name == c.queue {
			switch x.Sel.Name {
			case "head":
				return "(← getHead)"
			case "tail":
				return "(← getTail)"
			}
		}
		switch x.Sel.Name {
		case "next":
			return "(← nextOf " + c.ptr(x.X) + ")"
		case "value":
			return "(← valueOf " + c.ptr(x.X) + ")"
		}
	case *ast.TypeAssertExpr:
		// queue.pool.Get().(*q[A])
		if src(x.X) == c.queue+".pool.Get()" {
			return "(← poolGet c)"
		}
	}
	qfail(e, "%s: unsupported pointer expression %s", c.fn, src(e))
	return ""
}

// element-valued expression (type A)
func (c *qCtx) elem(e ast.Expr) string {
	switch x := e.(type) {
	case *ast.ParenExpr:
		return c.elem(x.X)
	case *ast.StarExpr:
		if src(x.X) == "new(A)" || strings.HasPrefix(src(x.X), "new(") {
			return "zero"
		}
		return "(← deref " + c.ptr(x.X) + ")"
	case *ast.Ident:
		if c.locals[x.Name] == "zero" {
			return "zero"
		}
	}
	qfail(e, "%s: unsupported element expression %s", c.fn, src(e))
	return ""
}

func (c *qCtx) cond(e ast.Expr) string {
	switch x := e.(type) {
	case *ast.ParenExpr:
		return "(" + c.cond(x.X) + ")"
	case *ast.UnaryExpr:
		if x.Op == token.NOT {
			return "(!" + c.cond(x.X) + ")"
		}
	case *ast.BinaryExpr:
		switch x.Op {
		case token.EQL:
			return "(" + c.ptr(x.X) + " == " + c.ptr(x.Y) + ")"
		case token.NEQ:
			return "(" + c.ptr(x.X) + " != " + c.ptr(x.Y) + ")"
		case token.LAND:
			return "(" + c.cond(x.X) + " && " + c.cond(x.Y) + ")"
		case token.LOR:
			return "(" + c.cond(x.X) + " || " + c.cond(x.Y) + ")"
		}
	}
	qfail(e, "%s: unsupported condition %s", c.fn, src(e))
	return ""
}

func (c *qCtx) block(list []ast.Stmt, depth int, resKind string) []string {
	out := []string{}
	p := ind(depth)
	for _, st := range list {
		switch x := st.(type) {
		case *ast.AssignStmt:
			if len(x.Lhs) == 1 && len(x.Rhs) == 1 {
				if x.Tok == token.DEFINE {
					l, ok := x.Lhs[0].(*ast.Ident)
					if !ok || c.locals[l.Name] != "" {
						qfail(st, "%s: unsupported declaration %s", c.fn, src(st))
					}
					rhs := c.ptr(x.Rhs[0])
					c.locals[l.Name] = "node"
					out = append(out, fmt.Sprintf("%slet %s := %s", p, id(l.Name), rhs))
					continue
				}
				if x.Tok == token.ASSIGN {
					if s, ok := x.Lhs[0].(*ast.SelectorExpr); ok {
						if i, ok := s.X.(*ast.Ident); ok && i.Name == c.queue {
							switch s.Sel.Name {
							case "head":
								out = append(out, p+"setHead "+c.ptr(x.Rhs[0]))
								continue
							case "tail":
								out = append(out, p+"setTail "+c.ptr(x.Rhs[0]))
								continue
							}
						}
						switch s.Sel.Name {
						case "next":
							out = append(out, p+"setNext "+c.ptr(s.X)+" "+c.ptr(x.Rhs[0]))
							continue
						case "value":
							out = append(out, p+"setValue "+c.ptr(s.X)+" "+c.ptr(x.Rhs[0]))
							continue
						}
					}
				}
			}
		case *ast.DeclStmt:
			// var zero A
			if gd, ok := x.Decl.(*ast.GenDecl); ok && gd.Tok == token.VAR && len(gd.Specs) == 1 {
				if vs, ok := gd.Specs[0].(*ast.ValueSpec); ok && len(vs.Names) == 1 && len(vs.Values) == 0 && src(vs.Type) == "A" {
					c.locals[vs.Names[0].Name] = "zero"
					continue
				}
			}
		case *ast.ExprStmt:
			if call, ok := x.X.(*ast.CallExpr); ok && src(call.Fun) == c.queue+".pool.Put" && len(call.Args) == 1 {
				out = append(out, p+"poolPut "+c.ptr(call.Args[0]))
				continue
			}
		case *ast.IfStmt:
			if x.Init == nil {
				out = append(out, p+"if "+c.cond(x.Cond)+" then")
				out = append(out, c.block(x.Body.List, depth+1, resKind)...)
				if x.Else != nil {
					eb, ok := x.Else.(*ast.BlockStmt)
					if !ok {
						qfail(st, "%s: else-if", c.fn)
					}
					out = append(out, p+"else")
					out = append(out, c.block(eb.List, depth+1, resKind)...)
				}
				continue
			}
		case *ast.ReturnStmt:
			switch resKind {
			case "unit":
				if len(x.Results) == 0 {
					out = append(out, p+"return ()")
					continue
				}
			case "ptr":
				if len(x.Results) == 1 {
					out = append(out, p+"return "+c.ptr(x.Results[0]))
					continue
				}
			case "elem":
				if len(x.Results) == 1 {
					out = append(out, p+"return "+c.elem(x.Results[0]))
					continue
				}
			case "chan":
				if len(x.Results) == 1 {
					if i, ok := x.Results[0].(*ast.Ident); ok {
						if i.Name == "nil" {
							out = append(out, p+"return false")
							continue
						}
						if c.chans[i.Name] {
							out = append(out, p+"return true")
							continue
						}
					}
				}
			}
		}
		qfail(st, "%s: unsupported statement %s", c.fn, src(st))
	}
	if len(out) == 0 {
		out = append(out, p+"pure ()")
	}
	return out
}

func queueFamily(files []string) string {
	if len(files) != 1 {
		panic(untranslatable{"queue: expected pipe/queue.go"})
	}
	f := parse(files[0])
	var sb strings.Builder
	sb.WriteString(header(files[0]))
	sb.WriteString("import Golem.Model.QueueDSL\nset_option linter.unusedVariables false\nnamespace Golem.Gen.PipeQueue\nopen Golem.Model.Queue Golem.Model.QDSL\n\nvariable {α : Type}\n\n")
	want := map[string]string{"enq": "unit", "deq": "ptr", "head": "elem", "emit": "chan"}
	rej := []string{}
	for _, d := range f.Decls {
		fd, ok := d.(*ast.FuncDecl)
		if !ok || fd.Recv != nil || want[fd.Name.Name] == "" || fd.Body == nil {
			continue
		}
		func() {
			defer func() {
				if r := recover(); r != nil {
					if u, ok := r.(stReject); ok {
						fmt.Fprintf(&sb, "-- %s: untranslatable: %s\n\n", fd.Name.Name, u.msg)
						rej = append(rej, fmt.Sprintf("%q", fd.Name.Name+": "+u.msg))
						return
					}
					panic(r)
				}
			}()
			c := &qCtx{fn: fd.Name.Name, valPtr: map[string]bool{}, chans: map[string]bool{}, locals: map[string]string{}}
			params := []string{}
			for _, p := range fd.Type.Params.List {
				ts := src(p.Type)
				for _, n := range p.Names {
					switch {
					case ts == "*queue[A]":
						if c.queue != "" {
							qfail(p, "%s: two queue parameters", c.fn)
						}
						c.queue = n.Name
					case ts == "*A":
						c.valPtr[n.Name] = true
						params = append(params, fmt.Sprintf("(%s : α)", id(n.Name)))
					case strings.HasPrefix(ts, "chan"):
						c.chans[n.Name] = true
					default:
						qfail(p, "%s: unsupported parameter %s %s", c.fn, n.Name, ts)
					}
				}
			}
			if c.queue == "" {
				qfail(fd, "%s: no queue parameter", c.fn)
			}
			kind := want[fd.Name.Name]
			resTy := map[string]string{"unit": "Unit", "ptr": "(Option α)", "elem": "α", "chan": "Bool"}[kind]
			// result type check
			rs := ""
			if fd.Type.Results != nil && len(fd.Type.Results.List) == 1 {
				rs = src(fd.Type.Results.List[0].Type)
			}
			okRes := (kind == "unit" && rs == "") || (kind == "ptr" && rs == "*A") || (kind == "elem" && rs == "A") || (kind == "chan" && strings.HasPrefix(rs, "chan"))
			if !okRes {
				qfail(fd, "%s: unexpected result type %q", c.fn, rs)
			}
			body := c.block(fd.Body.List, 1, kind)
			text := strings.Join(body, "\n")
			if strings.Contains(text, "poolGet c") {
				params = append([]string{"(c : Option Nat)"}, params...)
			}
			if strings.Contains(text, "zero") {
				params = append([]string{"(zero : α)"}, params...)
			}
			fmt.Fprintf(&sb, "def %s %s : QM α %s := do\n%s\n\n", id(fd.Name.Name), strings.Join(params, " "), resTy, text)
		}()
	}
	fmt.Fprintf(&sb, "def rejected : List String := [%s]\n\nend Golem.Gen.PipeQueue\n", strings.Join(rej, ", "))
	return sb.String()
}
