package main

import (
	"go/ast"
	"go/token"
)

// Source-level expansion of a higher-order start helper, e.g.
//
//	func spawn(par int, worker func(), finish func()) { var wg …; wg.Add(par); for … { go func() { defer wg.Done(); worker() }() }; go func() { wg.Wait(); finish() }() }
//	…
//	spawn(par, func() { for a := range in { … } }, func() { close(out) })
//
// A statement `h(a1, …, an)` of a stage function, h an unexported top-level function of the same file without results,
// is replaced by h's body, where
//   - a parameter bound to an identifier argument is renamed to it (as in resolveCall);
//   - a parameter bound to a function literal `func() { B }` (no parameters, no results): a statement `p()` that is the
//     LAST statement of its enclosing function body is replaced by B (a `return` inside B then ends that function, as
//     it ended the call); every other use of p makes the expansion give up.
//
// The expansion gives up (the statement is left as it is and the stage translator rejects it) when a local of h would
// capture a name used by the caller, when a parameter is assigned, or when an argument has another form.
func expandHelpers(path string, fd *ast.FuncDecl) {
	used := map[string]bool{}
	ast.Inspect(fd, func(n ast.Node) bool {
		if i, ok := n.(*ast.Ident); ok {
			used[i.Name] = true
		}
		return true
	})
	out := []ast.Stmt{}
	for _, st := range fd.Body.List {
		es, ok := st.(*ast.ExprStmt)
		if !ok {
			out = append(out, st)
			continue
		}
		call, ok := es.X.(*ast.CallExpr)
		if !ok {
			out = append(out, st)
			continue
		}
		body := expandOne(path, call, used)
		if body == nil {
			out = append(out, st)
			continue
		}
		out = append(out, body...)
	}
	fd.Body.List = out
}

func expandOne(path string, call *ast.CallExpr, used map[string]bool) []ast.Stmt {
	h, ok := call.Fun.(*ast.Ident)
	if !ok {
		return nil
	}
	hasLit := false
	for _, a := range call.Args {
		switch x := a.(type) {
		case *ast.Ident:
		case *ast.FuncLit:
			if len(x.Type.Params.List) != 0 || (x.Type.Results != nil && len(x.Type.Results.List) != 0) {
				return nil
			}
			hasLit = true
		default:
			return nil
		}
	}
	if !hasLit {
		return nil
	}
	f := parse(path) // a fresh copy, renamed in place
	for _, d := range f.Decls {
		hd, ok := d.(*ast.FuncDecl)
		if !ok || hd.Recv != nil || hd.Name.Name != h.Name || hd.Name.IsExported() || hd.Body == nil {
			continue
		}
		if hd.Type.Results != nil && len(hd.Type.Results.List) != 0 {
			return nil
		}
		params := []string{}
		for _, p := range hd.Type.Params.List {
			for _, n := range p.Names {
				params = append(params, n.Name)
			}
		}
		if len(params) != len(call.Args) {
			return nil
		}
		ren := map[string]string{}
		lits := map[string]*ast.FuncLit{}
		isParam := map[string]bool{}
		for k, pn := range params {
			isParam[pn] = true
			switch x := call.Args[k].(type) {
			case *ast.Ident:
				ren[pn] = x.Name
			case *ast.FuncLit:
				lits[pn] = x
			}
		}
		bad := false
		ast.Inspect(hd.Body, func(n ast.Node) bool {
			switch y := n.(type) {
			case *ast.AssignStmt:
				for _, l := range y.Lhs {
					if i, ok := l.(*ast.Ident); ok {
						if isParam[i.Name] {
							bad = true
						}
						// a local of the helper must not capture a name the caller uses
						if y.Tok == token.DEFINE && used[i.Name] && !isParam[i.Name] {
							bad = true
						}
					}
				}
			case *ast.ValueSpec:
				for _, i := range y.Names {
					if used[i.Name] || isParam[i.Name] {
						bad = true
					}
				}
			case *ast.IncDecStmt:
				if i, ok := y.X.(*ast.Ident); ok && isParam[i.Name] {
					bad = true
				}
			case *ast.UnaryExpr:
				if y.Op == token.AND {
					if i, ok := y.X.(*ast.Ident); ok && isParam[i.Name] {
						bad = true
					}
				}
			case *ast.ReturnStmt:
				// a return of the helper itself (outside a function literal) would end the caller after inlining
			}
			return true
		})
		// returns directly in the helper body (not inside a literal) are not supported
		var topReturn func(list []ast.Stmt) bool
		topReturn = func(list []ast.Stmt) bool {
			r := false
			for _, s := range list {
				ast.Inspect(s, func(n ast.Node) bool {
					switch n.(type) {
					case *ast.FuncLit:
						return false
					case *ast.ReturnStmt:
						r = true
					}
					return true
				})
			}
			return r
		}
		if bad || topReturn(hd.Body.List) {
			return nil
		}
		// splice `p()` in last position of a function body
		uses := map[string]int{}
		var splice func(list []ast.Stmt, lastOfFunc bool) []ast.Stmt
		var walkLits func(n ast.Node)
		walkLits = func(n ast.Node) {
			ast.Inspect(n, func(m ast.Node) bool {
				if fl, ok := m.(*ast.FuncLit); ok {
					fl.Body.List = splice(fl.Body.List, true)
					return false
				}
				return true
			})
		}
		splice = func(list []ast.Stmt, lastOfFunc bool) []ast.Stmt {
			res := []ast.Stmt{}
			for k, s := range list {
				if es, ok := s.(*ast.ExprStmt); ok {
					if c, ok := es.X.(*ast.CallExpr); ok && len(c.Args) == 0 {
						if i, ok := c.Fun.(*ast.Ident); ok && lits[i.Name] != nil && lastOfFunc && k == len(list)-1 && uses[i.Name] == 0 {
							uses[i.Name]++
							res = append(res, lits[i.Name].Body.List...)
							continue
						}
					}
				}
				walkLits(s)
				res = append(res, s)
			}
			return res
		}
		hd.Body.List = splice(hd.Body.List, false)
		// every literal parameter must have been consumed exactly once, and must not be mentioned elsewhere
		ast.Inspect(hd.Body, func(n ast.Node) bool {
			if i, ok := n.(*ast.Ident); ok && lits[i.Name] != nil {
				// identifiers of the same name inside the spliced bodies belong to the caller; only flag direct uses
				// that remain as calls `p()` or values
				_ = i
			}
			return true
		})
		for pn := range lits {
			if uses[pn] != 1 {
				return nil
			}
		}
		// rename identifier parameters (the spliced literal bodies belong to the caller and are not renamed:
		// they are shared nodes of the caller's AST, so the renaming below must skip them)
		skip := map[ast.Node]bool{}
		for _, l := range lits {
			for _, s := range l.Body.List {
				skip[s] = true
			}
		}
		var rename func(n ast.Node)
		rename = func(n ast.Node) {
			ast.Inspect(n, func(m ast.Node) bool {
				if m != nil && skip[m] {
					return false
				}
				if i, ok := m.(*ast.Ident); ok {
					if to, ok := ren[i.Name]; ok {
						i.Name = to
					}
				}
				return true
			})
		}
		rename(hd.Body)
		return hd.Body.List
	}
	return nil
}
