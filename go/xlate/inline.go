package main

import (
	"fmt"
	"go/ast"
	"go/format"
	"go/parser"
	"go/token"
	"os"
	"path/filepath"
	"regexp"
	"strings"
)

// Source-level expansion of a higher-order start helper, e.g.
//
//	func spawn(par int, worker func(), finish func()) { var wg …; wg.Add(par); for … { go func() { defer wg.Done(); worker() }() }; go func() { wg.Wait(); finish() }() }
//	…
//	spawn(par, func() { for a := range in { … } }, func() { close(out) })
//
// A statement `h(a1, …, an)` of a stage function, h an unexported top-level function of the same file without results,
// is replaced by h's body, where
//   - a parameter bound to an identifier argument is renamed to it (as in resolveCall);
//   - a parameter bound to a function literal `func() { B }` (no parameters, no results): a statement `p()` that is the
//     LAST statement of its enclosing function body is replaced by B (a `return` inside B then ends that function, as
//     it ended the call); every other use of p makes the expansion give up.
//
// The expansion gives up (the statement is left as it is and the stage translator rejects it) when a local of h would
// capture a name used by the caller, when a parameter is assigned, or when an argument has another form.
func expandHelpers(path string, fd *ast.FuncDecl) {
	used := map[string]bool{}
	ast.Inspect(fd, func(n ast.Node) bool {
		if i, ok := n.(*ast.Ident); ok {
			used[i.Name] = true
		}
		return true
	})
	out := []ast.Stmt{}
	for _, st := range fd.Body.List {
		es, ok := st.(*ast.ExprStmt)
		if !ok {
			out = append(out, st)
			continue
		}
		call, ok := es.X.(*ast.CallExpr)
		if !ok {
			out = append(out, st)
			continue
		}
		body := expandOne(path, call, used)
		if body == nil {
			out = append(out, st)
			continue
		}
		out = append(out, body...)
	}
	fd.Body.List = out
}

func expandOne(path string, call *ast.CallExpr, used map[string]bool) []ast.Stmt {
	h, ok := call.Fun.(*ast.Ident)
	if !ok {
		return nil
	}
	hasLit := false
	for _, a := range call.Args {
		switch x := a.(type) {
		case *ast.Ident:
		case *ast.FuncLit:
			if len(x.Type.Params.List) != 0 || (x.Type.Results != nil && len(x.Type.Results.List) != 0) {
				return nil
			}
			hasLit = true
		default:
			return nil
		}
	}
	if !hasLit {
		return nil
	}
	f := parse(path) // a fresh copy, renamed in place
	for _, d := range f.Decls {
		hd, ok := d.(*ast.FuncDecl)
		if !ok || hd.Recv != nil || hd.Name.Name != h.Name || hd.Name.IsExported() || hd.Body == nil {
			continue
		}
		if hd.Type.Results != nil && len(hd.Type.Results.List) != 0 {
			return nil
		}
		params := []string{}
		for _, p := range hd.Type.Params.List {
			for _, n := range p.Names {
				params = append(params, n.Name)
			}
		}
		if len(params) != len(call.Args) {
			return nil
		}
		ren := map[string]string{}
		lits := map[string]*ast.FuncLit{}
		isParam := map[string]bool{}
		for k, pn := range params {
			isParam[pn] = true
			switch x := call.Args[k].(type) {
			case *ast.Ident:
				ren[pn] = x.Name
			case *ast.FuncLit:
				lits[pn] = x
			}
		}
		bad := false
		ast.Inspect(hd.Body, func(n ast.Node) bool {
			switch y := n.(type) {
			case *ast.AssignStmt:
				for _, l := range y.Lhs {
					if i, ok := l.(*ast.Ident); ok {
						if isParam[i.Name] {
							bad = true
						}
						// a local of the helper must not capture a name the caller uses
						if y.Tok == token.DEFINE && used[i.Name] && !isParam[i.Name] {
							bad = true
						}
					}
				}
			case *ast.ValueSpec:
				for _, i := range y.Names {
					if used[i.Name] || isParam[i.Name] {
						bad = true
					}
				}
			case *ast.IncDecStmt:
				if i, ok := y.X.(*ast.Ident); ok && isParam[i.Name] {
					bad = true
				}
			case *ast.UnaryExpr:
				if y.Op == token.AND {
					if i, ok := y.X.(*ast.Ident); ok && isParam[i.Name] {
						bad = true
					}
				}
			case *ast.ReturnStmt:
				// a return of the helper itself (outside a function literal) would end the caller after inlining
			}
			return true
		})
		// returns directly in the helper body (not inside a literal) are not supported
		var topReturn func(list []ast.Stmt) bool
		topReturn = func(list []ast.Stmt) bool {
			r := false
			for _, s := range list {
				ast.Inspect(s, func(n ast.Node) bool {
					switch n.(type) {
					case *ast.FuncLit:
						return false
					case *ast.ReturnStmt:
						r = true
					}
					return true
				})
			}
			return r
		}
		if bad || topReturn(hd.Body.List) {
			return nil
		}
		// splice `p()` in last position of a function body
		uses := map[string]int{}
		var splice func(list []ast.Stmt, lastOfFunc bool) []ast.Stmt
		var walkLits func(n ast.Node)
		walkLits = func(n ast.Node) {
			ast.Inspect(n, func(m ast.Node) bool {
				if fl, ok := m.(*ast.FuncLit); ok {
					fl.Body.List = splice(fl.Body.List, true)
					return false
				}
				return true
			})
		}
		splice = func(list []ast.Stmt, lastOfFunc bool) []ast.Stmt {
			res := []ast.Stmt{}
			for k, s := range list {
				if es, ok := s.(*ast.ExprStmt); ok {
					if c, ok := es.X.(*ast.CallExpr); ok && len(c.Args) == 0 {
						if i, ok := c.Fun.(*ast.Ident); ok && lits[i.Name] != nil && lastOfFunc && k == len(list)-1 && uses[i.Name] == 0 {
							uses[i.Name]++
							res = append(res, lits[i.Name].Body.List...)
							continue
						}
					}
				}
				walkLits(s)
				res = append(res, s)
			}
			return res
		}
		hd.Body.List = splice(hd.Body.List, false)
		// every literal parameter must have been consumed exactly once, and must not be mentioned elsewhere
		ast.Inspect(hd.Body, func(n ast.Node) bool {
			if i, ok := n.(*ast.Ident); ok && lits[i.Name] != nil {
				// identifiers of the same name inside the spliced bodies belong to the caller; only flag direct uses
				// that remain as calls `p()` or values
				_ = i
			}
			return true
		})
		for pn := range lits {
			if uses[pn] != 1 {
				return nil
			}
		}
		// rename identifier parameters (the spliced literal bodies belong to the caller and are not renamed:
		// they are shared nodes of the caller's AST, so the renaming below must skip them)
		skip := map[ast.Node]bool{}
		for _, l := range lits {
			for _, s := range l.Body.List {
				skip[s] = true
			}
		}
		var rename func(n ast.Node)
		rename = func(n ast.Node) {
			ast.Inspect(n, func(m ast.Node) bool {
				if m != nil && skip[m] {
					return false
				}
				if i, ok := m.(*ast.Ident); ok {
					if to, ok := ren[i.Name]; ok {
						i.Name = to
					}
				}
				return true
			})
		}
		rename(hd.Body)
		return hd.Body.List
	}
	return nil
}

// Source-level dissolution of a "shared state" struct, e.g.
//
//	j := &joiner[A]{ctx: ctx, out: make(chan A, len(in))}
//	j.wg.Add(len(in)); for _, c := range in { go j.copy(c) }; go j.closeWhenDone(); return j.out
//	type joiner[A any] struct { ctx context.Context; wg sync.WaitGroup; out chan A }
//	func (j *joiner[A]) copy(c <-chan A) { defer j.wg.Done(); … j.out <- x … }
//
// A statement `v := &T{f1: e1, …}` (or without &) of a stage function, T a struct type of the same file, v used in the
// function only as `v.f` / `v.m(…)`: every field becomes a local of the same name (`f := e`, nothing when e is the
// identifier f itself, `var f Ty` when the literal leaves it out), every method m of T that is used becomes a closure
// `m := func(…) { … }` over those locals (or, when it is only started once as `go v.m()`, the literal `go func() { … }()`),
// and `v.` disappears. The dissolution gives up when v escapes (is used as a value), when a field name would capture a
// name the function uses otherwise, when the struct embeds something, or when a method mentions its receiver as a value.
func destructure(path string, fd *ast.FuncDecl) {
	blocks := []*ast.BlockStmt{fd.Body}
	ast.Inspect(fd.Body, func(n ast.Node) bool {
		if l, ok := n.(*ast.FuncLit); ok {
			blocks = append(blocks, l.Body)
		}
		return true
	})
	for _, blk := range blocks {
		for k, st := range blk.List {
			as, ok := st.(*ast.AssignStmt)
			if !ok || as.Tok != token.DEFINE || len(as.Lhs) != 1 || len(as.Rhs) != 1 {
				continue
			}
			v, ok := as.Lhs[0].(*ast.Ident)
			if !ok {
				continue
			}
			e := as.Rhs[0]
			if u, ok := e.(*ast.UnaryExpr); ok && u.Op == token.AND {
				e = u.X
			}
			if c, ok := e.(*ast.CallExpr); ok && src(c.Fun) == "new" && len(c.Args) == 1 {
				e = &ast.CompositeLit{Type: c.Args[0]} // new(T) is &T{}
			}
			cl, ok := e.(*ast.CompositeLit)
			if !ok || cl.Type == nil {
				continue
			}
			tname, targs := "", []ast.Expr{}
			switch t := cl.Type.(type) {
			case *ast.Ident:
				tname = t.Name
			case *ast.IndexExpr:
				if i, ok := t.X.(*ast.Ident); ok {
					tname, targs = i.Name, []ast.Expr{t.Index}
				}
			case *ast.IndexListExpr:
				if i, ok := t.X.(*ast.Ident); ok {
					tname, targs = i.Name, t.Indices
				}
			}
			if tname == "" {
				continue
			}
			if repl := dissolve(path, fd, blk, k, v.Name, tname, targs, cl); repl != nil {
				blk.List = repl
				return
			}
		}
	}
}

func dissolve(path string, fd *ast.FuncDecl, blk *ast.BlockStmt, at int, v, tname string, targs []ast.Expr, cl *ast.CompositeLit) []ast.Stmt {
	pkgDecls := packageDecls(path) // fresh copies (the file itself, then its siblings): method bodies are renamed in place
	var sd *ast.StructType
	tparams := []string{}
	for _, d := range pkgDecls {
		gd, ok := d.(*ast.GenDecl)
		if !ok || gd.Tok != token.TYPE {
			continue
		}
		for _, sp := range gd.Specs {
			ts := sp.(*ast.TypeSpec)
			if ts.Name.Name != tname {
				continue
			}
			s, ok := ts.Type.(*ast.StructType)
			if !ok {
				return nil
			}
			sd = s
			if ts.TypeParams != nil {
				for _, fl := range ts.TypeParams.List {
					for _, n := range fl.Names {
						tparams = append(tparams, n.Name)
					}
				}
			}
		}
	}
	if sd == nil || len(tparams) != len(targs) {
		return nil
	}
	fields := []string{}
	ftype := map[string]ast.Expr{}
	for _, fl := range sd.Fields.List {
		if len(fl.Names) == 0 {
			return nil // embedded
		}
		for _, n := range fl.Names {
			fields = append(fields, n.Name)
			ftype[n.Name] = fl.Type
		}
	}
	isField := map[string]bool{}
	for _, n := range fields {
		isField[n] = true
	}
	// literal values
	vals := map[string]ast.Expr{}
	for _, el := range cl.Elts {
		kv, ok := el.(*ast.KeyValueExpr)
		if !ok {
			return nil
		}
		kid, ok := kv.Key.(*ast.Ident)
		if !ok || !isField[kid.Name] {
			return nil
		}
		vals[kid.Name] = kv.Value
	}
	// methods of T
	type meth struct {
		fd   *ast.FuncDecl
		recv string
	}
	methods := map[string]*meth{}
	morder := []string{}
	for _, d := range pkgDecls {
		md, ok := d.(*ast.FuncDecl)
		if !ok || md.Recv == nil || len(md.Recv.List) != 1 || md.Body == nil {
			continue
		}
		rt := md.Recv.List[0].Type
		if s, ok := rt.(*ast.StarExpr); ok {
			rt = s.X
		}
		rn, rparams := "", []string{}
		switch t := rt.(type) {
		case *ast.Ident:
			rn = t.Name
		case *ast.IndexExpr:
			if i, ok := t.X.(*ast.Ident); ok {
				rn = i.Name
				if p, ok := t.Index.(*ast.Ident); ok {
					rparams = []string{p.Name}
				}
			}
		case *ast.IndexListExpr:
			if i, ok := t.X.(*ast.Ident); ok {
				rn = i.Name
				for _, ix := range t.Indices {
					if p, ok := ix.(*ast.Ident); ok {
						rparams = append(rparams, p.Name)
					}
				}
			}
		}
		if rn != tname {
			continue
		}
		if len(rparams) != len(targs) || len(md.Recv.List[0].Names) != 1 {
			return nil
		}
		// receiver type parameters -> the caller's type arguments (identifiers only)
		tren := map[string]string{}
		for i, p := range rparams {
			a, ok := targs[i].(*ast.Ident)
			if !ok {
				return nil
			}
			if p != a.Name {
				tren[p] = a.Name
			}
		}
		if len(tren) > 0 {
			ast.Inspect(md, func(n ast.Node) bool {
				if i, ok := n.(*ast.Ident); ok {
					if to, ok := tren[i.Name]; ok {
						i.Name = to
					}
				}
				return true
			})
		}
		methods[md.Name.Name] = &meth{fd: md, recv: md.Recv.List[0].Names[0].Name}
		morder = append(morder, md.Name.Name)
	}
	// struct type parameters -> type arguments inside the field types
	{
		tren := map[string]string{}
		for i, p := range tparams {
			a, ok := targs[i].(*ast.Ident)
			if !ok {
				return nil
			}
			if p != a.Name {
				tren[p] = a.Name
			}
		}
		for _, t := range ftype {
			ast.Inspect(t, func(n ast.Node) bool {
				if i, ok := n.(*ast.Ident); ok {
					if to, ok := tren[i.Name]; ok {
						i.Name = to
					}
				}
				return true
			})
		}
	}
	// names the function uses apart from `v.x` selections and the literal's keys
	used := map[string]bool{}
	var collect func(n ast.Node)
	collect = func(n ast.Node) {
		ast.Inspect(n, func(m ast.Node) bool {
			switch y := m.(type) {
			case *ast.SelectorExpr:
				if i, ok := y.X.(*ast.Ident); ok && i.Name == v {
					return false
				}
			case *ast.KeyValueExpr:
				collect(y.Value)
				return false
			case *ast.Ident:
				used[y.Name] = true
			}
			return true
		})
	}
	// scope: the block the struct lives in, the function's signature, and the function's own statements outside any
	// other function literal (a sibling literal has its own locals)
	collect(blk)
	collect(fd.Type)
	if blk != fd.Body {
		var outer func(n ast.Node)
		outer = func(n ast.Node) {
			ast.Inspect(n, func(m ast.Node) bool {
				if l, ok := m.(*ast.FuncLit); ok {
					// descend only into the literal that contains blk
					inside := false
					ast.Inspect(l, func(q ast.Node) bool {
						if q == ast.Node(blk) {
							inside = true
						}
						return !inside
					})
					if inside && l.Body != blk {
						for _, st := range l.Body.List {
							outer(st)
						}
					}
					return false
				}
				switch y := m.(type) {
				case *ast.SelectorExpr:
					if i, ok := y.X.(*ast.Ident); ok && i.Name == v {
						return false
					}
				case *ast.Ident:
					used[y.Name] = true
				}
				return true
			})
		}
		for _, st := range fd.Body.List {
			outer(st)
		}
	}
	// a field or method whose name means something else in the scope (or is a builtin) gets a fresh name
	for _, b := range []string{"close", "len", "cap", "make", "new", "append", "copy", "delete", "panic", "recover", "print", "println", "min", "max", "clear"} {
		used[b] = true
	}
	aliases := map[string]string{}
	alias := func(name string) string {
		if a, ok := aliases[name]; ok {
			return a
		}
		a := name
		sameNameField := false
		if v0, has := vals[name]; has {
			if i, ok := v0.(*ast.Ident); ok && i.Name == name {
				sameNameField = true // `ctx: ctx`: the local of that name IS the field
			}
		}
		if !sameNameField {
			for used[a] {
				a += "_"
			}
		}
		used[a] = true
		aliases[name] = a
		return a
	}
	// rewrite `r.f` -> f, `r.m` -> m; any other mention of r gives up
	bad := false
	useCount := map[string]int{}
	var strip func(n ast.Node, r string) // in place, on parents holding the selector
	strip = func(root ast.Node, r string) {
		ast.Inspect(root, func(n ast.Node) bool {
			rewrite := func(e ast.Expr) ast.Expr {
				if s, ok := e.(*ast.SelectorExpr); ok {
					if i, ok := s.X.(*ast.Ident); ok && i.Name == r {
						if isField[s.Sel.Name] {
							return ast.NewIdent(alias(s.Sel.Name))
						}
						if methods[s.Sel.Name] != nil {
							useCount[s.Sel.Name]++
							return ast.NewIdent(alias(s.Sel.Name))
						}
						bad = true
					}
				}
				return e
			}
			switch y := n.(type) {
			case *ast.SelectorExpr:
				y.X = rewrite(y.X)
			case *ast.CallExpr:
				y.Fun = rewrite(y.Fun)
				for i := range y.Args {
					y.Args[i] = rewrite(y.Args[i])
				}
			case *ast.SendStmt:
				y.Chan, y.Value = rewrite(y.Chan), rewrite(y.Value)
			case *ast.UnaryExpr:
				y.X = rewrite(y.X)
			case *ast.BinaryExpr:
				y.X, y.Y = rewrite(y.X), rewrite(y.Y)
			case *ast.RangeStmt:
				y.X = rewrite(y.X)
			case *ast.AssignStmt:
				for i := range y.Lhs {
					y.Lhs[i] = rewrite(y.Lhs[i])
				}
				for i := range y.Rhs {
					y.Rhs[i] = rewrite(y.Rhs[i])
				}
			case *ast.ReturnStmt:
				for i := range y.Results {
					y.Results[i] = rewrite(y.Results[i])
				}
			case *ast.ExprStmt:
				y.X = rewrite(y.X)
			case *ast.IfStmt:
				y.Cond = rewrite(y.Cond)
			case *ast.ForStmt:
				if y.Cond != nil {
					y.Cond = rewrite(y.Cond)
				}
			case *ast.ParenExpr:
				y.X = rewrite(y.X)
			case *ast.IndexExpr:
				y.X, y.Index = rewrite(y.X), rewrite(y.Index)
			case *ast.StarExpr:
				y.X = rewrite(y.X)
			case *ast.KeyValueExpr:
				y.Value = rewrite(y.Value)
			case *ast.CompositeLit:
				for i := range y.Elts {
					y.Elts[i] = rewrite(y.Elts[i])
				}
			case *ast.IncDecStmt:
				y.X = rewrite(y.X)
			case *ast.CaseClause:
				for i := range y.List {
					y.List[i] = rewrite(y.List[i])
				}
			case *ast.SwitchStmt:
				if y.Tag != nil {
					y.Tag = rewrite(y.Tag)
				}
			}
			return true
		})
		// anything left that mentions r is a use as a value
		ast.Inspect(root, func(n ast.Node) bool {
			if i, ok := n.(*ast.Ident); ok && i.Name == r {
				bad = true
			}
			return true
		})
	}
	// the function itself (without the defining statement)
	rest := append([]ast.Stmt{}, blk.List[:at]...)
	tail := blk.List[at+1:]
	holder := &ast.BlockStmt{List: tail}
	strip(holder, v)
	for _, val := range vals {
		ast.Inspect(val, func(n ast.Node) bool {
			if i, ok := n.(*ast.Ident); ok && i.Name == v {
				bad = true
			}
			return true
		})
	}
	if bad {
		return nil
	}
	// methods: strip their receivers (a method may call another one)
	for _, mn := range morder {
		m := methods[mn]
		strip(m.fd.Body, m.recv)
		// a local or parameter of the method must not capture a field or method name
		ast.Inspect(m.fd, func(n ast.Node) bool {
			switch y := n.(type) {
			case *ast.AssignStmt:
				if y.Tok == token.DEFINE {
					for _, l := range y.Lhs {
						if i, ok := l.(*ast.Ident); ok && (isField[i.Name] || methods[i.Name] != nil) {
							bad = true
						}
					}
				}
			case *ast.Field:
				if n != m.fd.Recv.List[0] {
					for _, i := range y.Names {
						if isField[i.Name] || methods[i.Name] != nil {
							bad = true
						}
					}
				}
			case *ast.ValueSpec:
				for _, i := range y.Names {
					if isField[i.Name] || methods[i.Name] != nil {
						bad = true
					}
				}
			}
			return true
		})
	}
	if bad {
		return nil
	}
	// field locals
	for _, fn := range fields {
		val, has := vals[fn]
		if has {
			if i, ok := val.(*ast.Ident); ok && i.Name == fn {
				continue // `ctx: ctx`: the local of that name is the field
			}
		}
		if has {
			rest = append(rest, &ast.AssignStmt{Lhs: []ast.Expr{ast.NewIdent(alias(fn))}, Tok: token.DEFINE, Rhs: []ast.Expr{val}})
		} else {
			rest = append(rest, &ast.DeclStmt{Decl: &ast.GenDecl{Tok: token.VAR, Specs: []ast.Spec{&ast.ValueSpec{Names: []*ast.Ident{ast.NewIdent(alias(fn))}, Type: ftype[fn]}}}})
		}
	}
	// methods: a closure each, except those started exactly once as `go m()` at the top level of the function
	inPlace := map[string]bool{}
	for _, s := range tail {
		if g, ok := s.(*ast.GoStmt); ok && len(g.Call.Args) == 0 {
			if i, ok := g.Call.Fun.(*ast.Ident); ok {
				orig := ""
				for mn := range methods {
					if aliases[mn] == i.Name {
						orig = mn
					}
				}
				if orig != "" && useCount[orig] == 1 && (methods[orig].fd.Type.Params == nil || len(methods[orig].fd.Type.Params.List) == 0) {
					inPlace[orig] = true
					g.Call.Fun = &ast.FuncLit{Type: &ast.FuncType{Params: &ast.FieldList{}}, Body: methods[orig].fd.Body}
				}
			}
		}
	}
	for _, mn := range morder {
		if useCount[mn] == 0 || inPlace[mn] {
			continue
		}
		m := methods[mn]
		rest = append(rest, &ast.AssignStmt{Lhs: []ast.Expr{ast.NewIdent(alias(mn))}, Tok: token.DEFINE,
			Rhs: []ast.Expr{&ast.FuncLit{Type: &ast.FuncType{Params: m.fd.Type.Params, Results: m.fd.Type.Results}, Body: m.fd.Body}}})
	}
	return append(rest, tail...)
}

// normalised copy of a rewritten function: printed and parsed again, so that every node has consistent positions
// (go/printer spaces nodes without positions differently, and the translators compare printed statements)
func reparse(fd *ast.FuncDecl) *ast.FuncDecl {
	var sb strings.Builder
	sb.WriteString("package p\n\n")
	saveDoc := fd.Doc
	fd.Doc = nil
	if err := format.Node(&sb, token.NewFileSet(), fd); err != nil {
		fd.Doc = saveDoc
		return fd
	}
	fd.Doc = saveDoc
	f, err := parser.ParseFile(fset, fd.Name.Name+" (rewritten)", sb.String(), parser.SkipObjectResolution)
	if err != nil {
		return fd
	}
	for _, d := range f.Decls {
		if nd, ok := d.(*ast.FuncDecl); ok {
			return nd
		}
	}
	return fd
}

// the source-level rewrites every loop-body translator applies first
func prepass(path string, fd *ast.FuncDecl) *ast.FuncDecl {
	for round := 0; round < 4; round++ {
		n := len(fd.Body.List)
		before := src(fd.Body)
		destructure(path, fd)
		expandHelpers(path, fd)
		inlineStmtCalls(path, fd)
		hoistSharedMake(fd)
		normaliseCondLoops(fd)
		inlineBoolGuards(path, fd)
		normaliseCondLoops(fd)
		dropUnusedClosures(fd)
		normaliseSmall(fd)
		jumpingIfToElse(fd)
		dropTailContinues(fd)
		goLiteralParams(fd)
		propagateLenCap(fd)
		normaliseIndexLoops(fd)
		propagateBlockCopies(fd)
		inlineGuardClosures(fd)
		inlineOnceStartedClosures(fd)
		normaliseCountedRecv(fd)
		normaliseRecvLoops(fd)
		normaliseNames(fd)
		if len(fd.Body.List) == n && src(fd.Body) == before {
			return fd
		}
		fd = reparse(fd)
		if os.Getenv("XLATE_DUMP") == fd.Name.Name {
			fmt.Fprintf(os.Stderr, "---- %s after round %d\n%s\n", fd.Name.Name, round, printNode(fd))
		}
	}
	return fd
}

// `for { x, ok := <-ch; if !ok { break }; BODY }` is `for x := range ch { BODY }`; with `return` in place of `break` it
// is too when the loop is the last statement of its function (the return then ends what the loop's end would end).
// ok must not be mentioned in BODY.
func normaliseRecvLoops(fd *ast.FuncDecl) {
	var doBody func(list []ast.Stmt)
	doBody = func(list []ast.Stmt) {
		for k, st := range list {
			fs, ok := st.(*ast.ForStmt)
			if !ok || fs.Init != nil || fs.Cond != nil || fs.Post != nil || len(fs.Body.List) < 2 {
				continue
			}
			as, ok := fs.Body.List[0].(*ast.AssignStmt)
			if !ok || as.Tok != token.DEFINE || len(as.Lhs) != 2 || len(as.Rhs) != 1 {
				continue
			}
			u, ok := as.Rhs[0].(*ast.UnaryExpr)
			if !ok || u.Op != token.ARROW {
				continue
			}
			x, ok1 := as.Lhs[0].(*ast.Ident)
			okv, ok2 := as.Lhs[1].(*ast.Ident)
			if !ok1 || !ok2 {
				continue
			}
			is, ok := fs.Body.List[1].(*ast.IfStmt)
			if !ok || is.Init != nil || is.Else != nil || len(is.Body.List) != 1 {
				continue
			}
			ne, ok := is.Cond.(*ast.UnaryExpr)
			if !ok || ne.Op != token.NOT {
				continue
			}
			ci, ok := ne.X.(*ast.Ident)
			if !ok || ci.Name != okv.Name {
				continue
			}
			exit := false
			switch e := is.Body.List[0].(type) {
			case *ast.BranchStmt:
				exit = e.Tok == token.BREAK && e.Label == nil
			case *ast.ReturnStmt:
				exit = len(e.Results) == 0 && k == len(list)-1
			}
			if !exit {
				continue
			}
			mentioned := false
			for _, s := range fs.Body.List[2:] {
				ast.Inspect(s, func(n ast.Node) bool {
					if i, ok := n.(*ast.Ident); ok && i.Name == okv.Name {
						mentioned = true
					}
					return true
				})
			}
			if mentioned {
				continue
			}
			list[k] = &ast.RangeStmt{Key: x, Tok: token.DEFINE, X: u.X, Body: &ast.BlockStmt{List: fs.Body.List[2:]}}
		}
	}
	ast.Inspect(fd, func(n ast.Node) bool {
		switch y := n.(type) {
		case *ast.FuncLit:
			doBody(y.Body.List)
		case *ast.FuncDecl:
			doBody(y.Body.List)
		}
		return true
	})
}

// names the translators look for literally: the WaitGroup is `wg`. A WaitGroup declared under another name is renamed
// when `wg` means nothing else in the function.
func normaliseNames(fd *ast.FuncDecl) {
	name := ""
	ast.Inspect(fd.Body, func(n ast.Node) bool {
		switch y := n.(type) {
		case *ast.ValueSpec:
			if len(y.Names) == 1 && y.Type != nil && src(y.Type) == "sync.WaitGroup" && name == "" {
				name = y.Names[0].Name
			}
		case *ast.AssignStmt:
			if y.Tok == token.DEFINE && len(y.Lhs) == 1 && len(y.Rhs) == 1 && name == "" {
				if r := src(y.Rhs[0]); r == "new(sync.WaitGroup)" || r == "&sync.WaitGroup{}" {
					if i, ok := y.Lhs[0].(*ast.Ident); ok {
						name = i.Name
					}
				}
			}
		}
		return true
	})
	if name == "" || name == "wg" {
		return
	}
	clash := false
	ast.Inspect(fd, func(n ast.Node) bool {
		if i, ok := n.(*ast.Ident); ok && i.Name == "wg" {
			clash = true
		}
		return true
	})
	if clash {
		return
	}
	ast.Inspect(fd.Body, func(n ast.Node) bool {
		if i, ok := n.(*ast.Ident); ok && i.Name == name {
			i.Name = "wg"
		}
		return true
	})
}

var parLoop = regexp.MustCompile(`^(\w+) := (?:1; (\w+) <= par; (\w+)\+\+|0; (\w+) < par; (\w+)\+\+|par; (\w+) > 0; (\w+)--|par; (\w+) >= 1; (\w+)--)$`)

// a `for` header that runs its body exactly `par` times (the counter must not be used by the body: checked by callers)
func isParLoop(hd string) (string, bool) {
	m := parLoop.FindStringSubmatch(hd)
	if m == nil {
		return "", false
	}
	for _, g := range m[2:] {
		if g != "" && g != m[1] {
			return "", false
		}
	}
	return m[1], true
}

// `ok := func() bool { select { case …: return true; …; default: return false } }` used as `if ok() { return }` or
// `if !ok() { return }`: the `if` is replaced by the select, an arm whose result makes the condition true ends with a
// bare `return`, the other arms fall through (their `return b` is dropped). Only closures without parameters whose
// body is that single select, every arm ending in `return true` or `return false`.
func inlineGuardClosures(fd *ast.FuncDecl) {
	guards := map[string]*ast.SelectStmt{}
	defs := map[string]int{}
	for k, st := range fd.Body.List {
		as, ok := st.(*ast.AssignStmt)
		if !ok || as.Tok != token.DEFINE || len(as.Lhs) != 1 || len(as.Rhs) != 1 {
			continue
		}
		lit, ok := as.Rhs[0].(*ast.FuncLit)
		if !ok || (lit.Type.Params != nil && len(lit.Type.Params.List) != 0) || lit.Type.Results == nil ||
			len(lit.Type.Results.List) != 1 || src(lit.Type.Results.List[0].Type) != "bool" || len(lit.Body.List) != 1 {
			continue
		}
		sel, ok := lit.Body.List[0].(*ast.SelectStmt)
		if !ok {
			continue
		}
		good := true
		for _, cl := range sel.Body.List {
			cc := cl.(*ast.CommClause)
			if len(cc.Body) == 0 {
				good = false
				break
			}
			r, ok := cc.Body[len(cc.Body)-1].(*ast.ReturnStmt)
			if !ok || len(r.Results) != 1 || (src(r.Results[0]) != "true" && src(r.Results[0]) != "false") {
				good = false
			}
			for _, s := range cc.Body[:len(cc.Body)-1] {
				ast.Inspect(s, func(n ast.Node) bool {
					if _, ok := n.(*ast.ReturnStmt); ok {
						good = false
					}
					return true
				})
			}
		}
		if good {
			guards[as.Lhs[0].(*ast.Ident).Name] = sel
			defs[as.Lhs[0].(*ast.Ident).Name] = k
		}
	}
	if len(guards) == 0 {
		return
	}
	used := map[string]int{}
	other := map[string]bool{}
	var rewriteList func(list []ast.Stmt) []ast.Stmt
	instance := func(sel *ast.SelectStmt, exitOn string) ast.Stmt {
		ns := &ast.SelectStmt{Body: &ast.BlockStmt{}}
		for _, cl := range sel.Body.List {
			cc := cl.(*ast.CommClause)
			nb := append([]ast.Stmt{}, cc.Body[:len(cc.Body)-1]...)
			if src(cc.Body[len(cc.Body)-1].(*ast.ReturnStmt).Results[0]) == exitOn {
				nb = append(nb, &ast.ReturnStmt{})
			}
			ns.Body.List = append(ns.Body.List, &ast.CommClause{Comm: cc.Comm, Body: nb})
		}
		return ns
	}
	rewriteList = func(list []ast.Stmt) []ast.Stmt {
		out := []ast.Stmt{}
		for _, st := range list {
			if is, ok := st.(*ast.IfStmt); ok && is.Init == nil && is.Else == nil && len(is.Body.List) == 1 {
				if r, ok := is.Body.List[0].(*ast.ReturnStmt); ok && len(r.Results) == 0 {
					cond, exitOn := is.Cond, "true"
					if u, ok := cond.(*ast.UnaryExpr); ok && u.Op == token.NOT {
						cond, exitOn = u.X, "false"
					}
					if c, ok := cond.(*ast.CallExpr); ok && len(c.Args) == 0 {
						if i, ok := c.Fun.(*ast.Ident); ok && guards[i.Name] != nil {
							used[i.Name]++
							out = append(out, instance(guards[i.Name], exitOn))
							continue
						}
					}
				}
			}
			ast.Inspect(st, func(n ast.Node) bool {
				switch y := n.(type) {
				case *ast.BlockStmt:
					y.List = rewriteList(y.List)
					return false
				case *ast.CaseClause:
					y.Body = rewriteList(y.Body)
					return false
				case *ast.CommClause:
					y.Body = rewriteList(y.Body)
					return false
				}
				return true
			})
			out = append(out, st)
		}
		return out
	}
	fd.Body.List = rewriteList(fd.Body.List)
	// a guard that is still mentioned (another use) keeps its definition; otherwise the definition goes
	ast.Inspect(fd.Body, func(n ast.Node) bool {
		if c, ok := n.(*ast.CallExpr); ok {
			if i, ok := c.Fun.(*ast.Ident); ok && guards[i.Name] != nil {
				other[i.Name] = true
			}
		}
		return true
	})
	out := []ast.Stmt{}
	for _, st := range fd.Body.List {
		if as, ok := st.(*ast.AssignStmt); ok && as.Tok == token.DEFINE && len(as.Lhs) == 1 {
			if i, ok := as.Lhs[0].(*ast.Ident); ok && guards[i.Name] != nil && used[i.Name] > 0 && !other[i.Name] {
				if _, isLit := as.Rhs[0].(*ast.FuncLit); isLit {
					continue
				}
			}
		}
		out = append(out, st)
	}
	fd.Body.List = out
}

// mapExprs rewrites, bottom-up, every expression slot below root with f (statement and expression parents that occur in
// the translated fragments).
func mapExprs(root ast.Node, f func(ast.Expr) ast.Expr) {
	var walk func(n ast.Node)
	re := func(e ast.Expr) ast.Expr {
		if e == nil {
			return nil
		}
		walk(e)
		return f(e)
	}
	walk = func(n ast.Node) {
		switch y := n.(type) {
		case *ast.BlockStmt:
			for _, s := range y.List {
				walk(s)
			}
		case *ast.ExprStmt:
			y.X = re(y.X)
		case *ast.AssignStmt:
			for i := range y.Lhs {
				y.Lhs[i] = re(y.Lhs[i])
			}
			for i := range y.Rhs {
				y.Rhs[i] = re(y.Rhs[i])
			}
		case *ast.ReturnStmt:
			for i := range y.Results {
				y.Results[i] = re(y.Results[i])
			}
		case *ast.IfStmt:
			if y.Init != nil {
				walk(y.Init)
			}
			y.Cond = re(y.Cond)
			walk(y.Body)
			if y.Else != nil {
				walk(y.Else)
			}
		case *ast.ForStmt:
			if y.Init != nil {
				walk(y.Init)
			}
			if y.Cond != nil {
				y.Cond = re(y.Cond)
			}
			if y.Post != nil {
				walk(y.Post)
			}
			walk(y.Body)
		case *ast.RangeStmt:
			y.X = re(y.X)
			walk(y.Body)
		case *ast.DeclStmt, *ast.BranchStmt, *ast.EmptyStmt:
		case *ast.SelectStmt:
			walk(y.Body)
		case *ast.CommClause:
			if y.Comm != nil {
				walk(y.Comm)
			}
			for _, s := range y.Body {
				walk(s)
			}
		case *ast.SwitchStmt:
			if y.Init != nil {
				walk(y.Init)
			}
			if y.Tag != nil {
				y.Tag = re(y.Tag)
			}
			walk(y.Body)
		case *ast.CaseClause:
			for i := range y.List {
				y.List[i] = re(y.List[i])
			}
			for _, s := range y.Body {
				walk(s)
			}
		case *ast.LabeledStmt:
			walk(y.Stmt)
		case *ast.IncDecStmt:
			y.X = re(y.X)
		case *ast.SendStmt:
			y.Chan, y.Value = re(y.Chan), re(y.Value)
		case *ast.DeferStmt:
			y.Call = re(y.Call).(*ast.CallExpr)
		case *ast.GoStmt:
			y.Call = re(y.Call).(*ast.CallExpr)
		case *ast.CallExpr:
			y.Fun = re(y.Fun)
			for i := range y.Args {
				y.Args[i] = re(y.Args[i])
			}
		case *ast.UnaryExpr:
			y.X = re(y.X)
		case *ast.StarExpr:
			y.X = re(y.X)
		case *ast.ParenExpr:
			y.X = re(y.X)
		case *ast.BinaryExpr:
			y.X, y.Y = re(y.X), re(y.Y)
		case *ast.SelectorExpr:
			y.X = re(y.X)
		case *ast.IndexExpr:
			y.X, y.Index = re(y.X), re(y.Index)
		case *ast.KeyValueExpr:
			y.Value = re(y.Value)
		case *ast.CompositeLit:
			for i := range y.Elts {
				y.Elts[i] = re(y.Elts[i])
			}
		case *ast.FuncLit:
			walk(y.Body)
		case *ast.TypeAssertExpr:
			y.X = re(y.X)
		}
	}
	walk(root)
}

// inlineMethodHelpers (family optics): an unexported helper method of a translated struct with one result, used as
// `x := recv.helper(a1, …, an)` at the top level of another method's body, is replaced by its body (parameters renamed to
// the identifier arguments, the helper's receiver to the caller's), its final `return E` becoming `x := E`. When E is
// `&v` for a local v of the helper, x is an alias: later `*x` reads v and `x` passes `&v`. Helpers whose every use was
// inlined are dropped from the method list. Anything else is left alone (and rejected by the translator as before).
func inlineMethodHelpers(ms []*ast.FuncDecl, standard map[string]bool) []*ast.FuncDecl {
	helpers := map[string]*ast.FuncDecl{}
	for _, fd := range ms {
		if !standard[fd.Name.Name] && !fd.Name.IsExported() && fd.Body != nil && fd.Type.Results != nil &&
			len(fd.Type.Results.List) == 1 && len(fd.Type.Results.List[0].Names) == 0 && len(fd.Body.List) > 0 {
			if _, ok := fd.Body.List[len(fd.Body.List)-1].(*ast.ReturnStmt); ok {
				helpers[fd.Name.Name] = fd
			}
		}
	}
	if len(helpers) == 0 {
		return ms
	}
	names := func(n ast.Node) map[string]bool {
		m := map[string]bool{}
		ast.Inspect(n, func(x ast.Node) bool {
			if i, ok := x.(*ast.Ident); ok {
				m[i.Name] = true
			}
			return true
		})
		return m
	}
	fresh := func(h *ast.FuncDecl) *ast.FuncDecl { // a private copy of the helper, from a fresh parse of its file
		f := parse(fset.Position(h.Pos()).Filename)
		for _, d := range f.Decls {
			if fd, ok := d.(*ast.FuncDecl); ok && fd.Recv != nil && fd.Name.Name == h.Name.Name && src(fd.Recv.List[0].Type) == src(h.Recv.List[0].Type) {
				return fd
			}
		}
		return nil
	}
	remaining := map[string]int{}
	for _, fd := range ms {
		if helpers[fd.Name.Name] != nil || fd.Body == nil || len(fd.Recv.List[0].Names) != 1 {
			continue
		}
		rr := fd.Recv.List[0].Names[0].Name
		out := []ast.Stmt{}
		list := fd.Body.List
		for k := 0; k < len(list); k++ {
			st := list[k]
			as, ok := st.(*ast.AssignStmt)
			var call *ast.CallExpr
			if ok && as.Tok == token.DEFINE && len(as.Lhs) == 1 && len(as.Rhs) == 1 {
				call, _ = as.Rhs[0].(*ast.CallExpr)
			}
			var h *ast.FuncDecl
			if call != nil {
				if sel, ok := call.Fun.(*ast.SelectorExpr); ok {
					if r, ok := sel.X.(*ast.Ident); ok && r.Name == rr {
						h = helpers[sel.Sel.Name]
					}
				}
			}
			if h == nil {
				out = append(out, st)
				continue
			}
			x, _ := as.Lhs[0].(*ast.Ident)
			hc := fresh(h)
			okInline := x != nil && hc != nil && len(hc.Recv.List[0].Names) == 1
			ren := map[string]string{}
			if okInline {
				ren[hc.Recv.List[0].Names[0].Name] = rr
				ps := []string{}
				for _, p := range hc.Type.Params.List {
					for _, n := range p.Names {
						ps = append(ps, n.Name)
					}
				}
				if len(ps) != len(call.Args) {
					okInline = false
				}
				for i := range ps {
					if !okInline {
						break
					}
					a, isId := call.Args[i].(*ast.Ident)
					if !isId {
						okInline = false
						break
					}
					ren[ps[i]] = a.Name
				}
			}
			if okInline {
				// locals of the helper must be new to the caller
				callerNames := names(fd)
				ast.Inspect(hc.Body, func(n ast.Node) bool {
					switch y := n.(type) {
					case *ast.AssignStmt:
						if y.Tok == token.DEFINE {
							for _, l := range y.Lhs {
								if i, ok := l.(*ast.Ident); ok && callerNames[i.Name] {
									okInline = false
								}
							}
						}
					case *ast.ValueSpec:
						for _, i := range y.Names {
							if callerNames[i.Name] {
								okInline = false
							}
						}
					case *ast.ReturnStmt:
						if n != hc.Body.List[len(hc.Body.List)-1] {
							okInline = false // an early return
						}
					}
					return true
				})
			}
			if !okInline {
				remaining[h.Name.Name]++
				out = append(out, st)
				continue
			}
			ast.Inspect(hc.Body, func(n ast.Node) bool {
				if i, ok := n.(*ast.Ident); ok {
					if to, ok := ren[i.Name]; ok {
						i.Name = to
					}
				}
				return true
			})
			body := hc.Body.List
			res := body[len(body)-1].(*ast.ReturnStmt).Results[0]
			out = append(out, body[:len(body)-1]...)
			if u, ok := res.(*ast.UnaryExpr); ok && u.Op == token.AND {
				if v, ok := u.X.(*ast.Ident); ok {
					// x aliases &v in what follows
					rest := &ast.BlockStmt{List: list[k+1:]}
					mapExprs(rest, func(e ast.Expr) ast.Expr {
						switch y := e.(type) {
						case *ast.StarExpr:
							if i, ok := y.X.(*ast.UnaryExpr); ok && i.Op == token.AND {
								if j, ok := i.X.(*ast.Ident); ok && j.Name == v.Name {
									return ast.NewIdent(v.Name) // *(&v)
								}
							}
						case *ast.Ident:
							if y.Name == x.Name {
								return &ast.UnaryExpr{Op: token.AND, X: ast.NewIdent(v.Name)}
							}
						}
						return e
					})
					continue
				}
			}
			out = append(out, &ast.AssignStmt{Lhs: []ast.Expr{x}, Tok: token.DEFINE, Rhs: []ast.Expr{res}})
		}
		fd.Body.List = out
		// any other mention of a helper in this method keeps the helper
		ast.Inspect(fd.Body, func(n ast.Node) bool {
			if sel, ok := n.(*ast.SelectorExpr); ok && helpers[sel.Sel.Name] != nil {
				if r, ok := sel.X.(*ast.Ident); ok && r.Name == rr {
					remaining[sel.Sel.Name]++
				}
			}
			return true
		})
	}
	keep := []*ast.FuncDecl{}
	for _, fd := range ms {
		if helpers[fd.Name.Name] != nil && remaining[fd.Name.Name] == 0 {
			continue
		}
		keep = append(keep, fd)
	}
	return keep
}

// Counted receive loop. In a goroutine literal started by a function that has returned early when `n <= 0` (so n >= 1
// when the goroutine starts, n an int parameter not assigned elsewhere),
//
//	for c := n; c > 0; c-- { x, ok := <-ch; if !ok { return }; BODY }        (last statement of the literal)
//
// receives at most n elements, one per iteration, and stops before the next receive once n of them went through BODY
// (a `return` in BODY ends the goroutine in both forms; BODY has no `continue`/`break` of this loop and mentions
// neither c nor ok nor n). With n >= 1 that is
//
//	for x := range ch { BODY; n--; if n == 0 { return } }
func normaliseCountedRecv(fd *ast.FuncDecl) {
	// the guard: a top-level `if n <= 0 { …; return … }` (or `n < 1`) before the goroutine
	guarded := map[string]bool{}
	isIntParam := map[string]bool{}
	for _, p := range fd.Type.Params.List {
		if src(p.Type) == "int" {
			for _, n := range p.Names {
				isIntParam[n.Name] = true
			}
		}
	}
	for _, st := range fd.Body.List {
		if is, ok := st.(*ast.IfStmt); ok && is.Init == nil && is.Else == nil && len(is.Body.List) > 0 {
			if _, ret := is.Body.List[len(is.Body.List)-1].(*ast.ReturnStmt); ret {
				if b, ok := is.Cond.(*ast.BinaryExpr); ok {
					if i, ok := b.X.(*ast.Ident); ok && isIntParam[i.Name] &&
						((b.Op == token.LEQ && src(b.Y) == "0") || (b.Op == token.LSS && src(b.Y) == "1")) {
						guarded[i.Name] = true
					}
				}
			}
			continue
		}
		g, ok := st.(*ast.GoStmt)
		if !ok {
			continue
		}
		lit, ok := g.Call.Fun.(*ast.FuncLit)
		if !ok || len(lit.Body.List) == 0 {
			continue
		}
		last := len(lit.Body.List) - 1
		fs, ok := lit.Body.List[last].(*ast.ForStmt)
		if !ok || fs.Init == nil || fs.Cond == nil || fs.Post == nil || len(fs.Body.List) < 2 {
			continue
		}
		init, ok := fs.Init.(*ast.AssignStmt)
		if !ok || init.Tok != token.DEFINE || len(init.Lhs) != 1 || len(init.Rhs) != 1 {
			continue
		}
		c, ok1 := init.Lhs[0].(*ast.Ident)
		n, ok2 := init.Rhs[0].(*ast.Ident)
		if !ok1 || !ok2 || !guarded[n.Name] || src(fs.Cond) != c.Name+" > 0" || src(fs.Post) != c.Name+"--" {
			continue
		}
		// n is not mentioned anywhere else in the function after the guard, nor assigned
		uses := 0
		ast.Inspect(fd.Body, func(x ast.Node) bool {
			if i, ok := x.(*ast.Ident); ok && i.Name == n.Name {
				uses++
			}
			return true
		})
		if uses != 2 { // the guard and the loop header
			continue
		}
		rv, ok := fs.Body.List[0].(*ast.AssignStmt)
		if !ok || rv.Tok != token.DEFINE || len(rv.Lhs) != 2 || len(rv.Rhs) != 1 {
			continue
		}
		u, ok := rv.Rhs[0].(*ast.UnaryExpr)
		if !ok || u.Op != token.ARROW {
			continue
		}
		x, okx := rv.Lhs[0].(*ast.Ident)
		okv, oko := rv.Lhs[1].(*ast.Ident)
		is, ok := fs.Body.List[1].(*ast.IfStmt)
		if !okx || !oko || !ok || is.Init != nil || is.Else != nil || src(is.Cond) != "!"+okv.Name || len(is.Body.List) != 1 {
			continue
		}
		if r, ok := is.Body.List[0].(*ast.ReturnStmt); !ok || len(r.Results) != 0 {
			continue
		}
		body := fs.Body.List[2:]
		bad := false
		for _, s := range body {
			ast.Inspect(s, func(y ast.Node) bool {
				switch z := y.(type) {
				case *ast.Ident:
					if z.Name == c.Name || z.Name == okv.Name || z.Name == n.Name {
						bad = true
					}
				case *ast.BranchStmt:
					bad = true // continue would skip the decrement, break the test
				case *ast.FuncLit:
					return false
				}
				return true
			})
		}
		if bad {
			continue
		}
		nb := append(append([]ast.Stmt{}, body...),
			&ast.IncDecStmt{X: ast.NewIdent(n.Name), Tok: token.DEC},
			&ast.IfStmt{Cond: &ast.BinaryExpr{X: ast.NewIdent(n.Name), Op: token.EQL, Y: &ast.BasicLit{Kind: token.INT, Value: "0"}},
				Body: &ast.BlockStmt{List: []ast.Stmt{&ast.ReturnStmt{}}}})
		lit.Body.List[last] = &ast.RangeStmt{Key: x, Tok: token.DEFINE, X: u.X, Body: &ast.BlockStmt{List: nb}}
	}
}

// `name := func() { … }` (no parameters, no results) that is mentioned exactly once more, as the top-level statement
// `go name()`, is the literal goroutine `go func() { … }()`.
func inlineOnceStartedClosures(fd *ast.FuncDecl) {
	for {
		changed := false
		for k, st := range fd.Body.List {
			as, ok := st.(*ast.AssignStmt)
			if !ok || as.Tok != token.DEFINE || len(as.Lhs) != 1 || len(as.Rhs) != 1 {
				continue
			}
			name, ok := as.Lhs[0].(*ast.Ident)
			lit, ok2 := as.Rhs[0].(*ast.FuncLit)
			if !ok || !ok2 || (lit.Type.Params != nil && len(lit.Type.Params.List) != 0) || (lit.Type.Results != nil && len(lit.Type.Results.List) != 0) {
				continue
			}
			mentions := 0
			ast.Inspect(fd.Body, func(n ast.Node) bool {
				if i, ok := n.(*ast.Ident); ok && i.Name == name.Name {
					mentions++
				}
				return true
			})
			if mentions != 2 {
				continue
			}
			for j, s2 := range fd.Body.List {
				g, ok := s2.(*ast.GoStmt)
				if !ok || j <= k || len(g.Call.Args) != 0 {
					continue
				}
				if i, ok := g.Call.Fun.(*ast.Ident); ok && i.Name == name.Name {
					g.Call.Fun = lit
					fd.Body.List = append(append([]ast.Stmt{}, fd.Body.List[:k]...), fd.Body.List[k+1:]...)
					changed = true
					break
				}
			}
			if changed {
				break
			}
		}
		if !changed {
			return
		}
	}
}

// `n := len(xs)` / `n := cap(ch)` at the top level of the function, xs/ch a parameter, n never assigned again and its
// address never taken: every later mention of n is the expression itself (parameters of slice and channel type are not
// re-sliced or replaced by the stage functions: checked — xs must not be assigned either).
func propagateLenCap(fd *ast.FuncDecl) {
	params := map[string]bool{}
	for _, p := range fd.Type.Params.List {
		for _, n := range p.Names {
			params[n.Name] = true
		}
	}
	for k := 0; k < len(fd.Body.List); k++ {
		as, ok := fd.Body.List[k].(*ast.AssignStmt)
		if !ok || as.Tok != token.DEFINE || len(as.Lhs) != 1 || len(as.Rhs) != 1 {
			continue
		}
		n, ok := as.Lhs[0].(*ast.Ident)
		if !ok || n.Name == "_" {
			continue
		}
		var f, x *ast.Ident
		var xdef *ast.AssignStmt // the one statement that defines a copied local
		if cp, isCopy := as.Rhs[0].(*ast.Ident); isCopy && params[cp.Name] {
			// a plain copy of a parameter that is never assigned: the parameter itself
			f, x = nil, cp
		} else if isCopy && cp.Name != "nil" && cp.Name != "true" && cp.Name != "false" {
			// a plain copy of a local that is defined once, earlier at the top level, and never assigned
			for _, st := range fd.Body.List[:k] {
				if d, ok := st.(*ast.AssignStmt); ok && d.Tok == token.DEFINE {
					for _, l := range d.Lhs {
						if i, ok := l.(*ast.Ident); ok && i.Name == cp.Name {
							xdef = d
						}
					}
				}
			}
			if xdef == nil {
				continue
			}
			f, x = nil, cp
		} else {
			call, ok2 := as.Rhs[0].(*ast.CallExpr)
			if !ok2 || len(call.Args) != 1 {
				continue
			}
			var okf, okx bool
			f, okf = call.Fun.(*ast.Ident)
			x, okx = call.Args[0].(*ast.Ident)
			if !okf || !okx || (f.Name != "len" && f.Name != "cap") || !params[x.Name] {
				continue
			}
		}
		bad := false
		ast.Inspect(fd.Body, func(m ast.Node) bool {
			switch y := m.(type) {
			case *ast.AssignStmt:
				if y != as && y != xdef {
					for _, l := range y.Lhs {
						if i, ok := l.(*ast.Ident); ok && (i.Name == n.Name || i.Name == x.Name) {
							bad = true
						}
					}
				}
			case *ast.IncDecStmt:
				if i, ok := y.X.(*ast.Ident); ok && (i.Name == n.Name || i.Name == x.Name) {
					bad = true
				}
			case *ast.UnaryExpr:
				if i, ok := y.X.(*ast.Ident); ok && y.Op == token.AND && (i.Name == n.Name || i.Name == x.Name) {
					bad = true
				}
			case *ast.RangeStmt:
				for _, kv := range []ast.Expr{y.Key, y.Value} {
					if i, ok := kv.(*ast.Ident); ok && (i.Name == n.Name || i.Name == x.Name) {
						bad = true
					}
				}
			}
			return true
		})
		if bad {
			continue
		}
		rest := &ast.BlockStmt{List: fd.Body.List[k+1:]}
		mapExprs(rest, func(e ast.Expr) ast.Expr {
			if i, ok := e.(*ast.Ident); ok && i.Name == n.Name {
				if f == nil {
					return ast.NewIdent(x.Name)
				}
				return &ast.CallExpr{Fun: ast.NewIdent(f.Name), Args: []ast.Expr{ast.NewIdent(x.Name)}}
			}
			return e
		})
		fd.Body.List = append(append([]ast.Stmt{}, fd.Body.List[:k]...), rest.List...)
		k--
	}
}

// `for i := 0; i < len(xs); i++ { … xs[i] … }` with i used only as the index of xs (never assigned) is
// `for _, v := range xs { … v … }` (xs is not assigned in the body).
func normaliseIndexLoops(fd *ast.FuncDecl) {
	used := map[string]bool{}
	ast.Inspect(fd, func(n ast.Node) bool {
		if i, ok := n.(*ast.Ident); ok {
			used[i.Name] = true
		}
		return true
	})
	var doList func(list []ast.Stmt)
	doList = func(list []ast.Stmt) {
		for k, st := range list {
			if rs, ok := st.(*ast.RangeStmt); ok && rs.Value == nil && rs.Tok == token.DEFINE {
				// `for i := range xs { … xs[i] … }` likewise (xs a slice or array name: a channel or map cannot be indexed by
				// the range key of the same name and type without the compiler complaining, or means the same)
				i, ok1 := rs.Key.(*ast.Ident)
				xs, ok2 := rs.X.(*ast.Ident)
				if ok1 && ok2 && i.Name != "_" {
					okBody, uses := true, 0
					ast.Inspect(rs.Body, func(n ast.Node) bool {
						switch y := n.(type) {
						case *ast.IndexExpr:
							if a, ok := y.X.(*ast.Ident); ok && a.Name == xs.Name {
								if b, ok := y.Index.(*ast.Ident); ok && b.Name == i.Name {
									uses++
									return false
								}
							}
						case *ast.Ident:
							if y.Name == i.Name {
								okBody = false
							}
						case *ast.AssignStmt:
							for _, l := range y.Lhs {
								if a, ok := l.(*ast.Ident); ok && a.Name == xs.Name {
									okBody = false
								}
								// an element assigned through the index is no plain read
								if ix, ok := l.(*ast.IndexExpr); ok {
									if a, ok := ix.X.(*ast.Ident); ok && a.Name == xs.Name {
										okBody = false
									}
								}
							}
						case *ast.UnaryExpr:
							if y.Op == token.AND {
								okBody = false
							}
						}
						return true
					})
					if okBody && uses > 0 {
						v := "c"
						for used[v] {
							v += "_"
						}
						used[v] = true
						mapExprs(rs.Body, func(e ast.Expr) ast.Expr {
							if y, ok := e.(*ast.IndexExpr); ok {
								if a, ok := y.X.(*ast.Ident); ok && a.Name == xs.Name {
									if b, ok := y.Index.(*ast.Ident); ok && b.Name == i.Name {
										return ast.NewIdent(v)
									}
								}
							}
							return e
						})
						rs.Key, rs.Value = ast.NewIdent("_"), ast.NewIdent(v)
					}
				}
				continue
			}
			fs, ok := st.(*ast.ForStmt)
			if !ok || fs.Init == nil || fs.Cond == nil || fs.Post == nil {
				continue
			}
			init, ok := fs.Init.(*ast.AssignStmt)
			if !ok || init.Tok != token.DEFINE || len(init.Lhs) != 1 || src(init.Rhs[0]) != "0" {
				continue
			}
			i, ok := init.Lhs[0].(*ast.Ident)
			if !ok || src(fs.Post) != i.Name+"++" {
				continue
			}
			cond, ok := fs.Cond.(*ast.BinaryExpr)
			if !ok || cond.Op != token.LSS || src(cond.X) != i.Name {
				continue
			}
			lc, ok := cond.Y.(*ast.CallExpr)
			if !ok || src(lc.Fun) != "len" || len(lc.Args) != 1 {
				continue
			}
			xs, ok := lc.Args[0].(*ast.Ident)
			if !ok {
				continue
			}
			// every mention of i in the body is xs[i]; xs not assigned
			okBody, uses := true, 0
			var check func(n ast.Node) bool
			check = func(n ast.Node) bool {
				switch y := n.(type) {
				case *ast.IndexExpr:
					if a, ok := y.X.(*ast.Ident); ok && a.Name == xs.Name {
						if b, ok := y.Index.(*ast.Ident); ok && b.Name == i.Name {
							uses++
							return false
						}
					}
				case *ast.Ident:
					if y.Name == i.Name {
						okBody = false
					}
				case *ast.AssignStmt:
					for _, l := range y.Lhs {
						if a, ok := l.(*ast.Ident); ok && a.Name == xs.Name {
							okBody = false
						}
					}
				}
				return true
			}
			ast.Inspect(fs.Body, check)
			if !okBody || uses == 0 {
				continue
			}
			v := "c"
			for used[v] {
				v += "_"
			}
			used[v] = true
			mapExprs(fs.Body, func(e ast.Expr) ast.Expr {
				if y, ok := e.(*ast.IndexExpr); ok {
					if a, ok := y.X.(*ast.Ident); ok && a.Name == xs.Name {
						if b, ok := y.Index.(*ast.Ident); ok && b.Name == i.Name {
							return ast.NewIdent(v)
						}
					}
				}
				return e
			})
			list[k] = &ast.RangeStmt{Key: ast.NewIdent("_"), Value: ast.NewIdent(v), Tok: token.DEFINE, X: ast.NewIdent(xs.Name), Body: fs.Body}
		}
	}
	doList(fd.Body.List)
}

// Statement-level inlining of unexported top-level functions of the same file (not methods), arguments identifiers
// (or `&ident`, passed on as the identifier: methods are called on the pointer and the variable alike):
//
//	h(a…)            →  h's body                      (no `return` in it, or h(a…) is the last statement of a function
//	                                                   body, where h's bare returns end what the call would end)
//	x := h(a…)       →  h's body without its final `return E`, then `x := E` (no other return in h); when E is a local
//	                    of h that local is renamed to x
//	go h(a…)         →  go func() { h's body }()
//
// Parameters are renamed to the arguments; h must not assign a parameter (it is a copy) unless the caller never
// mentions the argument afterwards; a local of h must be new to the caller. Applied repeatedly (helpers calling
// helpers), everywhere in the function including function literals.
func inlineStmtCalls(path string, fd *ast.FuncDecl) {
	callerTP := map[string]bool{}
	for _, t := range typeParams(fd) {
		callerTP[t] = true
	}
	for round := 0; round < 6; round++ {
		changed := false
		var doList func(list []ast.Stmt, lastOfFunc bool) []ast.Stmt
		var walk func(n ast.Node)
		walk = func(n ast.Node) {
			ast.Inspect(n, func(m ast.Node) bool {
				switch y := m.(type) {
				case *ast.FuncLit:
					y.Body.List = doList(y.Body.List, true)
					return false
				case *ast.BlockStmt:
					y.List = doList(y.List, false)
					return false
				case *ast.CaseClause:
					y.Body = doList(y.Body, false)
					return false
				case *ast.CommClause:
					y.Body = doList(y.Body, false)
					return false
				}
				return true
			})
		}
		doList = func(list []ast.Stmt, lastOfFunc bool) []ast.Stmt {
			out := []ast.Stmt{}
			for k, st := range list {
				var call *ast.CallExpr
				kind := ""
				lhs := []string{}
				switch y := st.(type) {
				case *ast.ExprStmt:
					call, _ = y.X.(*ast.CallExpr)
					kind = "stmt"
				case *ast.AssignStmt:
					if y.Tok == token.DEFINE && len(y.Rhs) == 1 && len(y.Lhs) >= 1 {
						okIds := true
						for _, l := range y.Lhs {
							i, ok := l.(*ast.Ident)
							if !ok {
								okIds = false
								break
							}
							lhs = append(lhs, i.Name)
						}
						if okIds {
							call, _ = y.Rhs[0].(*ast.CallExpr)
							kind = "define"
						}
					}
				case *ast.ReturnStmt:
					// `return h(a…)` as the last statement of the function itself
					if len(y.Results) == 1 && lastOfFunc && k == len(list)-1 {
						call, _ = y.Results[0].(*ast.CallExpr)
						kind = "return"
					}
				case *ast.GoStmt:
					call = y.Call
					kind = "go"
				case *ast.DeferStmt:
					// `defer h()` (no arguments: nothing is evaluated at the defer statement itself)
					if len(y.Call.Args) == 0 {
						call = y.Call
						kind = "defer"
					}
				case *ast.SendStmt:
					// `ch <- h(a…)` is `v := h(a…); ch <- v` (ch is a plain name: nothing is evaluated out of order)
					if c, ok := y.Value.(*ast.CallExpr); ok {
						if _, plain := y.Chan.(*ast.Ident); plain {
							used := map[string]bool{}
							ast.Inspect(fd, func(n ast.Node) bool {
								if i, ok := n.(*ast.Ident); ok {
									used[strings.TrimPrefix(i.Name, "\x00")] = true
								}
								return true
							})
							v := "v"
							for used[v] {
								v += "_"
							}
							if b := inlineBody(path, fd, c, "define", []string{v}, false, callerTP); b != nil {
								changed = true
								out = append(out, b...)
								out = append(out, &ast.SendStmt{Chan: y.Chan, Value: ast.NewIdent(v)})
								continue
							}
						}
					}
				}
				var body []ast.Stmt
				if call != nil {
					var pre []ast.Stmt
					pre, body = inlineBody2(path, fd, call, kind, lhs, lastOfFunc && k == len(list)-1, callerTP)
					if body != nil {
						if kind == "go" || kind == "defer" {
							out = append(out, pre...) // arguments are evaluated by the go / defer statement itself
						} else {
							body = append(pre, body...)
						}
					}
				}
				if body == nil {
					walk(st)
					out = append(out, st)
					continue
				}
				changed = true
				if kind == "go" {
					out = append(out, &ast.GoStmt{Call: &ast.CallExpr{Fun: &ast.FuncLit{Type: &ast.FuncType{Params: &ast.FieldList{}}, Body: &ast.BlockStmt{List: body}}}})
				} else if kind == "defer" {
					if es, ok := body[0].(*ast.ExprStmt); ok && len(body) == 1 {
						if c, ok := es.X.(*ast.CallExpr); ok && len(c.Args) == 0 {
							out = append(out, &ast.DeferStmt{Call: c})
							continue
						}
					}
					out = append(out, &ast.DeferStmt{Call: &ast.CallExpr{Fun: &ast.FuncLit{Type: &ast.FuncType{Params: &ast.FieldList{}}, Body: &ast.BlockStmt{List: body}}}})
				} else {
					out = append(out, body...)
				}
			}
			return out
		}
		fd.Body.List = doList(fd.Body.List, true)
		// marks left behind by an inlining that gave up half-way
		ast.Inspect(fd, func(n ast.Node) bool {
			if i, ok := n.(*ast.Ident); ok && strings.HasPrefix(i.Name, "\x00") {
				i.Name = i.Name[1:]
			}
			return true
		})
		if !changed {
			return
		}
	}
}

func inlineBody(path string, caller *ast.FuncDecl, call *ast.CallExpr, kind string, lhs []string, isLast bool, callerTP map[string]bool) []ast.Stmt {
	pre, body := inlineBody2(path, caller, call, kind, lhs, isLast, callerTP)
	if body == nil {
		return nil
	}
	return append(pre, body...)
}

// pre: the bindings of expression arguments, evaluated where the call stands (for `go h(e)` that is the go statement, not
// the new goroutine); body: the rest
func inlineBody2(path string, caller *ast.FuncDecl, call *ast.CallExpr, kind string, lhs []string, isLast bool, callerTP map[string]bool) ([]ast.Stmt, []ast.Stmt) {
	var h *ast.Ident
	var targs []ast.Expr
	switch f := call.Fun.(type) {
	case *ast.Ident:
		h = f
	case *ast.IndexExpr: // h[T](…)
		h, _ = f.X.(*ast.Ident)
		targs = []ast.Expr{f.Index}
	case *ast.IndexListExpr:
		h, _ = f.X.(*ast.Ident)
		targs = f.Indices
	}
	if h == nil || call.Ellipsis != token.NoPos {
		return nil, nil
	}
	args := []string{}
	litArgs := map[int]*ast.FuncLit{}
	litHasRet := map[*ast.FuncLit]bool{}
	exprArgs := map[int]ast.Expr{}
	for k, a := range call.Args {
		if u, ok := a.(*ast.UnaryExpr); ok && u.Op == token.AND {
			a = u.X
		}
		if l, ok := a.(*ast.FuncLit); ok {
			// a function literal without results and without `return`: its calls inside the callee are spliced below
			if l.Type.Results != nil && len(l.Type.Results.List) != 0 {
				return nil, nil
			}
			hasRet := false
			ast.Inspect(l.Body, func(n ast.Node) bool {
				switch n.(type) {
				case *ast.ReturnStmt:
					hasRet = true
				}
				return true
			})
			if hasRet {
				litHasRet[l] = true // its call must then be the last statement of a function body in the callee
			}
			litArgs[k] = l
			args = append(args, "")
			continue
		}
		i, ok := a.(*ast.Ident)
		if !ok || i.Name == "nil" || i.Name == "true" || i.Name == "false" {
			// any other expression: substituted below when the parameter is used exactly once, in the callee's first statement
			exprArgs[k] = a
			args = append(args, "")
			continue
		}
		args = append(args, i.Name)
	}
	cands := []*ast.FuncDecl{}
	// a local closure `h := func(…) {…}` of the caller
	var localLit *ast.FuncLit
	ast.Inspect(caller.Body, func(n ast.Node) bool {
		if as, ok := n.(*ast.AssignStmt); ok && as.Tok == token.DEFINE && len(as.Lhs) == 1 && len(as.Rhs) == 1 {
			if i, ok := as.Lhs[0].(*ast.Ident); ok && i.Name == h.Name {
				if l, ok := as.Rhs[0].(*ast.FuncLit); ok {
					localLit = l
				}
			}
		}
		return true
	})
	isLocal := false
	if localLit != nil {
		e, err := parser.ParseExprFrom(fset, h.Name+" (closure)", printNode(localLit), 0)
		if err != nil {
			return nil, nil
		}
		cp := e.(*ast.FuncLit)
		cands = append(cands, &ast.FuncDecl{Name: ast.NewIdent(h.Name), Type: cp.Type, Body: cp.Body})
		isLocal = true
	} else {
		// the file itself first, then the other non-test files of its package directory
		files := []string{path}
		if ents, err := os.ReadDir(filepath.Dir(path)); err == nil {
			for _, e := range ents {
				n := e.Name()
				if strings.HasSuffix(n, ".go") && !strings.HasSuffix(n, "_test.go") && filepath.Join(filepath.Dir(path), n) != path {
					files = append(files, filepath.Join(filepath.Dir(path), n))
				}
			}
		}
		for _, fp := range files {
			f := parse(fp)
			for _, d := range f.Decls {
				if hd, ok := d.(*ast.FuncDecl); ok {
					cands = append(cands, hd)
				}
			}
		}
	}
	for _, hd := range cands {
		if hd.Recv != nil || hd.Name.Name != h.Name || (hd.Name.IsExported() && !isLocal) || hd.Body == nil || (hd.Name.Name == caller.Name.Name && !isLocal) {
			continue
		}
		// type parameters of the callee: instantiated explicitly at identifiers (renamed), or left to inference, which is
		// only followed when they carry the caller's own type parameter names
		tren := map[string]string{}
		if htp := typeParams(hd); targs != nil {
			if len(targs) != len(htp) {
				return nil, nil
			}
			for q, t := range htp {
				a, ok := targs[q].(*ast.Ident)
				if !ok {
					return nil, nil
				}
				if a.Name != t {
					tren[t] = a.Name
				}
			}
		} else {
			// inference from function-literal arguments: the literal's parameter types against the callee's
			isTP := map[string]bool{}
			for _, t := range htp {
				isTP[t] = true
			}
			var unify func(a, b ast.Expr)
			unify = func(a, b ast.Expr) { // a: callee side, b: caller side
				switch x := a.(type) {
				case *ast.Ident:
					if isTP[x.Name] {
						if bi, ok := b.(*ast.Ident); ok && tren[x.Name] == "" {
							tren[x.Name] = bi.Name
						}
					}
				case *ast.ChanType:
					if y, ok := b.(*ast.ChanType); ok {
						unify(x.Value, y.Value)
					}
				case *ast.StarExpr:
					if y, ok := b.(*ast.StarExpr); ok {
						unify(x.X, y.X)
					}
				case *ast.ArrayType:
					if y, ok := b.(*ast.ArrayType); ok {
						unify(x.Elt, y.Elt)
					}
				}
			}
			pi := 0
			for _, p := range hd.Type.Params.List {
				for range p.Names {
					if l := litArgs[pi]; l != nil {
						if ft, ok := p.Type.(*ast.FuncType); ok && ft.Params != nil && l.Type.Params != nil && len(ft.Params.List) == len(l.Type.Params.List) {
							for q := range ft.Params.List {
								unify(ft.Params.List[q].Type, l.Type.Params.List[q].Type)
							}
						}
					}
					pi++
				}
			}
			for k2, v := range tren {
				if k2 == v {
					delete(tren, k2)
				}
			}
			for _, t := range htp {
				if callerTP[t] || tren[t] != "" {
					continue
				}
				// inferred, under another name: harmless when the callee's BODY never mentions it
				mentioned := false
				ast.Inspect(hd.Body, func(n ast.Node) bool {
					if i, ok := n.(*ast.Ident); ok && i.Name == t {
						mentioned = true
					}
					return true
				})
				if mentioned {
					return nil, nil
				}
			}
		}
		if len(tren) > 0 {
			ast.Inspect(hd.Body, func(n ast.Node) bool {
				if i, ok := n.(*ast.Ident); ok {
					if to, ok := tren[i.Name]; ok {
						i.Name = to
					}
				}
				return true
			})
		}
		nres := 0
		if hd.Type.Results != nil {
			for _, r := range hd.Type.Results.List {
				if len(r.Names) > 0 {
					return nil, nil
				}
				nres++
			}
		}
		switch kind {
		case "define":
			if nres != len(lhs) || nres == 0 {
				return nil, nil
			}
		case "return":
			if nres == 0 {
				return nil, nil
			}
		default:
			if nres != 0 {
				return nil, nil
			}
		}
		params := []string{}
		for _, p := range hd.Type.Params.List {
			if _, variadic := p.Type.(*ast.Ellipsis); variadic {
				return nil, nil
			}
			for _, n := range p.Names {
				params = append(params, n.Name)
			}
		}
		if len(params) != len(args) {
			return nil, nil
		}
		ren := map[string]string{}
		isParam := map[string]bool{}
		lits := map[string]*ast.FuncLit{}
		exprSub := map[string]ast.Expr{}
		bindArgs := []string{}
		bindVals := []ast.Expr{}
		for k, pn := range params {
			isParam[pn] = true
			if l := litArgs[k]; l != nil {
				lits[pn] = l
				continue
			}
			if e := exprArgs[k]; e != nil {
				cnt, first := 0, 0
				ast.Inspect(hd.Body, func(n ast.Node) bool {
					if i, ok := n.(*ast.Ident); ok && i.Name == pn {
						cnt++
					}
					return true
				})
				if len(hd.Body.List) > 0 {
					ast.Inspect(hd.Body.List[0], func(n ast.Node) bool {
						if i, ok := n.(*ast.Ident); ok && i.Name == pn {
							first++
						}
						return true
					})
				}
				if cnt != 1 || first != 1 {
					// evaluated once, before the call: a local named after the parameter holds it
					bindArgs = append(bindArgs, pn)
					bindVals = append(bindVals, e)
					continue
				}
				exprSub[pn] = e
				continue
			}
			ren[pn] = args[k]
		}
		if len(lits) > 0 {
			// every mention of a literal parameter is a statement `p(a1, …, ak)` with identifier arguments, exactly once
			for pn, l := range lits {
				mentions, calls := 0, 0
				ast.Inspect(hd.Body, func(n ast.Node) bool {
					if i, ok := n.(*ast.Ident); ok && i.Name == pn {
						mentions++
					}
					return true
				})
				lp := []string{}
				if l.Type.Params != nil {
					for _, f := range l.Type.Params.List {
						if len(f.Names) == 0 {
							lp = append(lp, "_")
						}
						for _, n := range f.Names {
							lp = append(lp, n.Name)
						}
					}
				}
				var spl func(list []ast.Stmt, lastOfFunc bool) []ast.Stmt
				spl = func(list []ast.Stmt, lastOfFunc bool) []ast.Stmt {
					out := []ast.Stmt{}
					for si, st := range list {
						if es, ok := st.(*ast.ExprStmt); ok {
							if c, ok := es.X.(*ast.CallExpr); ok {
								if i, ok := c.Fun.(*ast.Ident); ok && i.Name == pn && len(c.Args) == len(lp) {
									r2 := map[string]string{}
									mapped := map[string]bool{} // names that already are the caller's
									good := true
									for q, a := range c.Args {
										ai, ok := a.(*ast.Ident)
										if !ok {
											good = false
											break
										}
										if lp[q] != "_" {
											to := ai.Name
											if t2, isP := ren[to]; isP {
												to = t2 // the callee hands one of its own parameters on
												mapped[to] = true
											}
											r2[lp[q]] = to
										}
									}
									if litHasRet[l] && !(lastOfFunc && si == len(list)-1) {
										good = false
									}
									if good && calls == 0 {
										calls++
										// every identifier of the literal belongs to the caller (or is one of the literal's own
										// parameters): marked, so that the renaming of the callee's parameters leaves it alone
										ast.Inspect(l.Body, func(n ast.Node) bool {
											if i, ok := n.(*ast.Ident); ok && !strings.HasPrefix(i.Name, "\x00") {
												if to, ok := r2[i.Name]; ok {
													// a parameter of the literal: the callee's variable handed to it, renamed with
													// the callee's other variables (unless it already is the caller's name)
													if mapped[to] {
														i.Name = "\x00" + to
													} else {
														i.Name = to
													}
												} else {
													i.Name = "\x00" + i.Name
												}
											}
											return true
										})
										out = append(out, l.Body.List...)
										continue
									}
								}
							}
						}
						ast.Inspect(st, func(m ast.Node) bool {
							switch y := m.(type) {
							case *ast.BlockStmt:
								y.List = spl(y.List, false)
								return false
							case *ast.CaseClause:
								y.Body = spl(y.Body, false)
								return false
							case *ast.CommClause:
								y.Body = spl(y.Body, false)
								return false
							case *ast.FuncLit:
								y.Body.List = spl(y.Body.List, true)
								return false
							}
							return true
						})
						out = append(out, st)
					}
					return out
				}
				hd.Body.List = spl(hd.Body.List, false)
				if calls != 1 || mentions != 1 {
					return nil, nil
				}
			}
		}
		// returns
		list := hd.Body.List
		nret := 0
		ast.Inspect(hd.Body, func(n ast.Node) bool {
			switch n.(type) {
			case *ast.FuncLit:
				return false
			case *ast.ReturnStmt:
				nret++
			}
			return true
		})
		var resExprs []ast.Expr
		if kind == "define" || kind == "return" {
			r, ok := list[len(list)-1].(*ast.ReturnStmt)
			if !ok || nret != 1 || len(r.Results) != nres {
				return nil, nil
			}
			resExprs = r.Results
			list = list[:len(list)-1]
		} else if nret > 0 && !(isLast || kind == "go" || kind == "defer") {
			// a trailing bare return is harmless anywhere
			if r, ok := list[len(list)-1].(*ast.ReturnStmt); ok && nret == 1 && len(r.Results) == 0 {
				list = list[:len(list)-1]
			} else {
				return nil, nil
			}
		}
		// names
		callerNames := map[string]bool{}
		skipLit := map[*ast.FuncLit]bool{}
		for _, l := range litArgs {
			skipLit[l] = true
		}
		if localLit != nil {
			skipLit[localLit] = true
		}
		ast.Inspect(caller, func(n ast.Node) bool {
			if l, ok := n.(*ast.FuncLit); ok && skipLit[l] {
				return false
			}
			if i, ok := n.(*ast.Ident); ok {
				callerNames[i.Name] = true
			}
			return true
		})
		// names captured by a literal argument are the caller's too
		for _, l := range litArgs {
			own := map[string]bool{}
			if l.Type.Params != nil {
				for _, f := range l.Type.Params.List {
					for _, n := range f.Names {
						own[n.Name] = true
					}
				}
			}
			ast.Inspect(l.Body, func(n ast.Node) bool {
				if i, ok := n.(*ast.Ident); ok && !own[strings.TrimPrefix(i.Name, "\x00")] {
					callerNames[strings.TrimPrefix(i.Name, "\x00")] = true
				}
				return true
			})
		}
		// results that are locals of the callee take the caller's names (define) and need no assignment
		resLocals := map[string]string{}
		if kind == "define" {
			ownLocals := map[string]bool{}
			ast.Inspect(hd.Body, func(n ast.Node) bool {
				switch y := n.(type) {
				case *ast.FuncLit:
					return false
				case *ast.AssignStmt:
					if y.Tok == token.DEFINE {
						for _, l := range y.Lhs {
							if i, ok := l.(*ast.Ident); ok {
								ownLocals[i.Name] = true
							}
						}
					}
				case *ast.ValueSpec:
					for _, i := range y.Names {
						ownLocals[i.Name] = true
					}
				}
				return true
			})
			for q, e := range resExprs {
				if i, ok := e.(*ast.Ident); ok && !isParam[i.Name] && ownLocals[i.Name] && resLocals[i.Name] == "" {
					resLocals[i.Name] = lhs[q]
				}
			}
		}
		clash := map[string]bool{} // locals of the callee that the caller names too: renamed
		bad := false
		ast.Inspect(hd.Body, func(n ast.Node) bool {
			switch y := n.(type) {
			case *ast.AssignStmt:
				for _, l := range y.Lhs {
					if i, ok := l.(*ast.Ident); ok {
						if isParam[i.Name] {
							bad = true
						}
						if y.Tok == token.DEFINE && callerNames[i.Name] && resLocals[i.Name] == "" {
							clash[i.Name] = true
						}
					}
				}
			case *ast.ValueSpec:
				for _, i := range y.Names {
					if callerNames[i.Name] && resLocals[i.Name] == "" {
						clash[i.Name] = true
					}
				}
			case *ast.RangeStmt:
				for _, kv := range []ast.Expr{y.Key, y.Value} {
					if i, ok := kv.(*ast.Ident); ok && i.Name != "_" && y.Tok == token.DEFINE {
						if isParam[i.Name] {
							bad = true
						} else if callerNames[i.Name] {
							clash[i.Name] = true
						}
					}
				}
			case *ast.IncDecStmt:
				if i, ok := y.X.(*ast.Ident); ok && isParam[i.Name] {
					bad = true
				}
			case *ast.UnaryExpr:
				if i, ok := y.X.(*ast.Ident); ok && y.Op == token.AND && isParam[i.Name] {
					bad = true
				}
			}
			return true
		})
		if bad {
			return nil, nil
		}
		for c := range clash {
			if isParam[c] || lits[c] != nil {
				return nil, nil
			}
			name := c + "_"
			for callerNames[name] {
				name += "_"
			}
			// the callee must not mention the name it is renamed to
			mentioned := false
			ast.Inspect(hd.Body, func(n ast.Node) bool {
				if i, ok := n.(*ast.Ident); ok && i.Name == name {
					mentioned = true
				}
				return true
			})
			if mentioned {
				return nil, nil
			}
			ren[c] = name
			callerNames[name] = true
		}
		prelude := []ast.Stmt{}
		for q, pn := range bindArgs {
			name := pn
			for callerNames[name] || name == "cap" || name == "len" {
				name += "_"
			}
			if name != pn {
				ren[pn] = name
			}
			callerNames[name] = true
			prelude = append(prelude, &ast.AssignStmt{Lhs: []ast.Expr{ast.NewIdent(name)}, Tok: token.DEFINE, Rhs: []ast.Expr{bindVals[q]}})
		}
		for from, to := range resLocals {
			ren[from] = to
		}
		holder := &ast.BlockStmt{List: list}
		if len(exprSub) > 0 {
			mapExprs(holder, func(e ast.Expr) ast.Expr {
				if i, ok := e.(*ast.Ident); ok {
					if to, ok := exprSub[i.Name]; ok {
						// the caller's expression: its identifiers must not be taken for parameters of the callee
						ast.Inspect(to, func(n ast.Node) bool {
							if j, ok := n.(*ast.Ident); ok && !strings.HasPrefix(j.Name, "\x00") {
								j.Name = "\x00" + j.Name
							}
							return true
						})
						return to
					}
				}
				return e
			})
		}
		protectNonVars(holder)
		for _, e := range resExprs {
			protectNonVars(e)
		}
		ast.Inspect(holder, func(n ast.Node) bool {
			if i, ok := n.(*ast.Ident); ok {
				if strings.HasPrefix(i.Name, "\x00") {
					i.Name = i.Name[1:]
				} else if to, ok := ren[i.Name]; ok {
					i.Name = to
				}
			}
			return true
		})
		out := append([]ast.Stmt{}, holder.List...)
		renameIn := func(e ast.Expr) {
			ast.Inspect(e, func(n ast.Node) bool {
				if i, ok := n.(*ast.Ident); ok {
					if strings.HasPrefix(i.Name, "\x00") {
						i.Name = i.Name[1:]
					} else if to, ok := ren[i.Name]; ok {
						i.Name = to
					}
				}
				return true
			})
		}
		if kind == "define" {
			for q, e := range resExprs {
				if i, ok := e.(*ast.Ident); ok && resLocals[i.Name] == lhs[q] {
					continue
				}
				renameIn(e)
				out = append(out, &ast.AssignStmt{Lhs: []ast.Expr{ast.NewIdent(lhs[q])}, Tok: token.DEFINE, Rhs: []ast.Expr{e}})
			}
		}
		if kind == "return" {
			for _, e := range resExprs {
				renameIn(e)
			}
			out = append(out, &ast.ReturnStmt{Results: resExprs})
		}
		if len(out) == 0 {
			out = append(out, &ast.EmptyStmt{})
		}
		return prelude, out
	}
	return nil, nil
}

// Small normalisations inside every function body of fd (the function itself and its literals):
//   - `defer func() { close(a); close(b) }()` (only close calls / x.Done()) is `defer close(b); defer close(a)`;
//   - `x := struct{}{}` / `x := <basic literal>` never assigned again nor addressed: x is that literal;
//   - `for range n { B }` (n an identifier, Go 1.22 integer range) is `for i := 0; i < n; i++ { B }`.
func normaliseSmall(fd *ast.FuncDecl) {
	used := map[string]bool{}
	ast.Inspect(fd, func(n ast.Node) bool {
		if i, ok := n.(*ast.Ident); ok {
			used[i.Name] = true
		}
		return true
	})
	intParams := map[string]bool{}
	for _, p := range fd.Type.Params.List {
		if src(p.Type) == "int" {
			for _, n := range p.Names {
				intParams[n.Name] = true
			}
		}
	}
	var doBody func(b *ast.BlockStmt)
	doBody = func(b *ast.BlockStmt) {
		out := []ast.Stmt{}
		for _, st := range b.List {
			if d, ok := st.(*ast.DeferStmt); ok && len(d.Call.Args) == 0 {
				if lit, ok := d.Call.Fun.(*ast.FuncLit); ok && len(lit.Body.List) > 1 {
					simple := true
					for _, s := range lit.Body.List {
						es, ok := s.(*ast.ExprStmt)
						if !ok {
							simple = false
							break
						}
						c, ok := es.X.(*ast.CallExpr)
						if !ok || !(src(c.Fun) == "close" && len(c.Args) == 1) {
							simple = false
						}
					}
					if simple {
						for k := len(lit.Body.List) - 1; k >= 0; k-- {
							out = append(out, &ast.DeferStmt{Call: lit.Body.List[k].(*ast.ExprStmt).X.(*ast.CallExpr)})
						}
						continue
					}
				}
			}
			out = append(out, st)
		}
		// `switch init; { cases }` (no tag) is `init; switch { cases }`: the variables of init are only used by the cases
		out2 := []ast.Stmt{}
		for _, st := range out {
			if sw, ok := st.(*ast.SwitchStmt); ok && sw.Init != nil && sw.Tag == nil {
				out2 = append(out2, sw.Init)
				sw.Init = nil
			}
			if is, ok := st.(*ast.IfStmt); ok && is.Init != nil {
				_ = is // an `if` with init keeps it: the translators read that form directly
			}
			out2 = append(out2, st)
		}
		out = out2
		b.List = out
		// literal locals
		for k := 0; k < len(b.List); k++ {
			as, ok := b.List[k].(*ast.AssignStmt)
			if !ok || as.Tok != token.DEFINE || len(as.Lhs) != 1 || len(as.Rhs) != 1 {
				continue
			}
			x, ok := as.Lhs[0].(*ast.Ident)
			if !ok {
				continue
			}
			isLit := false
			switch r := as.Rhs[0].(type) {
			case *ast.BasicLit:
				isLit = true
			case *ast.CompositeLit:
				isLit = src(r) == "struct{}{}"
			}
			if !isLit {
				continue
			}
			bad := false
			rest := &ast.BlockStmt{List: b.List[k+1:]}
			ast.Inspect(rest, func(n ast.Node) bool {
				switch y := n.(type) {
				case *ast.AssignStmt:
					for _, l := range y.Lhs {
						if i, ok := l.(*ast.Ident); ok && i.Name == x.Name {
							bad = true
						}
					}
				case *ast.IncDecStmt:
					if i, ok := y.X.(*ast.Ident); ok && i.Name == x.Name {
						bad = true
					}
				case *ast.UnaryExpr:
					if i, ok := y.X.(*ast.Ident); ok && y.Op == token.AND && i.Name == x.Name {
						bad = true
					}
				}
				return true
			})
			if bad {
				continue
			}
			lit := as.Rhs[0]
			mapExprs(rest, func(e ast.Expr) ast.Expr {
				if i, ok := e.(*ast.Ident); ok && i.Name == x.Name {
					return lit
				}
				return e
			})
			b.List = append(append([]ast.Stmt{}, b.List[:k]...), rest.List...)
			k--
		}
	}
	ast.Inspect(fd, func(n ast.Node) bool {
		switch y := n.(type) {
		case *ast.BlockStmt:
			doBody(y)
			for k, st := range y.List {
				if rs, ok := st.(*ast.RangeStmt); ok && rs.Key == nil && rs.Value == nil {
					if i, ok := rs.X.(*ast.Ident); ok && intParams[i.Name] {
						v := "i"
						for used[v] {
							v += "_"
						}
						used[v] = true
						y.List[k] = &ast.ForStmt{
							Init: &ast.AssignStmt{Lhs: []ast.Expr{ast.NewIdent(v)}, Tok: token.DEFINE, Rhs: []ast.Expr{&ast.BasicLit{Kind: token.INT, Value: "0"}}},
							Cond: &ast.BinaryExpr{X: ast.NewIdent(v), Op: token.LSS, Y: ast.NewIdent(i.Name)},
							Post: &ast.IncDecStmt{X: ast.NewIdent(v), Tok: token.INC},
							Body: rs.Body}
					}
				}
			}
		}
		return true
	})
}

// Guard calls. `if h(a…) { return }` / `if !h(a…) { return }` — h a bool-valued local closure or unexported function of
// the file — is replaced by h's body in which `return b` ends the goroutine when b makes the condition true and falls
// through to what follows the `if` otherwise (`return E` for a non-literal E becomes `if [!]E { return }`). To make the
// fall-through expressible without jumps, an `if` of h's body whose branch always ends in a return takes the rest of
// h's body as its `else`; a `select` with returning arms must be h's last statement. Parameters are renamed to
// identifier arguments; another argument expression is substituted when the parameter occurs exactly once (it is then
// evaluated once, at the same point). Locals of h must be new to the caller.
func inlineBoolGuards(path string, fd *ast.FuncDecl) {
	for round := 0; round < 4; round++ {
		changed := false
		closures := map[string]*ast.FuncLit{}
		ast.Inspect(fd.Body, func(n ast.Node) bool {
			if as, ok := n.(*ast.AssignStmt); ok && as.Tok == token.DEFINE && len(as.Lhs) == 1 && len(as.Rhs) == 1 {
				if i, ok := as.Lhs[0].(*ast.Ident); ok {
					if l, ok := as.Rhs[0].(*ast.FuncLit); ok && l.Type.Results != nil && len(l.Type.Results.List) == 1 && src(l.Type.Results.List[0].Type) == "bool" {
						closures[i.Name] = l
					}
				}
			}
			return true
		})
		// the caller's names: everything outside the bodies of the bool closures themselves
		names := map[string]bool{}
		isClosureLit := map[*ast.FuncLit]bool{}
		for _, l := range closures {
			isClosureLit[l] = true
		}
		ast.Inspect(fd, func(n ast.Node) bool {
			if l, ok := n.(*ast.FuncLit); ok && isClosureLit[l] {
				return false
			}
			if i, ok := n.(*ast.Ident); ok {
				names[i.Name] = true
			}
			return true
		})
		var doList func(list []ast.Stmt) []ast.Stmt
		doList = func(list []ast.Stmt) []ast.Stmt {
			out := []ast.Stmt{}
			for _, st := range list {
				is, ok := st.(*ast.IfStmt)
				if ok && is.Init == nil && is.Else == nil && len(is.Body.List) == 1 {
					if r, ok := is.Body.List[0].(*ast.ReturnStmt); ok && len(r.Results) == 0 {
						cond, exitOn := is.Cond, true
						if u, ok := cond.(*ast.UnaryExpr); ok && u.Op == token.NOT {
							cond, exitOn = u.X, false
						}
						if call, ok := cond.(*ast.CallExpr); ok {
							if body := guardBody(path, fd, call, exitOn, closures, names); body != nil {
								out = append(out, body...)
								changed = true
								continue
							}
						}
					}
				}
				ast.Inspect(st, func(m ast.Node) bool {
					switch y := m.(type) {
					case *ast.BlockStmt:
						y.List = doList(y.List)
						return false
					case *ast.CaseClause:
						y.Body = doList(y.Body)
						return false
					case *ast.CommClause:
						y.Body = doList(y.Body)
						return false
					}
					return true
				})
				out = append(out, st)
			}
			return out
		}
		fd.Body.List = doList(fd.Body.List)
		if !changed {
			break
		}
	}
	// closures that are no longer mentioned
	for {
		removed := false
		for k, st := range fd.Body.List {
			if as, ok := st.(*ast.AssignStmt); ok && as.Tok == token.DEFINE && len(as.Lhs) == 1 && len(as.Rhs) == 1 {
				if i, ok := as.Lhs[0].(*ast.Ident); ok {
					if _, isLit := as.Rhs[0].(*ast.FuncLit); isLit {
						cnt := 0
						ast.Inspect(fd.Body, func(n ast.Node) bool {
							if j, ok := n.(*ast.Ident); ok && j.Name == i.Name {
								cnt++
							}
							return true
						})
						if cnt == 1 {
							fd.Body.List = append(append([]ast.Stmt{}, fd.Body.List[:k]...), fd.Body.List[k+1:]...)
							removed = true
							break
						}
					}
				}
			}
		}
		if !removed {
			break
		}
	}
}

func guardBody(path string, fd *ast.FuncDecl, call *ast.CallExpr, exitOn bool, closures map[string]*ast.FuncLit, callerNames map[string]bool) []ast.Stmt {
	h, ok := call.Fun.(*ast.Ident)
	if !ok || call.Ellipsis != token.NoPos {
		return nil
	}
	var ftype *ast.FuncType
	var body *ast.BlockStmt
	if lit := closures[h.Name]; lit != nil {
		// a private copy of the literal
		e, err := parser.ParseExprFrom(fset, h.Name+" (closure)", printNode(lit), 0)
		if err != nil {
			return nil
		}
		cp := e.(*ast.FuncLit)
		ftype, body = cp.Type, cp.Body
	} else {
		f := parse(path)
		for _, d := range f.Decls {
			if hd, ok := d.(*ast.FuncDecl); ok && hd.Recv == nil && hd.Name.Name == h.Name && !hd.Name.IsExported() && hd.Body != nil {
				if hd.Type.Results != nil && len(hd.Type.Results.List) == 1 && len(hd.Type.Results.List[0].Names) == 0 && src(hd.Type.Results.List[0].Type) == "bool" {
					ftype, body = hd.Type, hd.Body
				}
			}
		}
	}
	if body == nil {
		return nil
	}
	params := []string{}
	for _, p := range ftype.Params.List {
		if len(p.Names) == 0 {
			return nil
		}
		for _, n := range p.Names {
			params = append(params, n.Name)
		}
	}
	if len(params) != len(call.Args) {
		return nil
	}
	// parameter uses and assignments
	occ := map[string]int{}
	assigned := map[string]bool{}
	ast.Inspect(body, func(n ast.Node) bool {
		switch y := n.(type) {
		case *ast.Ident:
			occ[y.Name]++
		case *ast.AssignStmt:
			for _, l := range y.Lhs {
				if i, ok := l.(*ast.Ident); ok {
					assigned[i.Name] = true
					if y.Tok == token.DEFINE && callerNames[i.Name] {
						assigned["!clash"] = true
					}
				}
			}
		case *ast.ValueSpec:
			for _, i := range y.Names {
				if callerNames[i.Name] {
					assigned["!clash"] = true
				}
			}
		}
		return true
	})
	if assigned["!clash"] {
		return nil
	}
	ren := map[string]string{}
	subst := map[string]ast.Expr{}
	for k, p := range params {
		if assigned[p] {
			return nil
		}
		if i, ok := call.Args[k].(*ast.Ident); ok {
			ren[p] = i.Name
		} else if occ[p] == 1 {
			subst[p] = call.Args[k]
		} else if occ[p] != 0 {
			return nil
		}
	}
	ast.Inspect(body, func(n ast.Node) bool {
		if i, ok := n.(*ast.Ident); ok {
			if to, ok := ren[i.Name]; ok {
				i.Name = to
			}
		}
		return true
	})
	if len(subst) > 0 {
		mapExprs(body, func(e ast.Expr) ast.Expr {
			if i, ok := e.(*ast.Ident); ok {
				if to, ok := subst[i.Name]; ok {
					return to
				}
			}
			return e
		})
	}
	// T: returns become exits or fall-throughs
	giveUp := false
	var terminates func(list []ast.Stmt) bool // every path through list ends in a (former) return
	terminates = func(list []ast.Stmt) bool {
		if len(list) == 0 {
			return false
		}
		switch y := list[len(list)-1].(type) {
		case *ast.ReturnStmt:
			return true
		case *ast.IfStmt:
			if y.Else == nil {
				return false
			}
			eb, ok := y.Else.(*ast.BlockStmt)
			return ok && terminates(y.Body.List) && terminates(eb.List)
		case *ast.SelectStmt:
			for _, cl := range y.Body.List {
				if !terminates(cl.(*ast.CommClause).Body) {
					return false
				}
			}
			return true
		}
		return false
	}
	var T func(list []ast.Stmt, tail bool) []ast.Stmt
	T = func(list []ast.Stmt, tail bool) []ast.Stmt {
		out := []ast.Stmt{}
		for k, st := range list {
			last := k == len(list)-1
			switch y := st.(type) {
			case *ast.ReturnStmt:
				if !last || !tail || len(y.Results) != 1 {
					giveUp = true
					return out
				}
				switch src(y.Results[0]) {
				case "true", "false":
					if (src(y.Results[0]) == "true") == exitOn {
						out = append(out, &ast.ReturnStmt{})
					}
				default:
					c := y.Results[0]
					if !exitOn {
						c = &ast.UnaryExpr{Op: token.NOT, X: c}
					}
					out = append(out, &ast.IfStmt{Cond: c, Body: &ast.BlockStmt{List: []ast.Stmt{&ast.ReturnStmt{}}}})
				}
				return out
			case *ast.IfStmt:
				hasRet := false
				ast.Inspect(y, func(n ast.Node) bool {
					switch n.(type) {
					case *ast.FuncLit:
						return false
					case *ast.ReturnStmt:
						hasRet = true
					}
					return true
				})
				if !hasRet {
					out = append(out, st)
					continue
				}
				if y.Init != nil && !last {
					// the init's variables are scoped to the if: keep the statement form, rest goes to else
				}
				if y.Else == nil && terminates(y.Body.List) {
					rest := T(list[k+1:], tail)
					y.Body.List = T(y.Body.List, tail)
					if len(rest) > 0 {
						y.Else = &ast.BlockStmt{List: rest}
					}
					out = append(out, y)
					return out
				}
				if last {
					y.Body.List = T(y.Body.List, tail)
					if eb, ok := y.Else.(*ast.BlockStmt); ok {
						eb.List = T(eb.List, tail)
					} else if y.Else != nil {
						giveUp = true
					}
					out = append(out, y)
					return out
				}
				giveUp = true
				return out
			case *ast.SelectStmt:
				hasRet := false
				ast.Inspect(y, func(n ast.Node) bool {
					if _, ok := n.(*ast.ReturnStmt); ok {
						hasRet = true
					}
					return true
				})
				if hasRet {
					if !last || !tail {
						giveUp = true
						return out
					}
					for _, cl := range y.Body.List {
						cc := cl.(*ast.CommClause)
						cc.Body = T(cc.Body, true)
					}
				}
				out = append(out, st)
			default:
				ast.Inspect(st, func(n ast.Node) bool {
					switch n.(type) {
					case *ast.FuncLit:
						return false
					case *ast.ReturnStmt:
						giveUp = true
					}
					return true
				})
				out = append(out, st)
			}
		}
		return out
	}
	res := T(body.List, true)
	if giveUp {
		return nil
	}
	if len(res) == 0 {
		res = []ast.Stmt{&ast.EmptyStmt{}}
	}
	return res
}

func printNode(n ast.Node) string {
	var sb strings.Builder
	format.Node(&sb, fset, n)
	return sb.String()
}

// `name := func(…) {…}` at the top level of the function that is never mentioned again
func dropUnusedClosures(fd *ast.FuncDecl) {
	blocks := []*ast.BlockStmt{fd.Body}
	ast.Inspect(fd.Body, func(n ast.Node) bool {
		if l, ok := n.(*ast.FuncLit); ok {
			blocks = append(blocks, l.Body)
		}
		return true
	})
	for _, blk := range blocks {
		for {
			removed := false
			for k, st := range blk.List {
				as, ok := st.(*ast.AssignStmt)
				if !ok || as.Tok != token.DEFINE || len(as.Lhs) != 1 || len(as.Rhs) != 1 {
					continue
				}
				i, ok := as.Lhs[0].(*ast.Ident)
				if _, isLit := as.Rhs[0].(*ast.FuncLit); !ok || !isLit {
					continue
				}
				cnt := 0
				ast.Inspect(blk, func(n ast.Node) bool {
					if j, ok := n.(*ast.Ident); ok && j.Name == i.Name {
						cnt++
					}
					return true
				})
				if cnt == 1 {
					blk.List = append(append([]ast.Stmt{}, blk.List[:k]...), blk.List[k+1:]...)
					removed = true
					break
				}
			}
			if !removed {
				break
			}
		}
	}
}

// `for h(a…) { B }` as the last statement of a function body is `for { if !h(a…) { return }; B }` (leaving the loop
// ends the function); `i := e; for { B; i++ }` directly before with B free of continue/break (outside nested loops and
// literals) is `for i := e; ; i++ { B }`.
func normaliseCondLoops(fd *ast.FuncDecl) {
	var doBody func(b *ast.BlockStmt)
	doBody = func(b *ast.BlockStmt) {
		n := len(b.List)
		if n == 0 {
			return
		}
		fs, ok := b.List[n-1].(*ast.ForStmt)
		if !ok {
			return
		}
		if fs.Init == nil && fs.Post == nil && fs.Cond != nil {
			if c, ok := fs.Cond.(*ast.CallExpr); ok {
				if _, isId := c.Fun.(*ast.Ident); isId {
					guard := &ast.IfStmt{Cond: &ast.UnaryExpr{Op: token.NOT, X: c}, Body: &ast.BlockStmt{List: []ast.Stmt{&ast.ReturnStmt{}}}}
					fs.Body.List = append([]ast.Stmt{guard}, fs.Body.List...)
					fs.Cond = nil
				}
			}
		}
		if fs.Init == nil && fs.Post == nil && fs.Cond == nil && n >= 2 && len(fs.Body.List) >= 1 {
			as, ok := b.List[n-2].(*ast.AssignStmt)
			inc, ok2 := fs.Body.List[len(fs.Body.List)-1].(*ast.IncDecStmt)
			if ok && ok2 && as.Tok == token.DEFINE && len(as.Lhs) == 1 && len(as.Rhs) == 1 && inc.Tok == token.INC && src(inc.X) == src(as.Lhs[0]) {
				jumps := false
				for _, s := range fs.Body.List {
					ast.Inspect(s, func(m ast.Node) bool {
						switch m.(type) {
						case *ast.FuncLit, *ast.ForStmt, *ast.RangeStmt:
							return false
						case *ast.BranchStmt:
							jumps = true
						}
						return true
					})
				}
				if !jumps {
					fs.Init, fs.Post = as, inc
					fs.Body.List = fs.Body.List[:len(fs.Body.List)-1]
					b.List = append(append([]ast.Stmt{}, b.List[:n-2]...), fs)
				}
			}
		}
	}
	ast.Inspect(fd, func(n ast.Node) bool {
		switch y := n.(type) {
		case *ast.FuncLit:
			doBody(y.Body)
		case *ast.FuncDecl:
			doBody(y.Body)
		}
		return true
	})
}

// `continue` in tail position of a loop body does nothing: as the body's last statement, or as the last statement of a
// branch of an if/else, select or tagless switch that is itself in tail position.
func dropTailContinues(fd *ast.FuncDecl) {
	var tail func(list []ast.Stmt) []ast.Stmt
	tail = func(list []ast.Stmt) []ast.Stmt {
		if len(list) == 0 {
			return list
		}
		switch y := list[len(list)-1].(type) {
		case *ast.BranchStmt:
			if y.Tok == token.CONTINUE && y.Label == nil {
				return tail(list[:len(list)-1])
			}
		case *ast.IfStmt:
			y.Body.List = tail(y.Body.List)
			for e := y.Else; e != nil; {
				switch z := e.(type) {
				case *ast.BlockStmt:
					z.List = tail(z.List)
					e = nil
				case *ast.IfStmt:
					z.Body.List = tail(z.Body.List)
					e = z.Else
				default:
					e = nil
				}
			}
		case *ast.SelectStmt:
			for _, cl := range y.Body.List {
				cc := cl.(*ast.CommClause)
				cc.Body = tail(cc.Body)
			}
		case *ast.SwitchStmt:
			if y.Tag == nil {
				for _, cl := range y.Body.List {
					cc := cl.(*ast.CaseClause)
					cc.Body = tail(cc.Body)
				}
			}
		}
		return list
	}
	ast.Inspect(fd, func(n ast.Node) bool {
		switch y := n.(type) {
		case *ast.ForStmt:
			y.Body.List = tail(y.Body.List)
		case *ast.RangeStmt:
			y.Body.List = tail(y.Body.List)
		}
		return true
	})
}

// `go func(p1 T1, …) { B }(a1, …)` with identifier arguments that are never assigned after the statement is
// `go func() { B[p := a] }()`: the goroutine's copies equal the variables for good.
func goLiteralParams(fd *ast.FuncDecl) {
	assigned := map[string]int{}
	ast.Inspect(fd.Body, func(n ast.Node) bool {
		switch y := n.(type) {
		case *ast.AssignStmt:
			for _, l := range y.Lhs {
				if i, ok := l.(*ast.Ident); ok {
					assigned[i.Name]++
				}
			}
		case *ast.IncDecStmt:
			if i, ok := y.X.(*ast.Ident); ok {
				assigned[i.Name] += 2
			}
		case *ast.RangeStmt:
			for _, kv := range []ast.Expr{y.Key, y.Value} {
				if i, ok := kv.(*ast.Ident); ok {
					assigned[i.Name] += 2 // a loop variable: one per iteration, do not touch
				}
			}
		}
		return true
	})
	ast.Inspect(fd.Body, func(n ast.Node) bool {
		g, ok := n.(*ast.GoStmt)
		if !ok {
			return true
		}
		lit, ok := g.Call.Fun.(*ast.FuncLit)
		if !ok || lit.Type.Params == nil || len(g.Call.Args) == 0 {
			return true
		}
		ps := []string{}
		for _, f := range lit.Type.Params.List {
			for _, nm := range f.Names {
				ps = append(ps, nm.Name)
			}
		}
		if len(ps) != len(g.Call.Args) {
			return true
		}
		ren := map[string]string{}
		for k, a := range g.Call.Args {
			i, ok := a.(*ast.Ident)
			if !ok || assigned[i.Name] > 1 {
				return true
			}
			ren[ps[k]] = i.Name
		}
		// the literal must not assign its parameters, nor declare a local with an argument's name
		bad := false
		ast.Inspect(lit.Body, func(m ast.Node) bool {
			if as, ok := m.(*ast.AssignStmt); ok {
				for _, l := range as.Lhs {
					if i, ok := l.(*ast.Ident); ok {
						if _, isP := ren[i.Name]; isP {
							bad = true
						}
						for _, to := range ren {
							if as.Tok == token.DEFINE && i.Name == to {
								bad = true
							}
						}
					}
				}
			}
			return true
		})
		if bad {
			return true
		}
		ast.Inspect(lit.Body, func(m ast.Node) bool {
			if i, ok := m.(*ast.Ident); ok {
				if to, ok := ren[i.Name]; ok {
					i.Name = to
				}
			}
			return true
		})
		lit.Type.Params = &ast.FieldList{}
		g.Call.Args = nil
		return true
	})
}

// In a loop body: `if c { A }; R` where every path through A ends in `return` or `continue` is `if c { A } else { R }`
// (then the tail `continue`s of A disappear: dropTailContinues).
func jumpingIfToElse(fd *ast.FuncDecl) {
	var jumps func(list []ast.Stmt) bool
	jumps = func(list []ast.Stmt) bool {
		if len(list) == 0 {
			return false
		}
		switch y := list[len(list)-1].(type) {
		case *ast.ReturnStmt:
			return true
		case *ast.BranchStmt:
			return y.Tok == token.CONTINUE && y.Label == nil
		case *ast.IfStmt:
			eb, ok := y.Else.(*ast.BlockStmt)
			return ok && jumps(y.Body.List) && jumps(eb.List)
		case *ast.SelectStmt:
			for _, cl := range y.Body.List {
				if !jumps(cl.(*ast.CommClause).Body) {
					return false
				}
			}
			return len(y.Body.List) > 0
		}
		return false
	}
	hasContinue := func(n ast.Node) bool {
		r := false
		ast.Inspect(n, func(m ast.Node) bool {
			switch y := m.(type) {
			case *ast.ForStmt, *ast.RangeStmt, *ast.FuncLit:
				return false
			case *ast.BranchStmt:
				if y.Tok == token.CONTINUE {
					r = true
				}
			}
			return true
		})
		return r
	}
	var doLoopBody func(list []ast.Stmt) []ast.Stmt
	doLoopBody = func(list []ast.Stmt) []ast.Stmt {
		for k, st := range list {
			is, ok := st.(*ast.IfStmt)
			if !ok || is.Else != nil || k == len(list)-1 {
				continue
			}
			// only worth it (and only needed) when A contains a `continue`
			if jumps(is.Body.List) && hasContinue(is.Body) {
				is.Else = &ast.BlockStmt{List: doLoopBody(append([]ast.Stmt{}, list[k+1:]...))}
				return append(append([]ast.Stmt{}, list[:k]...), is)
			}
		}
		return list
	}
	ast.Inspect(fd, func(n ast.Node) bool {
		switch y := n.(type) {
		case *ast.ForStmt:
			y.Body.List = doLoopBody(y.Body.List)
		case *ast.RangeStmt:
			y.Body.List = doLoopBody(y.Body.List)
		}
		return true
	})
}

// declarations of the file and of the other non-test files of its directory (freshly parsed)
func packageDecls(path string) []ast.Decl {
	files := []string{path}
	if ents, err := os.ReadDir(filepath.Dir(path)); err == nil {
		for _, e := range ents {
			n := e.Name()
			if strings.HasSuffix(n, ".go") && !strings.HasSuffix(n, "_test.go") && filepath.Join(filepath.Dir(path), n) != path {
				files = append(files, filepath.Join(filepath.Dir(path), n))
			}
		}
	}
	out := []ast.Decl{}
	for _, fp := range files {
		out = append(out, parse(fp).Decls...)
	}
	return out
}

// Field names (x.f, T{f: …}) are no variables: marked, so that a renaming of variables leaves them alone.
func protectNonVars(root ast.Node) {
	ast.Inspect(root, func(n ast.Node) bool {
		switch y := n.(type) {
		case *ast.SelectorExpr:
			if !strings.HasPrefix(y.Sel.Name, "\x00") {
				y.Sel.Name = "\x00" + y.Sel.Name
			}
		case *ast.CompositeLit:
			switch y.Type.(type) {
			case *ast.MapType, *ast.ArrayType:
				return true
			}
			for _, el := range y.Elts {
				if kv, ok := el.(*ast.KeyValueExpr); ok {
					if k, ok := kv.Key.(*ast.Ident); ok && !strings.HasPrefix(k.Name, "\x00") {
						k.Name = "\x00" + k.Name
					}
				}
			}
		}
		return true
	})
}

// Expression helpers. An unexported package-level function `func h[…](p1 T1, …) R { return E }` whose result is no
// function is an abbreviation: a call h(a1, …, an) anywhere in the file is E with ai for pi, when that evaluates
// each ai exactly as often as the call does (pi is mentioned once in E, or ai is a name or a literal) and no name
// of an argument is captured by a literal inside E. Applied to a fixpoint (helpers calling helpers); a helper that
// reaches itself is left alone. `keep` names functions that are never treated as abbreviations.
func expandExprMacros(f *ast.File, keep func(*ast.FuncDecl) bool) {
	type macro struct {
		params []string
		body   string
		tps    []string
		sig    string          // func(p1 T1, …) R
		inner  map[string]bool // parameter names of literals inside E
	}
	macros := map[string]*macro{}
	for _, d := range f.Decls {
		fd, ok := d.(*ast.FuncDecl)
		if !ok || fd.Recv != nil || fd.Body == nil || fd.Name.IsExported() || len(fd.Body.List) != 1 || (keep != nil && keep(fd)) {
			continue
		}
		r, ok := fd.Body.List[0].(*ast.ReturnStmt)
		if !ok || len(r.Results) != 1 || fd.Type.Results == nil || len(fd.Type.Results.List) != 1 || len(fd.Type.Results.List[0].Names) > 0 {
			continue
		}
		if _, isFn := fd.Type.Results.List[0].Type.(*ast.FuncType); isFn {
			continue
		}
		m := &macro{body: src(r.Results[0]), tps: typeParams(fd), inner: map[string]bool{}}
		{
			ft := *fd.Type
			ft.TypeParams = nil
			m.sig = src(&ft)
		}
		good := true
		if fd.Type.Params != nil {
			for _, p := range fd.Type.Params.List {
				if _, variadic := p.Type.(*ast.Ellipsis); variadic || len(p.Names) == 0 {
					good = false
				}
				for _, n := range p.Names {
					if n.Name == "_" {
						good = false
					}
					m.params = append(m.params, n.Name)
				}
			}
		}
		ast.Inspect(r.Results[0], func(n ast.Node) bool {
			if l, ok := n.(*ast.FuncLit); ok && l.Type.Params != nil {
				for _, p := range l.Type.Params.List {
					for _, nm := range p.Names {
						m.inner[nm.Name] = true
					}
				}
			}
			return true
		})
		if good {
			macros[fd.Name.Name] = m
		}
	}
	if len(macros) == 0 {
		return
	}
	expand := func(call *ast.CallExpr) ast.Expr {
		var h *ast.Ident
		var targs []ast.Expr
		switch fx := call.Fun.(type) {
		case *ast.Ident:
			h = fx
		case *ast.IndexExpr:
			h, _ = fx.X.(*ast.Ident)
			targs = []ast.Expr{fx.Index}
		case *ast.IndexListExpr:
			h, _ = fx.X.(*ast.Ident)
			targs = fx.Indices
		}
		if h == nil {
			return nil
		}
		m := macros[h.Name]
		if m == nil || len(call.Args) != len(m.params) || call.Ellipsis.IsValid() {
			return nil
		}
		e, err := parser.ParseExpr(m.body)
		if err != nil {
			return nil
		}
		// type parameters: explicit instantiation renames them; otherwise E must not mention them
		tren := map[string]ast.Expr{}
		if len(targs) > 0 {
			if len(targs) > len(m.tps) {
				return nil
			}
			for k, t := range targs {
				tren[m.tps[k]] = t
			}
		}
		isTP := map[string]bool{}
		for _, t := range m.tps {
			isTP[t] = true
		}
		count := map[string]int{}
		bad := false
		protectNonVars(e)
		ast.Inspect(e, func(n ast.Node) bool {
			if i, ok := n.(*ast.Ident); ok {
				count[i.Name]++
				if isTP[i.Name] && tren[i.Name] == nil {
					bad = true
				}
			}
			return true
		})
		sub := map[string]ast.Expr{}
		for k, p := range m.params {
			a := call.Args[k]
			switch a.(type) {
			case *ast.Ident, *ast.BasicLit:
			default:
				if count[p] > 1 {
					bad = true
				}
			}
			ast.Inspect(a, func(n ast.Node) bool {
				if i, ok := n.(*ast.Ident); ok && m.inner[i.Name] {
					bad = true
				}
				return true
			})
			sub[p] = a
		}
		if bad {
			return nil
		}
		holder := &ast.ParenExpr{X: e}
		mapExprs(holder, func(x ast.Expr) ast.Expr {
			if i, ok := x.(*ast.Ident); ok {
				if to, ok := sub[i.Name]; ok {
					return to
				}
				if to, ok := tren[i.Name]; ok {
					return to
				}
			}
			return x
		})
		ast.Inspect(holder, func(n ast.Node) bool {
			if i, ok := n.(*ast.Ident); ok && strings.HasPrefix(i.Name, "\x00") {
				i.Name = i.Name[1:]
			}
			return true
		})
		return holder.X
	}
	anyChanged := false
	for round := 0; round < 40; round++ {
		changed := false
		for _, d := range f.Decls {
			fd, ok := d.(*ast.FuncDecl)
			if !ok || fd.Body == nil {
				continue
			}
			shadowed := declaredNames(fd)
			mapExprs(fd.Body, func(x ast.Expr) ast.Expr {
				if c, ok := x.(*ast.CallExpr); ok {
					if shadowed[calleeName(c)] {
						return x
					}
					if to := expand(c); to != nil {
						changed = true
						anyChanged = true
						return to
					}
				}
				return x
			})
		}
		// bodies of the abbreviations themselves (helpers calling helpers)
		for name, m := range macros {
			e, err := parser.ParseExpr(m.body)
			if err != nil {
				continue
			}
			holder := &ast.ParenExpr{X: e}
			selfRef := false
			mapExprs(holder, func(x ast.Expr) ast.Expr {
				if c, ok := x.(*ast.CallExpr); ok {
					if i, ok := c.Fun.(*ast.Ident); ok && i.Name == name {
						selfRef = true
						return x
					}
					if to := expand(c); to != nil {
						return to
					}
				}
				return x
			})
			if selfRef {
				delete(macros, name)
				continue
			}
			m.body = src(holder.X)
		}
		if !changed {
			break
		}
	}
	// what is left of an abbreviation outside call position is a function value: `h` or `h[X, Y]` (type arguments that
	// are plain names) is the literal `func(p1 T1, …) R { return E }`
	funs := map[ast.Expr]bool{}
	ast.Inspect(f, func(n ast.Node) bool {
		if c, ok := n.(*ast.CallExpr); ok {
			funs[c.Fun] = true
		}
		return true
	})
	for _, d := range f.Decls {
		fd, ok := d.(*ast.FuncDecl)
		if !ok || fd.Body == nil {
			continue
		}
		shadowed := declaredNames(fd)
		mapExprs(fd.Body, func(x ast.Expr) ast.Expr {
			if funs[x] {
				return x
			}
			var h *ast.Ident
			var targs []ast.Expr
			switch fx := x.(type) {
			case *ast.Ident:
				h = fx
			case *ast.IndexExpr:
				h, _ = fx.X.(*ast.Ident)
				targs = []ast.Expr{fx.Index}
			case *ast.IndexListExpr:
				h, _ = fx.X.(*ast.Ident)
				targs = fx.Indices
			}
			if h == nil || shadowed[h.Name] {
				return x
			}
			m := macros[h.Name]
			if m == nil || len(targs) != len(m.tps) {
				return x
			}
			tren := map[string]string{}
			for k, t := range targs {
				ti, ok := t.(*ast.Ident)
				if !ok {
					return x
				}
				tren[m.tps[k]] = ti.Name
			}
			lit, err := parser.ParseExpr(m.sig + " { return " + m.body + " }")
			if err != nil {
				return x
			}
			protectNonVars(lit)
			ast.Inspect(lit, func(n ast.Node) bool {
				if i, ok := n.(*ast.Ident); ok {
					if strings.HasPrefix(i.Name, "\x00") {
						i.Name = i.Name[1:]
					} else if to, ok := tren[i.Name]; ok {
						i.Name = to
					}
				}
				return true
			})
			anyChanged = true
			return lit
		})
	}
	// positions of spliced nodes are foreign: print and parse again (only when something was expanded, so that the
	// positions of an untouched file stay the file's own)
	if !anyChanged {
		return
	}
	var sb strings.Builder
	if err := format.Node(&sb, token.NewFileSet(), f); err == nil {
		if nf, err := parser.ParseFile(fset, fset.Position(f.Pos()).Filename+" (rewritten)", sb.String(), parser.ParseComments); err == nil {
			*f = *nf
		}
	}
}

func calleeName(c *ast.CallExpr) string {
	switch fx := c.Fun.(type) {
	case *ast.Ident:
		return fx.Name
	case *ast.IndexExpr:
		if i, ok := fx.X.(*ast.Ident); ok {
			return i.Name
		}
	case *ast.IndexListExpr:
		if i, ok := fx.X.(*ast.Ident); ok {
			return i.Name
		}
	}
	return ""
}

// every name a function declares itself (receiver, parameters, results, locals, parameters of its literals)
func declaredNames(fd *ast.FuncDecl) map[string]bool {
	out := map[string]bool{}
	fields := func(fl *ast.FieldList) {
		if fl != nil {
			for _, f := range fl.List {
				for _, n := range f.Names {
					out[n.Name] = true
				}
			}
		}
	}
	fields(fd.Recv)
	fields(fd.Type.Params)
	fields(fd.Type.Results)
	ast.Inspect(fd, func(n ast.Node) bool {
		switch y := n.(type) {
		case *ast.FuncLit:
			fields(y.Type.Params)
			fields(y.Type.Results)
		case *ast.AssignStmt:
			if y.Tok == token.DEFINE {
				for _, l := range y.Lhs {
					if i, ok := l.(*ast.Ident); ok {
						out[i.Name] = true
					}
				}
			}
		case *ast.ValueSpec:
			for _, i := range y.Names {
				out[i.Name] = true
			}
		case *ast.RangeStmt:
			if y.Tok == token.DEFINE {
				for _, kv := range []ast.Expr{y.Key, y.Value} {
					if i, ok := kv.(*ast.Ident); ok {
						out[i.Name] = true
					}
				}
			}
		}
		return true
	})
	return out
}

// `if C { x := make(chan T, E); S…; return … }; y := make(chan T, E); REST` allocates exactly one channel on either
// path (make has no effect besides, C is evaluated before both): it is `y := make(chan T, E); if C { S…[y for x] };
// REST`. C and S must not mention y, E must be built from names that the guard does not assign.
func hoistSharedMake(fd *ast.FuncDecl) {
	list := fd.Body.List
	for k := 0; k+1 < len(list); k++ {
		is, ok := list[k].(*ast.IfStmt)
		if !ok || is.Init != nil || is.Else != nil || len(is.Body.List) < 2 {
			continue
		}
		if _, ok := is.Body.List[len(is.Body.List)-1].(*ast.ReturnStmt); !ok {
			continue
		}
		isMake := func(st ast.Stmt) (string, string, bool) {
			as, ok := st.(*ast.AssignStmt)
			if !ok || as.Tok != token.DEFINE || len(as.Lhs) != 1 || len(as.Rhs) != 1 {
				return "", "", false
			}
			i, ok := as.Lhs[0].(*ast.Ident)
			c, ok2 := as.Rhs[0].(*ast.CallExpr)
			if !ok || !ok2 || src(c.Fun) != "make" || len(c.Args) == 0 {
				return "", "", false
			}
			if _, isChan := c.Args[0].(*ast.ChanType); !isChan {
				return "", "", false
			}
			return i.Name, src(c), true
		}
		x, mx, ok1 := isMake(is.Body.List[0])
		y, my, ok2 := isMake(list[k+1])
		if !ok1 || !ok2 || mx != my {
			continue
		}
		bad := false
		ast.Inspect(is, func(n ast.Node) bool {
			switch v := n.(type) {
			case *ast.Ident:
				if v.Name == y && x != y {
					bad = true
				}
			case *ast.AssignStmt:
				if v != is.Body.List[0] {
					for _, l := range v.Lhs {
						if i, ok := l.(*ast.Ident); ok && strings.Contains(" "+my+" ", i.Name) {
							bad = true // conservatively: an assigned name that occurs in the make expression
						}
					}
				}
			case *ast.IncDecStmt:
				bad = true
			case *ast.FuncLit:
				bad = true
			}
			return true
		})
		if bad {
			continue
		}
		rest := &ast.BlockStmt{List: is.Body.List[1:]}
		ast.Inspect(rest, func(n ast.Node) bool {
			if i, ok := n.(*ast.Ident); ok && i.Name == x {
				i.Name = y
			}
			return true
		})
		is.Body.List = rest.List
		list[k], list[k+1] = list[k+1], is
		k++
	}
}

// `x := y` in any block, with x and y each declared exactly once in the whole function (so nothing shadows them) and
// never assigned, incremented or address-taken: x is y in the rest of the block (`c := c_` left behind by the binding of
// an argument to a range variable).
func propagateBlockCopies(fd *ast.FuncDecl) {
	defs, writes := map[string]int{}, map[string]int{}
	fields := func(fl *ast.FieldList) {
		if fl != nil {
			for _, f := range fl.List {
				for _, n := range f.Names {
					defs[n.Name]++
				}
			}
		}
	}
	fields(fd.Type.Params)
	fields(fd.Type.Results)
	ast.Inspect(fd.Body, func(n ast.Node) bool {
		switch y := n.(type) {
		case *ast.FuncLit:
			fields(y.Type.Params)
			fields(y.Type.Results)
		case *ast.AssignStmt:
			for _, l := range y.Lhs {
				if i, ok := l.(*ast.Ident); ok {
					if y.Tok == token.DEFINE {
						defs[i.Name]++
					} else {
						writes[i.Name]++
					}
				}
			}
		case *ast.ValueSpec:
			for _, i := range y.Names {
				defs[i.Name]++
			}
		case *ast.RangeStmt:
			for _, kv := range []ast.Expr{y.Key, y.Value} {
				if i, ok := kv.(*ast.Ident); ok {
					if y.Tok == token.DEFINE {
						defs[i.Name]++
					} else {
						writes[i.Name]++
					}
				}
			}
		case *ast.IncDecStmt:
			if i, ok := y.X.(*ast.Ident); ok {
				writes[i.Name]++
			}
		case *ast.UnaryExpr:
			if i, ok := y.X.(*ast.Ident); ok && y.Op == token.AND {
				writes[i.Name]++
			}
		}
		return true
	})
	var doList func(list []ast.Stmt) []ast.Stmt
	doList = func(list []ast.Stmt) []ast.Stmt {
		for k := 0; k < len(list); k++ {
			as, ok := list[k].(*ast.AssignStmt)
			if !ok || as.Tok != token.DEFINE || len(as.Lhs) != 1 || len(as.Rhs) != 1 {
				continue
			}
			x, ok1 := as.Lhs[0].(*ast.Ident)
			y, ok2 := as.Rhs[0].(*ast.Ident)
			if !ok1 || !ok2 || x.Name == "_" || defs[x.Name] != 1 || defs[y.Name] != 1 || writes[x.Name] != 0 || writes[y.Name] != 0 {
				continue
			}
			rest := &ast.BlockStmt{List: append([]ast.Stmt{}, list[k+1:]...)}
			protectNonVars(rest)
			ast.Inspect(rest, func(n ast.Node) bool {
				if i, ok := n.(*ast.Ident); ok {
					if strings.HasPrefix(i.Name, "\x00") {
						i.Name = i.Name[1:]
					} else if i.Name == x.Name {
						i.Name = y.Name
					}
				}
				return true
			})
			list = append(append([]ast.Stmt{}, list[:k]...), rest.List...)
			defs[x.Name] = 0
			k--
		}
		return list
	}
	ast.Inspect(fd.Body, func(n ast.Node) bool {
		switch b := n.(type) {
		case *ast.BlockStmt:
			b.List = doList(b.List)
		case *ast.CaseClause:
			b.Body = doList(b.Body)
		case *ast.CommClause:
			b.Body = doList(b.Body)
		}
		return true
	})
}
