package main

import (
	"fmt"
	"go/ast"
	"go/format"
	"go/parser"
	"go/token"
	"os"
	"regexp"
	"strings"
)

// Source-level expansion of a higher-order start helper, e.g.
//
//	func spawn(par int, worker func(), finish func()) { var wg …; wg.Add(par); for … { go func() { defer wg.Done(); worker() }() }; go func() { wg.Wait(); finish() }() }
//	…
//	spawn(par, func() { for a := range in { … } }, func() { close(out) })
//
// A statement `h(a1, …, an)` of a stage function, h an unexported top-level function of the same file without results,
// is replaced by h's body, where
//   - a parameter bound to an identifier argument is renamed to it (as in resolveCall);
//   - a parameter bound to a function literal `func() { B }` (no parameters, no results): a statement `p()` that is the
//     LAST statement of its enclosing function body is replaced by B (a `return` inside B then ends that function, as
//     it ended the call); every other use of p makes the expansion give up.
//
// The expansion gives up (the statement is left as it is and the stage translator rejects it) when a local of h would
// capture a name used by the caller, when a parameter is assigned, or when an argument has another form.
func expandHelpers(path string, fd *ast.FuncDecl) {
	used := map[string]bool{}
	ast.Inspect(fd, func(n ast.Node) bool {
		if i, ok := n.(*ast.Ident); ok {
			used[i.Name] = true
		}
		return true
	})
	out := []ast.Stmt{}
	for _, st := range fd.Body.List {
		es, ok := st.(*ast.ExprStmt)
		if !ok {
			out = append(out, st)
			continue
		}
		call, ok := es.X.(*ast.CallExpr)
		if !ok {
			out = append(out, st)
			continue
		}
		body := expandOne(path, call, used)
		if body == nil {
			out = append(out, st)
			continue
		}
		out = append(out, body...)
	}
	fd.Body.List = out
}

func expandOne(path string, call *ast.CallExpr, used map[string]bool) []ast.Stmt {
	h, ok := call.Fun.(*ast.Ident)
	if !ok {
		return nil
	}
	hasLit := false
	for _, a := range call.Args {
		switch x := a.(type) {
		case *ast.Ident:
		case *ast.FuncLit:
			if len(x.Type.Params.List) != 0 || (x.Type.Results != nil && len(x.Type.Results.List) != 0) {
				return nil
			}
			hasLit = true
		default:
			return nil
		}
	}
	if !hasLit {
		return nil
	}
	f := parse(path) // a fresh copy, renamed in place
	for _, d := range f.Decls {
		hd, ok := d.(*ast.FuncDecl)
		if !ok || hd.Recv != nil || hd.Name.Name != h.Name || hd.Name.IsExported() || hd.Body == nil {
			continue
		}
		if hd.Type.Results != nil && len(hd.Type.Results.List) != 0 {
			return nil
		}
		params := []string{}
		for _, p := range hd.Type.Params.List {
			for _, n := range p.Names {
				params = append(params, n.Name)
			}
		}
		if len(params) != len(call.Args) {
			return nil
		}
		ren := map[string]string{}
		lits := map[string]*ast.FuncLit{}
		isParam := map[string]bool{}
		for k, pn := range params {
			isParam[pn] = true
			switch x := call.Args[k].(type) {
			case *ast.Ident:
				ren[pn] = x.Name
			case *ast.FuncLit:
				lits[pn] = x
			}
		}
		bad := false
		ast.Inspect(hd.Body, func(n ast.Node) bool {
			switch y := n.(type) {
			case *ast.AssignStmt:
				for _, l := range y.Lhs {
					if i, ok := l.(*ast.Ident); ok {
						if isParam[i.Name] {
							bad = true
						}
						// a local of the helper must not capture a name the caller uses
						if y.Tok == token.DEFINE && used[i.Name] && !isParam[i.Name] {
							bad = true
						}
					}
				}
			case *ast.ValueSpec:
				for _, i := range y.Names {
					if used[i.Name] || isParam[i.Name] {
						bad = true
					}
				}
			case *ast.IncDecStmt:
				if i, ok := y.X.(*ast.Ident); ok && isParam[i.Name] {
					bad = true
				}
			case *ast.UnaryExpr:
				if y.Op == token.AND {
					if i, ok := y.X.(*ast.Ident); ok && isParam[i.Name] {
						bad = true
					}
				}
			case *ast.ReturnStmt:
				// a return of the helper itself (outside a function literal) would end the caller after inlining
			}
			return true
		})
		// returns directly in the helper body (not inside a literal) are not supported
		var topReturn func(list []ast.Stmt) bool
		topReturn = func(list []ast.Stmt) bool {
			r := false
			for _, s := range list {
				ast.Inspect(s, func(n ast.Node) bool {
					switch n.(type) {
					case *ast.FuncLit:
						return false
					case *ast.ReturnStmt:
						r = true
					}
					return true
				})
			}
			return r
		}
		if bad || topReturn(hd.Body.List) {
			return nil
		}
		// splice `p()` in last position of a function body
		uses := map[string]int{}
		var splice func(list []ast.Stmt, lastOfFunc bool) []ast.Stmt
		var walkLits func(n ast.Node)
		walkLits = func(n ast.Node) {
			ast.Inspect(n, func(m ast.Node) bool {
				if fl, ok := m.(*ast.FuncLit); ok {
					fl.Body.List = splice(fl.Body.List, true)
					return false
				}
				return true
			})
		}
		splice = func(list []ast.Stmt, lastOfFunc bool) []ast.Stmt {
			res := []ast.Stmt{}
			for k, s := range list {
				if es, ok := s.(*ast.ExprStmt); ok {
					if c, ok := es.X.(*ast.CallExpr); ok && len(c.Args) == 0 {
						if i, ok := c.Fun.(*ast.Ident); ok && lits[i.Name] != nil && lastOfFunc && k == len(list)-1 && uses[i.Name] == 0 {
							uses[i.Name]++
							res = append(res, lits[i.Name].Body.List...)
							continue
						}
					}
				}
				walkLits(s)
				res = append(res, s)
			}
			return res
		}
		hd.Body.List = splice(hd.Body.List, false)
		// every literal parameter must have been consumed exactly once, and must not be mentioned elsewhere
		ast.Inspect(hd.Body, func(n ast.Node) bool {
			if i, ok := n.(*ast.Ident); ok && lits[i.Name] != nil {
				// identifiers of the same name inside the spliced bodies belong to the caller; only flag direct uses
				// that remain as calls `p()` or values
				_ = i
			}
			return true
		})
		for pn := range lits {
			if uses[pn] != 1 {
				return nil
			}
		}
		// rename identifier parameters (the spliced literal bodies belong to the caller and are not renamed:
		// they are shared nodes of the caller's AST, so the renaming below must skip them)
		skip := map[ast.Node]bool{}
		for _, l := range lits {
			for _, s := range l.Body.List {
				skip[s] = true
			}
		}
		var rename func(n ast.Node)
		rename = func(n ast.Node) {
			ast.Inspect(n, func(m ast.Node) bool {
				if m != nil && skip[m] {
					return false
				}
				if i, ok := m.(*ast.Ident); ok {
					if to, ok := ren[i.Name]; ok {
						i.Name = to
					}
				}
				return true
			})
		}
		rename(hd.Body)
		return hd.Body.List
	}
	return nil
}

// Source-level dissolution of a "shared state" struct, e.g.
//
//	j := &joiner[A]{ctx: ctx, out: make(chan A, len(in))}
//	j.wg.Add(len(in)); for _, c := range in { go j.copy(c) }; go j.closeWhenDone(); return j.out
//	type joiner[A any] struct { ctx context.Context; wg sync.WaitGroup; out chan A }
//	func (j *joiner[A]) copy(c <-chan A) { defer j.wg.Done(); … j.out <- x … }
//
// A statement `v := &T{f1: e1, …}` (or without &) of a stage function, T a struct type of the same file, v used in the
// function only as `v.f` / `v.m(…)`: every field becomes a local of the same name (`f := e`, nothing when e is the
// identifier f itself, `var f Ty` when the literal leaves it out), every method m of T that is used becomes a closure
// `m := func(…) { … }` over those locals (or, when it is only started once as `go v.m()`, the literal `go func() { … }()`),
// and `v.` disappears. The dissolution gives up when v escapes (is used as a value), when a field name would capture a
// name the function uses otherwise, when the struct embeds something, or when a method mentions its receiver as a value.
func destructure(path string, fd *ast.FuncDecl) {
	blocks := []*ast.BlockStmt{fd.Body}
	ast.Inspect(fd.Body, func(n ast.Node) bool {
		if l, ok := n.(*ast.FuncLit); ok {
			blocks = append(blocks, l.Body)
		}
		return true
	})
	for _, blk := range blocks {
		for k, st := range blk.List {
			as, ok := st.(*ast.AssignStmt)
			if !ok || as.Tok != token.DEFINE || len(as.Lhs) != 1 || len(as.Rhs) != 1 {
				continue
			}
			v, ok := as.Lhs[0].(*ast.Ident)
			if !ok {
				continue
			}
			e := as.Rhs[0]
			if u, ok := e.(*ast.UnaryExpr); ok && u.Op == token.AND {
				e = u.X
			}
			cl, ok := e.(*ast.CompositeLit)
			if !ok || cl.Type == nil {
				continue
			}
			tname, targs := "", []ast.Expr{}
			switch t := cl.Type.(type) {
			case *ast.Ident:
				tname = t.Name
			case *ast.IndexExpr:
				if i, ok := t.X.(*ast.Ident); ok {
					tname, targs = i.Name, []ast.Expr{t.Index}
				}
			case *ast.IndexListExpr:
				if i, ok := t.X.(*ast.Ident); ok {
					tname, targs = i.Name, t.Indices
				}
			}
			if tname == "" {
				continue
			}
			if repl := dissolve(path, fd, blk, k, v.Name, tname, targs, cl); repl != nil {
				blk.List = repl
				return
			}
		}
	}
}

func dissolve(path string, fd *ast.FuncDecl, blk *ast.BlockStmt, at int, v, tname string, targs []ast.Expr, cl *ast.CompositeLit) []ast.Stmt {
	f := parse(path) // fresh copy: method bodies are renamed in place
	var sd *ast.StructType
	tparams := []string{}
	for _, d := range f.Decls {
		gd, ok := d.(*ast.GenDecl)
		if !ok || gd.Tok != token.TYPE {
			continue
		}
		for _, sp := range gd.Specs {
			ts := sp.(*ast.TypeSpec)
			if ts.Name.Name != tname {
				continue
			}
			s, ok := ts.Type.(*ast.StructType)
			if !ok {
				return nil
			}
			sd = s
			if ts.TypeParams != nil {
				for _, fl := range ts.TypeParams.List {
					for _, n := range fl.Names {
						tparams = append(tparams, n.Name)
					}
				}
			}
		}
	}
	if sd == nil || len(tparams) != len(targs) {
		return nil
	}
	fields := []string{}
	ftype := map[string]ast.Expr{}
	for _, fl := range sd.Fields.List {
		if len(fl.Names) == 0 {
			return nil // embedded
		}
		for _, n := range fl.Names {
			fields = append(fields, n.Name)
			ftype[n.Name] = fl.Type
		}
	}
	isField := map[string]bool{}
	for _, n := range fields {
		isField[n] = true
	}
	// literal values
	vals := map[string]ast.Expr{}
	for _, el := range cl.Elts {
		kv, ok := el.(*ast.KeyValueExpr)
		if !ok {
			return nil
		}
		kid, ok := kv.Key.(*ast.Ident)
		if !ok || !isField[kid.Name] {
			return nil
		}
		vals[kid.Name] = kv.Value
	}
	// methods of T
	type meth struct {
		fd   *ast.FuncDecl
		recv string
	}
	methods := map[string]*meth{}
	morder := []string{}
	for _, d := range f.Decls {
		md, ok := d.(*ast.FuncDecl)
		if !ok || md.Recv == nil || len(md.Recv.List) != 1 || md.Body == nil {
			continue
		}
		rt := md.Recv.List[0].Type
		if s, ok := rt.(*ast.StarExpr); ok {
			rt = s.X
		}
		rn, rparams := "", []string{}
		switch t := rt.(type) {
		case *ast.Ident:
			rn = t.Name
		case *ast.IndexExpr:
			if i, ok := t.X.(*ast.Ident); ok {
				rn = i.Name
				if p, ok := t.Index.(*ast.Ident); ok {
					rparams = []string{p.Name}
				}
			}
		case *ast.IndexListExpr:
			if i, ok := t.X.(*ast.Ident); ok {
				rn = i.Name
				for _, ix := range t.Indices {
					if p, ok := ix.(*ast.Ident); ok {
						rparams = append(rparams, p.Name)
					}
				}
			}
		}
		if rn != tname {
			continue
		}
		if len(rparams) != len(targs) || len(md.Recv.List[0].Names) != 1 {
			return nil
		}
		// receiver type parameters -> the caller's type arguments (identifiers only)
		tren := map[string]string{}
		for i, p := range rparams {
			a, ok := targs[i].(*ast.Ident)
			if !ok {
				return nil
			}
			if p != a.Name {
				tren[p] = a.Name
			}
		}
		if len(tren) > 0 {
			ast.Inspect(md, func(n ast.Node) bool {
				if i, ok := n.(*ast.Ident); ok {
					if to, ok := tren[i.Name]; ok {
						i.Name = to
					}
				}
				return true
			})
		}
		methods[md.Name.Name] = &meth{fd: md, recv: md.Recv.List[0].Names[0].Name}
		morder = append(morder, md.Name.Name)
	}
	// struct type parameters -> type arguments inside the field types
	{
		tren := map[string]string{}
		for i, p := range tparams {
			a, ok := targs[i].(*ast.Ident)
			if !ok {
				return nil
			}
			if p != a.Name {
				tren[p] = a.Name
			}
		}
		for _, t := range ftype {
			ast.Inspect(t, func(n ast.Node) bool {
				if i, ok := n.(*ast.Ident); ok {
					if to, ok := tren[i.Name]; ok {
						i.Name = to
					}
				}
				return true
			})
		}
	}
	// names the function uses apart from `v.x` selections and the literal's keys
	used := map[string]bool{}
	var collect func(n ast.Node)
	collect = func(n ast.Node) {
		ast.Inspect(n, func(m ast.Node) bool {
			switch y := m.(type) {
			case *ast.SelectorExpr:
				if i, ok := y.X.(*ast.Ident); ok && i.Name == v {
					return false
				}
			case *ast.KeyValueExpr:
				collect(y.Value)
				return false
			case *ast.Ident:
				used[y.Name] = true
			}
			return true
		})
	}
	// scope: the block the struct lives in, the function's signature, and the function's own statements outside any
	// other function literal (a sibling literal has its own locals)
	collect(blk)
	collect(fd.Type)
	if blk != fd.Body {
		var outer func(n ast.Node)
		outer = func(n ast.Node) {
			ast.Inspect(n, func(m ast.Node) bool {
				if l, ok := m.(*ast.FuncLit); ok {
					// descend only into the literal that contains blk
					inside := false
					ast.Inspect(l, func(q ast.Node) bool {
						if q == ast.Node(blk) {
							inside = true
						}
						return !inside
					})
					if inside && l.Body != blk {
						for _, st := range l.Body.List {
							outer(st)
						}
					}
					return false
				}
				switch y := m.(type) {
				case *ast.SelectorExpr:
					if i, ok := y.X.(*ast.Ident); ok && i.Name == v {
						return false
					}
				case *ast.Ident:
					used[y.Name] = true
				}
				return true
			})
		}
		for _, st := range fd.Body.List {
			outer(st)
		}
	}
	// rewrite `r.f` -> f, `r.m` -> m; any other mention of r gives up
	bad := false
	useCount := map[string]int{}
	var strip func(n ast.Node, r string) // in place, on parents holding the selector
	strip = func(root ast.Node, r string) {
		ast.Inspect(root, func(n ast.Node) bool {
			rewrite := func(e ast.Expr) ast.Expr {
				if s, ok := e.(*ast.SelectorExpr); ok {
					if i, ok := s.X.(*ast.Ident); ok && i.Name == r {
						if isField[s.Sel.Name] {
							return ast.NewIdent(s.Sel.Name)
						}
						if methods[s.Sel.Name] != nil {
							useCount[s.Sel.Name]++
							return ast.NewIdent(s.Sel.Name)
						}
						bad = true
					}
				}
				return e
			}
			switch y := n.(type) {
			case *ast.SelectorExpr:
				y.X = rewrite(y.X)
			case *ast.CallExpr:
				y.Fun = rewrite(y.Fun)
				for i := range y.Args {
					y.Args[i] = rewrite(y.Args[i])
				}
			case *ast.SendStmt:
				y.Chan, y.Value = rewrite(y.Chan), rewrite(y.Value)
			case *ast.UnaryExpr:
				y.X = rewrite(y.X)
			case *ast.BinaryExpr:
				y.X, y.Y = rewrite(y.X), rewrite(y.Y)
			case *ast.RangeStmt:
				y.X = rewrite(y.X)
			case *ast.AssignStmt:
				for i := range y.Lhs {
					y.Lhs[i] = rewrite(y.Lhs[i])
				}
				for i := range y.Rhs {
					y.Rhs[i] = rewrite(y.Rhs[i])
				}
			case *ast.ReturnStmt:
				for i := range y.Results {
					y.Results[i] = rewrite(y.Results[i])
				}
			case *ast.ExprStmt:
				y.X = rewrite(y.X)
			case *ast.IfStmt:
				y.Cond = rewrite(y.Cond)
			case *ast.ForStmt:
				if y.Cond != nil {
					y.Cond = rewrite(y.Cond)
				}
			case *ast.ParenExpr:
				y.X = rewrite(y.X)
			case *ast.IndexExpr:
				y.X, y.Index = rewrite(y.X), rewrite(y.Index)
			case *ast.StarExpr:
				y.X = rewrite(y.X)
			case *ast.KeyValueExpr:
				y.Value = rewrite(y.Value)
			case *ast.CompositeLit:
				for i := range y.Elts {
					y.Elts[i] = rewrite(y.Elts[i])
				}
			case *ast.IncDecStmt:
				y.X = rewrite(y.X)
			case *ast.CaseClause:
				for i := range y.List {
					y.List[i] = rewrite(y.List[i])
				}
			case *ast.SwitchStmt:
				if y.Tag != nil {
					y.Tag = rewrite(y.Tag)
				}
			}
			return true
		})
		// anything left that mentions r is a use as a value
		ast.Inspect(root, func(n ast.Node) bool {
			if i, ok := n.(*ast.Ident); ok && i.Name == r {
				bad = true
			}
			return true
		})
	}
	// the function itself (without the defining statement)
	rest := append([]ast.Stmt{}, blk.List[:at]...)
	tail := blk.List[at+1:]
	holder := &ast.BlockStmt{List: tail}
	strip(holder, v)
	for _, val := range vals {
		ast.Inspect(val, func(n ast.Node) bool {
			if i, ok := n.(*ast.Ident); ok && i.Name == v {
				bad = true
			}
			return true
		})
	}
	if bad {
		return nil
	}
	// methods: strip their receivers (a method may call another one)
	for _, mn := range morder {
		m := methods[mn]
		strip(m.fd.Body, m.recv)
		// a local or parameter of the method must not capture a field or method name
		ast.Inspect(m.fd, func(n ast.Node) bool {
			switch y := n.(type) {
			case *ast.AssignStmt:
				if y.Tok == token.DEFINE {
					for _, l := range y.Lhs {
						if i, ok := l.(*ast.Ident); ok && (isField[i.Name] || methods[i.Name] != nil) {
							bad = true
						}
					}
				}
			case *ast.Field:
				if n != m.fd.Recv.List[0] {
					for _, i := range y.Names {
						if isField[i.Name] || methods[i.Name] != nil {
							bad = true
						}
					}
				}
			case *ast.ValueSpec:
				for _, i := range y.Names {
					if isField[i.Name] || methods[i.Name] != nil {
						bad = true
					}
				}
			}
			return true
		})
	}
	if bad {
		return nil
	}
	// field locals
	for _, fn := range fields {
		val, has := vals[fn]
		if has {
			if i, ok := val.(*ast.Ident); ok && i.Name == fn {
				continue // `ctx: ctx`: the local of that name is the field
			}
		}
		if used[fn] {
			return nil // the name means something else in the function
		}
		if has {
			rest = append(rest, &ast.AssignStmt{Lhs: []ast.Expr{ast.NewIdent(fn)}, Tok: token.DEFINE, Rhs: []ast.Expr{val}})
		} else {
			rest = append(rest, &ast.DeclStmt{Decl: &ast.GenDecl{Tok: token.VAR, Specs: []ast.Spec{&ast.ValueSpec{Names: []*ast.Ident{ast.NewIdent(fn)}, Type: ftype[fn]}}}})
		}
	}
	// methods: a closure each, except those started exactly once as `go m()` at the top level of the function
	inPlace := map[string]bool{}
	for _, s := range tail {
		if g, ok := s.(*ast.GoStmt); ok && len(g.Call.Args) == 0 {
			if i, ok := g.Call.Fun.(*ast.Ident); ok && methods[i.Name] != nil && useCount[i.Name] == 1 &&
				(methods[i.Name].fd.Type.Params == nil || len(methods[i.Name].fd.Type.Params.List) == 0) {
				inPlace[i.Name] = true
				g.Call.Fun = &ast.FuncLit{Type: &ast.FuncType{Params: &ast.FieldList{}}, Body: methods[i.Name].fd.Body}
			}
		}
	}
	for _, mn := range morder {
		if useCount[mn] == 0 || inPlace[mn] {
			continue
		}
		if used[mn] {
			return nil
		}
		m := methods[mn]
		rest = append(rest, &ast.AssignStmt{Lhs: []ast.Expr{ast.NewIdent(mn)}, Tok: token.DEFINE,
			Rhs: []ast.Expr{&ast.FuncLit{Type: &ast.FuncType{Params: m.fd.Type.Params, Results: m.fd.Type.Results}, Body: m.fd.Body}}})
	}
	return append(rest, tail...)
}

// normalised copy of a rewritten function: printed and parsed again, so that every node has consistent positions
// (go/printer spaces nodes without positions differently, and the translators compare printed statements)
func reparse(fd *ast.FuncDecl) *ast.FuncDecl {
	var sb strings.Builder
	sb.WriteString("package p\n\n")
	saveDoc := fd.Doc
	fd.Doc = nil
	if err := format.Node(&sb, token.NewFileSet(), fd); err != nil {
		fd.Doc = saveDoc
		return fd
	}
	fd.Doc = saveDoc
	f, err := parser.ParseFile(fset, fd.Name.Name+" (rewritten)", sb.String(), parser.SkipObjectResolution)
	if err != nil {
		return fd
	}
	for _, d := range f.Decls {
		if nd, ok := d.(*ast.FuncDecl); ok {
			return nd
		}
	}
	return fd
}

// the source-level rewrites every loop-body translator applies first
func prepass(path string, fd *ast.FuncDecl) *ast.FuncDecl {
	for round := 0; round < 4; round++ {
		n := len(fd.Body.List)
		before := src(fd.Body)
		destructure(path, fd)
		expandHelpers(path, fd)
		inlineStmtCalls(path, fd)
		normaliseCondLoops(fd)
		inlineBoolGuards(path, fd)
		normaliseCondLoops(fd)
		dropUnusedClosures(fd)
		normaliseSmall(fd)
		propagateLenCap(fd)
		normaliseIndexLoops(fd)
		inlineGuardClosures(fd)
		inlineOnceStartedClosures(fd)
		normaliseCountedRecv(fd)
		normaliseRecvLoops(fd)
		normaliseNames(fd)
		if len(fd.Body.List) == n && src(fd.Body) == before {
			return fd
		}
		fd = reparse(fd)
		if os.Getenv("XLATE_DUMP") == fd.Name.Name {
			fmt.Fprintf(os.Stderr, "---- %s after round %d\n%s\n", fd.Name.Name, round, printNode(fd))
		}
	}
	return fd
}

// `for { x, ok := <-ch; if !ok { break }; BODY }` is `for x := range ch { BODY }`; with `return` in place of `break` it
// is too when the loop is the last statement of its function (the return then ends what the loop's end would end).
// ok must not be mentioned in BODY.
func normaliseRecvLoops(fd *ast.FuncDecl) {
	var doBody func(list []ast.Stmt)
	doBody = func(list []ast.Stmt) {
		for k, st := range list {
			fs, ok := st.(*ast.ForStmt)
			if !ok || fs.Init != nil || fs.Cond != nil || fs.Post != nil || len(fs.Body.List) < 2 {
				continue
			}
			as, ok := fs.Body.List[0].(*ast.AssignStmt)
			if !ok || as.Tok != token.DEFINE || len(as.Lhs) != 2 || len(as.Rhs) != 1 {
				continue
			}
			u, ok := as.Rhs[0].(*ast.UnaryExpr)
			if !ok || u.Op != token.ARROW {
				continue
			}
			x, ok1 := as.Lhs[0].(*ast.Ident)
			okv, ok2 := as.Lhs[1].(*ast.Ident)
			if !ok1 || !ok2 {
				continue
			}
			is, ok := fs.Body.List[1].(*ast.IfStmt)
			if !ok || is.Init != nil || is.Else != nil || len(is.Body.List) != 1 {
				continue
			}
			ne, ok := is.Cond.(*ast.UnaryExpr)
			if !ok || ne.Op != token.NOT {
				continue
			}
			ci, ok := ne.X.(*ast.Ident)
			if !ok || ci.Name != okv.Name {
				continue
			}
			exit := false
			switch e := is.Body.List[0].(type) {
			case *ast.BranchStmt:
				exit = e.Tok == token.BREAK && e.Label == nil
			case *ast.ReturnStmt:
				exit = len(e.Results) == 0 && k == len(list)-1
			}
			if !exit {
				continue
			}
			mentioned := false
			for _, s := range fs.Body.List[2:] {
				ast.Inspect(s, func(n ast.Node) bool {
					if i, ok := n.(*ast.Ident); ok && i.Name == okv.Name {
						mentioned = true
					}
					return true
				})
			}
			if mentioned {
				continue
			}
			list[k] = &ast.RangeStmt{Key: x, Tok: token.DEFINE, X: u.X, Body: &ast.BlockStmt{List: fs.Body.List[2:]}}
		}
	}
	ast.Inspect(fd, func(n ast.Node) bool {
		switch y := n.(type) {
		case *ast.FuncLit:
			doBody(y.Body.List)
		case *ast.FuncDecl:
			doBody(y.Body.List)
		}
		return true
	})
}

// names the translators look for literally: the WaitGroup is `wg`. A WaitGroup declared under another name is renamed
// when `wg` means nothing else in the function.
func normaliseNames(fd *ast.FuncDecl) {
	name := ""
	ast.Inspect(fd.Body, func(n ast.Node) bool {
		switch y := n.(type) {
		case *ast.ValueSpec:
			if len(y.Names) == 1 && y.Type != nil && src(y.Type) == "sync.WaitGroup" && name == "" {
				name = y.Names[0].Name
			}
		case *ast.AssignStmt:
			if y.Tok == token.DEFINE && len(y.Lhs) == 1 && len(y.Rhs) == 1 && name == "" {
				if r := src(y.Rhs[0]); r == "new(sync.WaitGroup)" || r == "&sync.WaitGroup{}" {
					if i, ok := y.Lhs[0].(*ast.Ident); ok {
						name = i.Name
					}
				}
			}
		}
		return true
	})
	if name == "" || name == "wg" {
		return
	}
	clash := false
	ast.Inspect(fd, func(n ast.Node) bool {
		if i, ok := n.(*ast.Ident); ok && i.Name == "wg" {
			clash = true
		}
		return true
	})
	if clash {
		return
	}
	ast.Inspect(fd.Body, func(n ast.Node) bool {
		if i, ok := n.(*ast.Ident); ok && i.Name == name {
			i.Name = "wg"
		}
		return true
	})
}

var parLoop = regexp.MustCompile(`^(\w+) := (?:1; (\w+) <= par; (\w+)\+\+|0; (\w+) < par; (\w+)\+\+|par; (\w+) > 0; (\w+)--|par; (\w+) >= 1; (\w+)--)$`)

// a `for` header that runs its body exactly `par` times (the counter must not be used by the body: checked by callers)
func isParLoop(hd string) (string, bool) {
	m := parLoop.FindStringSubmatch(hd)
	if m == nil {
		return "", false
	}
	for _, g := range m[2:] {
		if g != "" && g != m[1] {
			return "", false
		}
	}
	return m[1], true
}

// `ok := func() bool { select { case …: return true; …; default: return false } }` used as `if ok() { return }` or
// `if !ok() { return }`: the `if` is replaced by the select, an arm whose result makes the condition true ends with a
// bare `return`, the other arms fall through (their `return b` is dropped). Only closures without parameters whose
// body is that single select, every arm ending in `return true` or `return false`.
func inlineGuardClosures(fd *ast.FuncDecl) {
	guards := map[string]*ast.SelectStmt{}
	defs := map[string]int{}
	for k, st := range fd.Body.List {
		as, ok := st.(*ast.AssignStmt)
		if !ok || as.Tok != token.DEFINE || len(as.Lhs) != 1 || len(as.Rhs) != 1 {
			continue
		}
		lit, ok := as.Rhs[0].(*ast.FuncLit)
		if !ok || (lit.Type.Params != nil && len(lit.Type.Params.List) != 0) || lit.Type.Results == nil ||
			len(lit.Type.Results.List) != 1 || src(lit.Type.Results.List[0].Type) != "bool" || len(lit.Body.List) != 1 {
			continue
		}
		sel, ok := lit.Body.List[0].(*ast.SelectStmt)
		if !ok {
			continue
		}
		good := true
		for _, cl := range sel.Body.List {
			cc := cl.(*ast.CommClause)
			if len(cc.Body) == 0 {
				good = false
				break
			}
			r, ok := cc.Body[len(cc.Body)-1].(*ast.ReturnStmt)
			if !ok || len(r.Results) != 1 || (src(r.Results[0]) != "true" && src(r.Results[0]) != "false") {
				good = false
			}
			for _, s := range cc.Body[:len(cc.Body)-1] {
				ast.Inspect(s, func(n ast.Node) bool {
					if _, ok := n.(*ast.ReturnStmt); ok {
						good = false
					}
					return true
				})
			}
		}
		if good {
			guards[as.Lhs[0].(*ast.Ident).Name] = sel
			defs[as.Lhs[0].(*ast.Ident).Name] = k
		}
	}
	if len(guards) == 0 {
		return
	}
	used := map[string]int{}
	other := map[string]bool{}
	var rewriteList func(list []ast.Stmt) []ast.Stmt
	instance := func(sel *ast.SelectStmt, exitOn string) ast.Stmt {
		ns := &ast.SelectStmt{Body: &ast.BlockStmt{}}
		for _, cl := range sel.Body.List {
			cc := cl.(*ast.CommClause)
			nb := append([]ast.Stmt{}, cc.Body[:len(cc.Body)-1]...)
			if src(cc.Body[len(cc.Body)-1].(*ast.ReturnStmt).Results[0]) == exitOn {
				nb = append(nb, &ast.ReturnStmt{})
			}
			ns.Body.List = append(ns.Body.List, &ast.CommClause{Comm: cc.Comm, Body: nb})
		}
		return ns
	}
	rewriteList = func(list []ast.Stmt) []ast.Stmt {
		out := []ast.Stmt{}
		for _, st := range list {
			if is, ok := st.(*ast.IfStmt); ok && is.Init == nil && is.Else == nil && len(is.Body.List) == 1 {
				if r, ok := is.Body.List[0].(*ast.ReturnStmt); ok && len(r.Results) == 0 {
					cond, exitOn := is.Cond, "true"
					if u, ok := cond.(*ast.UnaryExpr); ok && u.Op == token.NOT {
						cond, exitOn = u.X, "false"
					}
					if c, ok := cond.(*ast.CallExpr); ok && len(c.Args) == 0 {
						if i, ok := c.Fun.(*ast.Ident); ok && guards[i.Name] != nil {
							used[i.Name]++
							out = append(out, instance(guards[i.Name], exitOn))
							continue
						}
					}
				}
			}
			ast.Inspect(st, func(n ast.Node) bool {
				switch y := n.(type) {
				case *ast.BlockStmt:
					y.List = rewriteList(y.List)
					return false
				case *ast.CaseClause:
					y.Body = rewriteList(y.Body)
					return false
				case *ast.CommClause:
					y.Body = rewriteList(y.Body)
					return false
				}
				return true
			})
			out = append(out, st)
		}
		return out
	}
	fd.Body.List = rewriteList(fd.Body.List)
	// a guard that is still mentioned (another use) keeps its definition; otherwise the definition goes
	ast.Inspect(fd.Body, func(n ast.Node) bool {
		if c, ok := n.(*ast.CallExpr); ok {
			if i, ok := c.Fun.(*ast.Ident); ok && guards[i.Name] != nil {
				other[i.Name] = true
			}
		}
		return true
	})
	out := []ast.Stmt{}
	for _, st := range fd.Body.List {
		if as, ok := st.(*ast.AssignStmt); ok && as.Tok == token.DEFINE && len(as.Lhs) == 1 {
			if i, ok := as.Lhs[0].(*ast.Ident); ok && guards[i.Name] != nil && used[i.Name] > 0 && !other[i.Name] {
				if _, isLit := as.Rhs[0].(*ast.FuncLit); isLit {
					continue
				}
			}
		}
		out = append(out, st)
	}
	fd.Body.List = out
}

// mapExprs rewrites, bottom-up, every expression slot below root with f (statement and expression parents that occur in
// the translated fragments).
func mapExprs(root ast.Node, f func(ast.Expr) ast.Expr) {
	var walk func(n ast.Node)
	re := func(e ast.Expr) ast.Expr {
		if e == nil {
			return nil
		}
		walk(e)
		return f(e)
	}
	walk = func(n ast.Node) {
		switch y := n.(type) {
		case *ast.BlockStmt:
			for _, s := range y.List {
				walk(s)
			}
		case *ast.ExprStmt:
			y.X = re(y.X)
		case *ast.AssignStmt:
			for i := range y.Lhs {
				y.Lhs[i] = re(y.Lhs[i])
			}
			for i := range y.Rhs {
				y.Rhs[i] = re(y.Rhs[i])
			}
		case *ast.ReturnStmt:
			for i := range y.Results {
				y.Results[i] = re(y.Results[i])
			}
		case *ast.IfStmt:
			if y.Init != nil {
				walk(y.Init)
			}
			y.Cond = re(y.Cond)
			walk(y.Body)
			if y.Else != nil {
				walk(y.Else)
			}
		case *ast.ForStmt:
			if y.Init != nil {
				walk(y.Init)
			}
			if y.Cond != nil {
				y.Cond = re(y.Cond)
			}
			if y.Post != nil {
				walk(y.Post)
			}
			walk(y.Body)
		case *ast.RangeStmt:
			y.X = re(y.X)
			walk(y.Body)
		case *ast.DeclStmt, *ast.BranchStmt, *ast.EmptyStmt:
		case *ast.SelectStmt:
			walk(y.Body)
		case *ast.CommClause:
			if y.Comm != nil {
				walk(y.Comm)
			}
			for _, s := range y.Body {
				walk(s)
			}
		case *ast.SwitchStmt:
			if y.Init != nil {
				walk(y.Init)
			}
			if y.Tag != nil {
				y.Tag = re(y.Tag)
			}
			walk(y.Body)
		case *ast.CaseClause:
			for i := range y.List {
				y.List[i] = re(y.List[i])
			}
			for _, s := range y.Body {
				walk(s)
			}
		case *ast.LabeledStmt:
			walk(y.Stmt)
		case *ast.IncDecStmt:
			y.X = re(y.X)
		case *ast.SendStmt:
			y.Chan, y.Value = re(y.Chan), re(y.Value)
		case *ast.DeferStmt:
			y.Call = re(y.Call).(*ast.CallExpr)
		case *ast.GoStmt:
			y.Call = re(y.Call).(*ast.CallExpr)
		case *ast.CallExpr:
			y.Fun = re(y.Fun)
			for i := range y.Args {
				y.Args[i] = re(y.Args[i])
			}
		case *ast.UnaryExpr:
			y.X = re(y.X)
		case *ast.StarExpr:
			y.X = re(y.X)
		case *ast.ParenExpr:
			y.X = re(y.X)
		case *ast.BinaryExpr:
			y.X, y.Y = re(y.X), re(y.Y)
		case *ast.SelectorExpr:
			y.X = re(y.X)
		case *ast.IndexExpr:
			y.X, y.Index = re(y.X), re(y.Index)
		case *ast.KeyValueExpr:
			y.Value = re(y.Value)
		case *ast.CompositeLit:
			for i := range y.Elts {
				y.Elts[i] = re(y.Elts[i])
			}
		case *ast.FuncLit:
			walk(y.Body)
		case *ast.TypeAssertExpr:
			y.X = re(y.X)
		}
	}
	walk(root)
}

// inlineMethodHelpers (family optics): an unexported helper method of a translated struct with one result, used as
// `x := recv.helper(a1, …, an)` at the top level of another method's body, is replaced by its body (parameters renamed to
// the identifier arguments, the helper's receiver to the caller's), its final `return E` becoming `x := E`. When E is
// `&v` for a local v of the helper, x is an alias: later `*x` reads v and `x` passes `&v`. Helpers whose every use was
// inlined are dropped from the method list. Anything else is left alone (and rejected by the translator as before).
func inlineMethodHelpers(ms []*ast.FuncDecl, standard map[string]bool) []*ast.FuncDecl {
	helpers := map[string]*ast.FuncDecl{}
	for _, fd := range ms {
		if !standard[fd.Name.Name] && !fd.Name.IsExported() && fd.Body != nil && fd.Type.Results != nil &&
			len(fd.Type.Results.List) == 1 && len(fd.Type.Results.List[0].Names) == 0 && len(fd.Body.List) > 0 {
			if _, ok := fd.Body.List[len(fd.Body.List)-1].(*ast.ReturnStmt); ok {
				helpers[fd.Name.Name] = fd
			}
		}
	}
	if len(helpers) == 0 {
		return ms
	}
	names := func(n ast.Node) map[string]bool {
		m := map[string]bool{}
		ast.Inspect(n, func(x ast.Node) bool {
			if i, ok := x.(*ast.Ident); ok {
				m[i.Name] = true
			}
			return true
		})
		return m
	}
	fresh := func(h *ast.FuncDecl) *ast.FuncDecl { // a private copy of the helper, from a fresh parse of its file
		f := parse(fset.Position(h.Pos()).Filename)
		for _, d := range f.Decls {
			if fd, ok := d.(*ast.FuncDecl); ok && fd.Recv != nil && fd.Name.Name == h.Name.Name && src(fd.Recv.List[0].Type) == src(h.Recv.List[0].Type) {
				return fd
			}
		}
		return nil
	}
	remaining := map[string]int{}
	for _, fd := range ms {
		if helpers[fd.Name.Name] != nil || fd.Body == nil || len(fd.Recv.List[0].Names) != 1 {
			continue
		}
		rr := fd.Recv.List[0].Names[0].Name
		out := []ast.Stmt{}
		list := fd.Body.List
		for k := 0; k < len(list); k++ {
			st := list[k]
			as, ok := st.(*ast.AssignStmt)
			var call *ast.CallExpr
			if ok && as.Tok == token.DEFINE && len(as.Lhs) == 1 && len(as.Rhs) == 1 {
				call, _ = as.Rhs[0].(*ast.CallExpr)
			}
			var h *ast.FuncDecl
			if call != nil {
				if sel, ok := call.Fun.(*ast.SelectorExpr); ok {
					if r, ok := sel.X.(*ast.Ident); ok && r.Name == rr {
						h = helpers[sel.Sel.Name]
					}
				}
			}
			if h == nil {
				out = append(out, st)
				continue
			}
			x, _ := as.Lhs[0].(*ast.Ident)
			hc := fresh(h)
			okInline := x != nil && hc != nil && len(hc.Recv.List[0].Names) == 1
			ren := map[string]string{}
			if okInline {
				ren[hc.Recv.List[0].Names[0].Name] = rr
				ps := []string{}
				for _, p := range hc.Type.Params.List {
					for _, n := range p.Names {
						ps = append(ps, n.Name)
					}
				}
				if len(ps) != len(call.Args) {
					okInline = false
				}
				for i := range ps {
					if !okInline {
						break
					}
					a, isId := call.Args[i].(*ast.Ident)
					if !isId {
						okInline = false
						break
					}
					ren[ps[i]] = a.Name
				}
			}
			if okInline {
				// locals of the helper must be new to the caller
				callerNames := names(fd)
				ast.Inspect(hc.Body, func(n ast.Node) bool {
					switch y := n.(type) {
					case *ast.AssignStmt:
						if y.Tok == token.DEFINE {
							for _, l := range y.Lhs {
								if i, ok := l.(*ast.Ident); ok && callerNames[i.Name] {
									okInline = false
								}
							}
						}
					case *ast.ValueSpec:
						for _, i := range y.Names {
							if callerNames[i.Name] {
								okInline = false
							}
						}
					case *ast.ReturnStmt:
						if n != hc.Body.List[len(hc.Body.List)-1] {
							okInline = false // an early return
						}
					}
					return true
				})
			}
			if !okInline {
				remaining[h.Name.Name]++
				out = append(out, st)
				continue
			}
			ast.Inspect(hc.Body, func(n ast.Node) bool {
				if i, ok := n.(*ast.Ident); ok {
					if to, ok := ren[i.Name]; ok {
						i.Name = to
					}
				}
				return true
			})
			body := hc.Body.List
			res := body[len(body)-1].(*ast.ReturnStmt).Results[0]
			out = append(out, body[:len(body)-1]...)
			if u, ok := res.(*ast.UnaryExpr); ok && u.Op == token.AND {
				if v, ok := u.X.(*ast.Ident); ok {
					// x aliases &v in what follows
					rest := &ast.BlockStmt{List: list[k+1:]}
					mapExprs(rest, func(e ast.Expr) ast.Expr {
						switch y := e.(type) {
						case *ast.StarExpr:
							if i, ok := y.X.(*ast.UnaryExpr); ok && i.Op == token.AND {
								if j, ok := i.X.(*ast.Ident); ok && j.Name == v.Name {
									return ast.NewIdent(v.Name) // *(&v)
								}
							}
						case *ast.Ident:
							if y.Name == x.Name {
								return &ast.UnaryExpr{Op: token.AND, X: ast.NewIdent(v.Name)}
							}
						}
						return e
					})
					continue
				}
			}
			out = append(out, &ast.AssignStmt{Lhs: []ast.Expr{x}, Tok: token.DEFINE, Rhs: []ast.Expr{res}})
		}
		fd.Body.List = out
		// any other mention of a helper in this method keeps the helper
		ast.Inspect(fd.Body, func(n ast.Node) bool {
			if sel, ok := n.(*ast.SelectorExpr); ok && helpers[sel.Sel.Name] != nil {
				if r, ok := sel.X.(*ast.Ident); ok && r.Name == rr {
					remaining[sel.Sel.Name]++
				}
			}
			return true
		})
	}
	keep := []*ast.FuncDecl{}
	for _, fd := range ms {
		if helpers[fd.Name.Name] != nil && remaining[fd.Name.Name] == 0 {
			continue
		}
		keep = append(keep, fd)
	}
	return keep
}

// Counted receive loop. In a goroutine literal started by a function that has returned early when `n <= 0` (so n >= 1
// when the goroutine starts, n an int parameter not assigned elsewhere),
//
//	for c := n; c > 0; c-- { x, ok := <-ch; if !ok { return }; BODY }        (last statement of the literal)
//
// receives at most n elements, one per iteration, and stops before the next receive once n of them went through BODY
// (a `return` in BODY ends the goroutine in both forms; BODY has no `continue`/`break` of this loop and mentions
// neither c nor ok nor n). With n >= 1 that is
//
//	for x := range ch { BODY; n--; if n == 0 { return } }
func normaliseCountedRecv(fd *ast.FuncDecl) {
	// the guard: a top-level `if n <= 0 { …; return … }` (or `n < 1`) before the goroutine
	guarded := map[string]bool{}
	isIntParam := map[string]bool{}
	for _, p := range fd.Type.Params.List {
		if src(p.Type) == "int" {
			for _, n := range p.Names {
				isIntParam[n.Name] = true
			}
		}
	}
	for _, st := range fd.Body.List {
		if is, ok := st.(*ast.IfStmt); ok && is.Init == nil && is.Else == nil && len(is.Body.List) > 0 {
			if _, ret := is.Body.List[len(is.Body.List)-1].(*ast.ReturnStmt); ret {
				if b, ok := is.Cond.(*ast.BinaryExpr); ok {
					if i, ok := b.X.(*ast.Ident); ok && isIntParam[i.Name] &&
						((b.Op == token.LEQ && src(b.Y) == "0") || (b.Op == token.LSS && src(b.Y) == "1")) {
						guarded[i.Name] = true
					}
				}
			}
			continue
		}
		g, ok := st.(*ast.GoStmt)
		if !ok {
			continue
		}
		lit, ok := g.Call.Fun.(*ast.FuncLit)
		if !ok || len(lit.Body.List) == 0 {
			continue
		}
		last := len(lit.Body.List) - 1
		fs, ok := lit.Body.List[last].(*ast.ForStmt)
		if !ok || fs.Init == nil || fs.Cond == nil || fs.Post == nil || len(fs.Body.List) < 2 {
			continue
		}
		init, ok := fs.Init.(*ast.AssignStmt)
		if !ok || init.Tok != token.DEFINE || len(init.Lhs) != 1 || len(init.Rhs) != 1 {
			continue
		}
		c, ok1 := init.Lhs[0].(*ast.Ident)
		n, ok2 := init.Rhs[0].(*ast.Ident)
		if !ok1 || !ok2 || !guarded[n.Name] || src(fs.Cond) != c.Name+" > 0" || src(fs.Post) != c.Name+"--" {
			continue
		}
		// n is not mentioned anywhere else in the function after the guard, nor assigned
		uses := 0
		ast.Inspect(fd.Body, func(x ast.Node) bool {
			if i, ok := x.(*ast.Ident); ok && i.Name == n.Name {
				uses++
			}
			return true
		})
		if uses != 2 { // the guard and the loop header
			continue
		}
		rv, ok := fs.Body.List[0].(*ast.AssignStmt)
		if !ok || rv.Tok != token.DEFINE || len(rv.Lhs) != 2 || len(rv.Rhs) != 1 {
			continue
		}
		u, ok := rv.Rhs[0].(*ast.UnaryExpr)
		if !ok || u.Op != token.ARROW {
			continue
		}
		x, okx := rv.Lhs[0].(*ast.Ident)
		okv, oko := rv.Lhs[1].(*ast.Ident)
		is, ok := fs.Body.List[1].(*ast.IfStmt)
		if !okx || !oko || !ok || is.Init != nil || is.Else != nil || src(is.Cond) != "!"+okv.Name || len(is.Body.List) != 1 {
			continue
		}
		if r, ok := is.Body.List[0].(*ast.ReturnStmt); !ok || len(r.Results) != 0 {
			continue
		}
		body := fs.Body.List[2:]
		bad := false
		for _, s := range body {
			ast.Inspect(s, func(y ast.Node) bool {
				switch z := y.(type) {
				case *ast.Ident:
					if z.Name == c.Name || z.Name == okv.Name || z.Name == n.Name {
						bad = true
					}
				case *ast.BranchStmt:
					bad = true // continue would skip the decrement, break the test
				case *ast.FuncLit:
					return false
				}
				return true
			})
		}
		if bad {
			continue
		}
		nb := append(append([]ast.Stmt{}, body...),
			&ast.IncDecStmt{X: ast.NewIdent(n.Name), Tok: token.DEC},
			&ast.IfStmt{Cond: &ast.BinaryExpr{X: ast.NewIdent(n.Name), Op: token.EQL, Y: &ast.BasicLit{Kind: token.INT, Value: "0"}},
				Body: &ast.BlockStmt{List: []ast.Stmt{&ast.ReturnStmt{}}}})
		lit.Body.List[last] = &ast.RangeStmt{Key: x, Tok: token.DEFINE, X: u.X, Body: &ast.BlockStmt{List: nb}}
	}
}

// `name := func() { … }` (no parameters, no results) that is mentioned exactly once more, as the top-level statement
// `go name()`, is the literal goroutine `go func() { … }()`.
func inlineOnceStartedClosures(fd *ast.FuncDecl) {
	for {
		changed := false
		for k, st := range fd.Body.List {
			as, ok := st.(*ast.AssignStmt)
			if !ok || as.Tok != token.DEFINE || len(as.Lhs) != 1 || len(as.Rhs) != 1 {
				continue
			}
			name, ok := as.Lhs[0].(*ast.Ident)
			lit, ok2 := as.Rhs[0].(*ast.FuncLit)
			if !ok || !ok2 || (lit.Type.Params != nil && len(lit.Type.Params.List) != 0) || (lit.Type.Results != nil && len(lit.Type.Results.List) != 0) {
				continue
			}
			mentions := 0
			ast.Inspect(fd.Body, func(n ast.Node) bool {
				if i, ok := n.(*ast.Ident); ok && i.Name == name.Name {
					mentions++
				}
				return true
			})
			if mentions != 2 {
				continue
			}
			for j, s2 := range fd.Body.List {
				g, ok := s2.(*ast.GoStmt)
				if !ok || j <= k || len(g.Call.Args) != 0 {
					continue
				}
				if i, ok := g.Call.Fun.(*ast.Ident); ok && i.Name == name.Name {
					g.Call.Fun = lit
					fd.Body.List = append(append([]ast.Stmt{}, fd.Body.List[:k]...), fd.Body.List[k+1:]...)
					changed = true
					break
				}
			}
			if changed {
				break
			}
		}
		if !changed {
			return
		}
	}
}

// `n := len(xs)` / `n := cap(ch)` at the top level of the function, xs/ch a parameter, n never assigned again and its
// address never taken: every later mention of n is the expression itself (parameters of slice and channel type are not
// re-sliced or replaced by the stage functions: checked — xs must not be assigned either).
func propagateLenCap(fd *ast.FuncDecl) {
	params := map[string]bool{}
	for _, p := range fd.Type.Params.List {
		for _, n := range p.Names {
			params[n.Name] = true
		}
	}
	for k := 0; k < len(fd.Body.List); k++ {
		as, ok := fd.Body.List[k].(*ast.AssignStmt)
		if !ok || as.Tok != token.DEFINE || len(as.Lhs) != 1 || len(as.Rhs) != 1 {
			continue
		}
		n, ok := as.Lhs[0].(*ast.Ident)
		call, ok2 := as.Rhs[0].(*ast.CallExpr)
		if !ok || !ok2 || len(call.Args) != 1 {
			continue
		}
		f, ok := call.Fun.(*ast.Ident)
		x, ok2 := call.Args[0].(*ast.Ident)
		if !ok || !ok2 || (f.Name != "len" && f.Name != "cap") || !params[x.Name] {
			continue
		}
		bad := false
		ast.Inspect(fd.Body, func(m ast.Node) bool {
			switch y := m.(type) {
			case *ast.AssignStmt:
				if y != as {
					for _, l := range y.Lhs {
						if i, ok := l.(*ast.Ident); ok && (i.Name == n.Name || i.Name == x.Name) {
							bad = true
						}
					}
				}
			case *ast.IncDecStmt:
				if i, ok := y.X.(*ast.Ident); ok && (i.Name == n.Name || i.Name == x.Name) {
					bad = true
				}
			case *ast.UnaryExpr:
				if i, ok := y.X.(*ast.Ident); ok && y.Op == token.AND && (i.Name == n.Name || i.Name == x.Name) {
					bad = true
				}
			case *ast.RangeStmt:
				for _, kv := range []ast.Expr{y.Key, y.Value} {
					if i, ok := kv.(*ast.Ident); ok && (i.Name == n.Name || i.Name == x.Name) {
						bad = true
					}
				}
			}
			return true
		})
		if bad {
			continue
		}
		rest := &ast.BlockStmt{List: fd.Body.List[k+1:]}
		mapExprs(rest, func(e ast.Expr) ast.Expr {
			if i, ok := e.(*ast.Ident); ok && i.Name == n.Name {
				return &ast.CallExpr{Fun: ast.NewIdent(f.Name), Args: []ast.Expr{ast.NewIdent(x.Name)}}
			}
			return e
		})
		fd.Body.List = append(append([]ast.Stmt{}, fd.Body.List[:k]...), rest.List...)
		k--
	}
}

// `for i := 0; i < len(xs); i++ { … xs[i] … }` with i used only as the index of xs (never assigned) is
// `for _, v := range xs { … v … }` (xs is not assigned in the body).
func normaliseIndexLoops(fd *ast.FuncDecl) {
	used := map[string]bool{}
	ast.Inspect(fd, func(n ast.Node) bool {
		if i, ok := n.(*ast.Ident); ok {
			used[i.Name] = true
		}
		return true
	})
	var doList func(list []ast.Stmt)
	doList = func(list []ast.Stmt) {
		for k, st := range list {
			fs, ok := st.(*ast.ForStmt)
			if !ok || fs.Init == nil || fs.Cond == nil || fs.Post == nil {
				continue
			}
			init, ok := fs.Init.(*ast.AssignStmt)
			if !ok || init.Tok != token.DEFINE || len(init.Lhs) != 1 || src(init.Rhs[0]) != "0" {
				continue
			}
			i, ok := init.Lhs[0].(*ast.Ident)
			if !ok || src(fs.Post) != i.Name+"++" {
				continue
			}
			cond, ok := fs.Cond.(*ast.BinaryExpr)
			if !ok || cond.Op != token.LSS || src(cond.X) != i.Name {
				continue
			}
			lc, ok := cond.Y.(*ast.CallExpr)
			if !ok || src(lc.Fun) != "len" || len(lc.Args) != 1 {
				continue
			}
			xs, ok := lc.Args[0].(*ast.Ident)
			if !ok {
				continue
			}
			// every mention of i in the body is xs[i]; xs not assigned
			okBody, uses := true, 0
			var check func(n ast.Node) bool
			check = func(n ast.Node) bool {
				switch y := n.(type) {
				case *ast.IndexExpr:
					if a, ok := y.X.(*ast.Ident); ok && a.Name == xs.Name {
						if b, ok := y.Index.(*ast.Ident); ok && b.Name == i.Name {
							uses++
							return false
						}
					}
				case *ast.Ident:
					if y.Name == i.Name {
						okBody = false
					}
				case *ast.AssignStmt:
					for _, l := range y.Lhs {
						if a, ok := l.(*ast.Ident); ok && a.Name == xs.Name {
							okBody = false
						}
					}
				}
				return true
			}
			ast.Inspect(fs.Body, check)
			if !okBody || uses == 0 {
				continue
			}
			v := "c"
			for used[v] {
				v += "_"
			}
			used[v] = true
			mapExprs(fs.Body, func(e ast.Expr) ast.Expr {
				if y, ok := e.(*ast.IndexExpr); ok {
					if a, ok := y.X.(*ast.Ident); ok && a.Name == xs.Name {
						if b, ok := y.Index.(*ast.Ident); ok && b.Name == i.Name {
							return ast.NewIdent(v)
						}
					}
				}
				return e
			})
			list[k] = &ast.RangeStmt{Key: ast.NewIdent("_"), Value: ast.NewIdent(v), Tok: token.DEFINE, X: ast.NewIdent(xs.Name), Body: fs.Body}
		}
	}
	doList(fd.Body.List)
}

// Statement-level inlining of unexported top-level functions of the same file (not methods), arguments identifiers
// (or `&ident`, passed on as the identifier: methods are called on the pointer and the variable alike):
//
//	h(a…)            →  h's body                      (no `return` in it, or h(a…) is the last statement of a function
//	                                                   body, where h's bare returns end what the call would end)
//	x := h(a…)       →  h's body without its final `return E`, then `x := E` (no other return in h); when E is a local
//	                    of h that local is renamed to x
//	go h(a…)         →  go func() { h's body }()
//
// Parameters are renamed to the arguments; h must not assign a parameter (it is a copy) unless the caller never
// mentions the argument afterwards; a local of h must be new to the caller. Applied repeatedly (helpers calling
// helpers), everywhere in the function including function literals.
func inlineStmtCalls(path string, fd *ast.FuncDecl) {
	callerTP := map[string]bool{}
	for _, t := range typeParams(fd) {
		callerTP[t] = true
	}
	for round := 0; round < 6; round++ {
		changed := false
		var doList func(list []ast.Stmt, lastOfFunc bool) []ast.Stmt
		var walk func(n ast.Node)
		walk = func(n ast.Node) {
			ast.Inspect(n, func(m ast.Node) bool {
				switch y := m.(type) {
				case *ast.FuncLit:
					y.Body.List = doList(y.Body.List, true)
					return false
				case *ast.BlockStmt:
					y.List = doList(y.List, false)
					return false
				case *ast.CaseClause:
					y.Body = doList(y.Body, false)
					return false
				case *ast.CommClause:
					y.Body = doList(y.Body, false)
					return false
				}
				return true
			})
		}
		doList = func(list []ast.Stmt, lastOfFunc bool) []ast.Stmt {
			out := []ast.Stmt{}
			for k, st := range list {
				var call *ast.CallExpr
				kind, lhs := "", ""
				switch y := st.(type) {
				case *ast.ExprStmt:
					call, _ = y.X.(*ast.CallExpr)
					kind = "stmt"
				case *ast.AssignStmt:
					if y.Tok == token.DEFINE && len(y.Lhs) == 1 && len(y.Rhs) == 1 {
						if i, ok := y.Lhs[0].(*ast.Ident); ok {
							call, _ = y.Rhs[0].(*ast.CallExpr)
							kind, lhs = "define", i.Name
						}
					}
				case *ast.GoStmt:
					call = y.Call
					kind = "go"
				}
				var body []ast.Stmt
				if call != nil {
					body = inlineBody(path, fd, call, kind, lhs, lastOfFunc && k == len(list)-1, callerTP)
				}
				if body == nil {
					walk(st)
					out = append(out, st)
					continue
				}
				changed = true
				if kind == "go" {
					out = append(out, &ast.GoStmt{Call: &ast.CallExpr{Fun: &ast.FuncLit{Type: &ast.FuncType{Params: &ast.FieldList{}}, Body: &ast.BlockStmt{List: body}}}})
				} else {
					out = append(out, body...)
				}
			}
			return out
		}
		fd.Body.List = doList(fd.Body.List, true)
		// marks left behind by an inlining that gave up half-way
		ast.Inspect(fd, func(n ast.Node) bool {
			if i, ok := n.(*ast.Ident); ok && strings.HasPrefix(i.Name, "\x00") {
				i.Name = i.Name[1:]
			}
			return true
		})
		if !changed {
			return
		}
	}
}

func inlineBody(path string, caller *ast.FuncDecl, call *ast.CallExpr, kind, lhs string, isLast bool, callerTP map[string]bool) []ast.Stmt {
	h, ok := call.Fun.(*ast.Ident)
	if !ok || call.Ellipsis != token.NoPos {
		return nil
	}
	args := []string{}
	litArgs := map[int]*ast.FuncLit{}
	exprArgs := map[int]ast.Expr{}
	for k, a := range call.Args {
		if u, ok := a.(*ast.UnaryExpr); ok && u.Op == token.AND {
			a = u.X
		}
		if l, ok := a.(*ast.FuncLit); ok {
			// a function literal without results and without `return`: its calls inside the callee are spliced below
			if l.Type.Results != nil && len(l.Type.Results.List) != 0 {
				return nil
			}
			hasRet := false
			ast.Inspect(l.Body, func(n ast.Node) bool {
				switch n.(type) {
				case *ast.ReturnStmt:
					hasRet = true
				}
				return true
			})
			if hasRet {
				return nil
			}
			litArgs[k] = l
			args = append(args, "")
			continue
		}
		i, ok := a.(*ast.Ident)
		if !ok || i.Name == "nil" || i.Name == "true" || i.Name == "false" {
			// any other expression: substituted below when the parameter is used exactly once, in the callee's first statement
			exprArgs[k] = a
			args = append(args, "")
			continue
		}
		args = append(args, i.Name)
	}
	cands := []*ast.FuncDecl{}
	// a local closure `h := func(…) {…}` of the caller
	var localLit *ast.FuncLit
	ast.Inspect(caller.Body, func(n ast.Node) bool {
		if as, ok := n.(*ast.AssignStmt); ok && as.Tok == token.DEFINE && len(as.Lhs) == 1 && len(as.Rhs) == 1 {
			if i, ok := as.Lhs[0].(*ast.Ident); ok && i.Name == h.Name {
				if l, ok := as.Rhs[0].(*ast.FuncLit); ok {
					localLit = l
				}
			}
		}
		return true
	})
	isLocal := false
	if localLit != nil {
		e, err := parser.ParseExprFrom(fset, h.Name+" (closure)", printNode(localLit), 0)
		if err != nil {
			return nil
		}
		cp := e.(*ast.FuncLit)
		cands = append(cands, &ast.FuncDecl{Name: ast.NewIdent(h.Name), Type: cp.Type, Body: cp.Body})
		isLocal = true
	} else {
		f := parse(path)
		for _, d := range f.Decls {
			if hd, ok := d.(*ast.FuncDecl); ok {
				cands = append(cands, hd)
			}
		}
	}
	for _, hd := range cands {
		if hd.Recv != nil || hd.Name.Name != h.Name || (hd.Name.IsExported() && !isLocal) || hd.Body == nil || (hd.Name.Name == caller.Name.Name && !isLocal) {
			continue
		}
		for _, t := range typeParams(hd) {
			if !callerTP[t] {
				return nil
			}
		}
		nres := 0
		if hd.Type.Results != nil {
			for _, r := range hd.Type.Results.List {
				if len(r.Names) > 0 {
					return nil
				}
				nres++
			}
		}
		if (kind == "define") != (nres == 1) || nres > 1 {
			return nil
		}
		params := []string{}
		for _, p := range hd.Type.Params.List {
			if _, variadic := p.Type.(*ast.Ellipsis); variadic {
				return nil
			}
			for _, n := range p.Names {
				params = append(params, n.Name)
			}
		}
		if len(params) != len(args) {
			return nil
		}
		ren := map[string]string{}
		isParam := map[string]bool{}
		lits := map[string]*ast.FuncLit{}
		exprSub := map[string]ast.Expr{}
		for k, pn := range params {
			isParam[pn] = true
			if l := litArgs[k]; l != nil {
				lits[pn] = l
				continue
			}
			if e := exprArgs[k]; e != nil {
				cnt, first := 0, 0
				ast.Inspect(hd.Body, func(n ast.Node) bool {
					if i, ok := n.(*ast.Ident); ok && i.Name == pn {
						cnt++
					}
					return true
				})
				if len(hd.Body.List) > 0 {
					ast.Inspect(hd.Body.List[0], func(n ast.Node) bool {
						if i, ok := n.(*ast.Ident); ok && i.Name == pn {
							first++
						}
						return true
					})
				}
				if cnt != 1 || first != 1 {
					return nil
				}
				exprSub[pn] = e
				continue
			}
			ren[pn] = args[k]
		}
		if len(lits) > 0 {
			// every mention of a literal parameter is a statement `p(a1, …, ak)` with identifier arguments, exactly once
			for pn, l := range lits {
				mentions, calls := 0, 0
				ast.Inspect(hd.Body, func(n ast.Node) bool {
					if i, ok := n.(*ast.Ident); ok && i.Name == pn {
						mentions++
					}
					return true
				})
				lp := []string{}
				if l.Type.Params != nil {
					for _, f := range l.Type.Params.List {
						if len(f.Names) == 0 {
							lp = append(lp, "_")
						}
						for _, n := range f.Names {
							lp = append(lp, n.Name)
						}
					}
				}
				var spl func(list []ast.Stmt) []ast.Stmt
				spl = func(list []ast.Stmt) []ast.Stmt {
					out := []ast.Stmt{}
					for _, st := range list {
						if es, ok := st.(*ast.ExprStmt); ok {
							if c, ok := es.X.(*ast.CallExpr); ok {
								if i, ok := c.Fun.(*ast.Ident); ok && i.Name == pn && len(c.Args) == len(lp) {
									r2 := map[string]string{}
									good := true
									for q, a := range c.Args {
										ai, ok := a.(*ast.Ident)
										if !ok {
											good = false
											break
										}
										if lp[q] != "_" {
											to := ai.Name
											if t2, isP := ren[to]; isP {
												to = t2 // the callee hands one of its own parameters on
											}
											r2[lp[q]] = to
										}
									}
									if good && calls == 0 {
										calls++
										// every identifier of the literal belongs to the caller (or is one of the literal's own
										// parameters): marked, so that the renaming of the callee's parameters leaves it alone
										ast.Inspect(l.Body, func(n ast.Node) bool {
											if i, ok := n.(*ast.Ident); ok && !strings.HasPrefix(i.Name, "\x00") {
												if to, ok := r2[i.Name]; ok {
													i.Name = "\x00" + to
												} else {
													i.Name = "\x00" + i.Name
												}
											}
											return true
										})
										out = append(out, l.Body.List...)
										continue
									}
								}
							}
						}
						ast.Inspect(st, func(m ast.Node) bool {
							switch y := m.(type) {
							case *ast.BlockStmt:
								y.List = spl(y.List)
								return false
							case *ast.CaseClause:
								y.Body = spl(y.Body)
								return false
							case *ast.CommClause:
								y.Body = spl(y.Body)
								return false
							case *ast.FuncLit:
								return false
							}
							return true
						})
						out = append(out, st)
					}
					return out
				}
				hd.Body.List = spl(hd.Body.List)
				if calls != 1 || mentions != 1 {
					return nil
				}
			}
		}
		// returns
		list := hd.Body.List
		nret := 0
		ast.Inspect(hd.Body, func(n ast.Node) bool {
			switch n.(type) {
			case *ast.FuncLit:
				return false
			case *ast.ReturnStmt:
				nret++
			}
			return true
		})
		var resExpr ast.Expr
		if kind == "define" {
			r, ok := list[len(list)-1].(*ast.ReturnStmt)
			if !ok || nret != 1 || len(r.Results) != 1 {
				return nil
			}
			resExpr = r.Results[0]
			list = list[:len(list)-1]
		} else if nret > 0 && !(isLast || kind == "go") {
			// a trailing bare return is harmless anywhere
			if r, ok := list[len(list)-1].(*ast.ReturnStmt); ok && nret == 1 && len(r.Results) == 0 {
				list = list[:len(list)-1]
			} else {
				return nil
			}
		}
		// names
		callerNames := map[string]bool{}
		skipLit := map[*ast.FuncLit]bool{}
		for _, l := range litArgs {
			skipLit[l] = true
		}
		if localLit != nil {
			skipLit[localLit] = true
		}
		ast.Inspect(caller, func(n ast.Node) bool {
			if l, ok := n.(*ast.FuncLit); ok && skipLit[l] {
				return false
			}
			if i, ok := n.(*ast.Ident); ok {
				callerNames[i.Name] = true
			}
			return true
		})
		// names captured by a literal argument are the caller's too
		for _, l := range litArgs {
			own := map[string]bool{}
			if l.Type.Params != nil {
				for _, f := range l.Type.Params.List {
					for _, n := range f.Names {
						own[n.Name] = true
					}
				}
			}
			ast.Inspect(l.Body, func(n ast.Node) bool {
				if i, ok := n.(*ast.Ident); ok && !own[strings.TrimPrefix(i.Name, "\x00")] {
					callerNames[strings.TrimPrefix(i.Name, "\x00")] = true
				}
				return true
			})
		}
		resLocal := ""
		if i, ok := resExpr.(*ast.Ident); ok && !isParam[i.Name] {
			resLocal = i.Name
		}
		bad := false
		ast.Inspect(hd.Body, func(n ast.Node) bool {
			switch y := n.(type) {
			case *ast.AssignStmt:
				for _, l := range y.Lhs {
					if i, ok := l.(*ast.Ident); ok {
						if isParam[i.Name] {
							bad = true
						}
						if y.Tok == token.DEFINE && callerNames[i.Name] && i.Name != resLocal {
							bad = true
						}
					}
				}
			case *ast.ValueSpec:
				for _, i := range y.Names {
					if callerNames[i.Name] && i.Name != resLocal {
						bad = true
					}
				}
			case *ast.RangeStmt:
				for _, kv := range []ast.Expr{y.Key, y.Value} {
					if i, ok := kv.(*ast.Ident); ok && i.Name != "_" && (isParam[i.Name] || callerNames[i.Name]) && y.Tok == token.DEFINE {
						bad = true
					}
				}
			case *ast.IncDecStmt:
				if i, ok := y.X.(*ast.Ident); ok && isParam[i.Name] {
					bad = true
				}
			case *ast.UnaryExpr:
				if i, ok := y.X.(*ast.Ident); ok && y.Op == token.AND && isParam[i.Name] {
					bad = true
				}
			}
			return true
		})
		if bad {
			return nil
		}
		if resLocal != "" {
			if resLocal != lhs && callerNames[lhs] && lhs != "" {
				// the caller's name for the result is taken by the caller already only as this very definition: fine
			}
			ren[resLocal] = lhs
		}
		holder := &ast.BlockStmt{List: list}
		if len(exprSub) > 0 {
			mapExprs(holder, func(e ast.Expr) ast.Expr {
				if i, ok := e.(*ast.Ident); ok {
					if to, ok := exprSub[i.Name]; ok {
						// the caller's expression: its identifiers must not be taken for parameters of the callee
						ast.Inspect(to, func(n ast.Node) bool {
							if j, ok := n.(*ast.Ident); ok && !strings.HasPrefix(j.Name, "\x00") {
								j.Name = "\x00" + j.Name
							}
							return true
						})
						return to
					}
				}
				return e
			})
		}
		ast.Inspect(holder, func(n ast.Node) bool {
			if i, ok := n.(*ast.Ident); ok {
				if strings.HasPrefix(i.Name, "\x00") {
					i.Name = i.Name[1:]
				} else if to, ok := ren[i.Name]; ok {
					i.Name = to
				}
			}
			return true
		})
		out := append([]ast.Stmt{}, holder.List...)
		if kind == "define" && resLocal == "" {
			ast.Inspect(resExpr, func(n ast.Node) bool {
				if i, ok := n.(*ast.Ident); ok {
					if to, ok := ren[i.Name]; ok {
						i.Name = to
					}
				}
				return true
			})
			out = append(out, &ast.AssignStmt{Lhs: []ast.Expr{ast.NewIdent(lhs)}, Tok: token.DEFINE, Rhs: []ast.Expr{resExpr}})
		}
		if len(out) == 0 {
			out = append(out, &ast.EmptyStmt{})
		}
		return out
	}
	return nil
}

// Small normalisations inside every function body of fd (the function itself and its literals):
//   - `defer func() { close(a); close(b) }()` (only close calls / x.Done()) is `defer close(b); defer close(a)`;
//   - `x := struct{}{}` / `x := <basic literal>` never assigned again nor addressed: x is that literal;
//   - `for range n { B }` (n an identifier, Go 1.22 integer range) is `for i := 0; i < n; i++ { B }`.
func normaliseSmall(fd *ast.FuncDecl) {
	used := map[string]bool{}
	ast.Inspect(fd, func(n ast.Node) bool {
		if i, ok := n.(*ast.Ident); ok {
			used[i.Name] = true
		}
		return true
	})
	intParams := map[string]bool{}
	for _, p := range fd.Type.Params.List {
		if src(p.Type) == "int" {
			for _, n := range p.Names {
				intParams[n.Name] = true
			}
		}
	}
	var doBody func(b *ast.BlockStmt)
	doBody = func(b *ast.BlockStmt) {
		out := []ast.Stmt{}
		for _, st := range b.List {
			if d, ok := st.(*ast.DeferStmt); ok && len(d.Call.Args) == 0 {
				if lit, ok := d.Call.Fun.(*ast.FuncLit); ok && len(lit.Body.List) > 1 {
					simple := true
					for _, s := range lit.Body.List {
						es, ok := s.(*ast.ExprStmt)
						if !ok {
							simple = false
							break
						}
						c, ok := es.X.(*ast.CallExpr)
						if !ok || !(src(c.Fun) == "close" && len(c.Args) == 1) {
							simple = false
						}
					}
					if simple {
						for k := len(lit.Body.List) - 1; k >= 0; k-- {
							out = append(out, &ast.DeferStmt{Call: lit.Body.List[k].(*ast.ExprStmt).X.(*ast.CallExpr)})
						}
						continue
					}
				}
			}
			out = append(out, st)
		}
		b.List = out
		// literal locals
		for k := 0; k < len(b.List); k++ {
			as, ok := b.List[k].(*ast.AssignStmt)
			if !ok || as.Tok != token.DEFINE || len(as.Lhs) != 1 || len(as.Rhs) != 1 {
				continue
			}
			x, ok := as.Lhs[0].(*ast.Ident)
			if !ok {
				continue
			}
			isLit := false
			switch r := as.Rhs[0].(type) {
			case *ast.BasicLit:
				isLit = true
			case *ast.CompositeLit:
				isLit = src(r) == "struct{}{}"
			}
			if !isLit {
				continue
			}
			bad := false
			rest := &ast.BlockStmt{List: b.List[k+1:]}
			ast.Inspect(rest, func(n ast.Node) bool {
				switch y := n.(type) {
				case *ast.AssignStmt:
					for _, l := range y.Lhs {
						if i, ok := l.(*ast.Ident); ok && i.Name == x.Name {
							bad = true
						}
					}
				case *ast.IncDecStmt:
					if i, ok := y.X.(*ast.Ident); ok && i.Name == x.Name {
						bad = true
					}
				case *ast.UnaryExpr:
					if i, ok := y.X.(*ast.Ident); ok && y.Op == token.AND && i.Name == x.Name {
						bad = true
					}
				}
				return true
			})
			if bad {
				continue
			}
			lit := as.Rhs[0]
			mapExprs(rest, func(e ast.Expr) ast.Expr {
				if i, ok := e.(*ast.Ident); ok && i.Name == x.Name {
					return lit
				}
				return e
			})
			b.List = append(append([]ast.Stmt{}, b.List[:k]...), rest.List...)
			k--
		}
	}
	ast.Inspect(fd, func(n ast.Node) bool {
		switch y := n.(type) {
		case *ast.BlockStmt:
			doBody(y)
			for k, st := range y.List {
				if rs, ok := st.(*ast.RangeStmt); ok && rs.Key == nil && rs.Value == nil {
					if i, ok := rs.X.(*ast.Ident); ok && intParams[i.Name] {
						v := "i"
						for used[v] {
							v += "_"
						}
						used[v] = true
						y.List[k] = &ast.ForStmt{
							Init: &ast.AssignStmt{Lhs: []ast.Expr{ast.NewIdent(v)}, Tok: token.DEFINE, Rhs: []ast.Expr{&ast.BasicLit{Kind: token.INT, Value: "0"}}},
							Cond: &ast.BinaryExpr{X: ast.NewIdent(v), Op: token.LSS, Y: ast.NewIdent(i.Name)},
							Post: &ast.IncDecStmt{X: ast.NewIdent(v), Tok: token.INC},
							Body: rs.Body}
					}
				}
			}
		}
		return true
	})
}

// Guard calls. `if h(a…) { return }` / `if !h(a…) { return }` — h a bool-valued local closure or unexported function of
// the file — is replaced by h's body in which `return b` ends the goroutine when b makes the condition true and falls
// through to what follows the `if` otherwise (`return E` for a non-literal E becomes `if [!]E { return }`). To make the
// fall-through expressible without jumps, an `if` of h's body whose branch always ends in a return takes the rest of
// h's body as its `else`; a `select` with returning arms must be h's last statement. Parameters are renamed to
// identifier arguments; another argument expression is substituted when the parameter occurs exactly once (it is then
// evaluated once, at the same point). Locals of h must be new to the caller.
func inlineBoolGuards(path string, fd *ast.FuncDecl) {
	for round := 0; round < 4; round++ {
		changed := false
		closures := map[string]*ast.FuncLit{}
		ast.Inspect(fd.Body, func(n ast.Node) bool {
			if as, ok := n.(*ast.AssignStmt); ok && as.Tok == token.DEFINE && len(as.Lhs) == 1 && len(as.Rhs) == 1 {
				if i, ok := as.Lhs[0].(*ast.Ident); ok {
					if l, ok := as.Rhs[0].(*ast.FuncLit); ok && l.Type.Results != nil && len(l.Type.Results.List) == 1 && src(l.Type.Results.List[0].Type) == "bool" {
						closures[i.Name] = l
					}
				}
			}
			return true
		})
		// the caller's names: everything outside the bodies of the bool closures themselves
		names := map[string]bool{}
		isClosureLit := map[*ast.FuncLit]bool{}
		for _, l := range closures {
			isClosureLit[l] = true
		}
		ast.Inspect(fd, func(n ast.Node) bool {
			if l, ok := n.(*ast.FuncLit); ok && isClosureLit[l] {
				return false
			}
			if i, ok := n.(*ast.Ident); ok {
				names[i.Name] = true
			}
			return true
		})
		var doList func(list []ast.Stmt) []ast.Stmt
		doList = func(list []ast.Stmt) []ast.Stmt {
			out := []ast.Stmt{}
			for _, st := range list {
				is, ok := st.(*ast.IfStmt)
				if ok && is.Init == nil && is.Else == nil && len(is.Body.List) == 1 {
					if r, ok := is.Body.List[0].(*ast.ReturnStmt); ok && len(r.Results) == 0 {
						cond, exitOn := is.Cond, true
						if u, ok := cond.(*ast.UnaryExpr); ok && u.Op == token.NOT {
							cond, exitOn = u.X, false
						}
						if call, ok := cond.(*ast.CallExpr); ok {
							if body := guardBody(path, fd, call, exitOn, closures, names); body != nil {
								out = append(out, body...)
								changed = true
								continue
							}
						}
					}
				}
				ast.Inspect(st, func(m ast.Node) bool {
					switch y := m.(type) {
					case *ast.BlockStmt:
						y.List = doList(y.List)
						return false
					case *ast.CaseClause:
						y.Body = doList(y.Body)
						return false
					case *ast.CommClause:
						y.Body = doList(y.Body)
						return false
					}
					return true
				})
				out = append(out, st)
			}
			return out
		}
		fd.Body.List = doList(fd.Body.List)
		if !changed {
			break
		}
	}
	// closures that are no longer mentioned
	for {
		removed := false
		for k, st := range fd.Body.List {
			if as, ok := st.(*ast.AssignStmt); ok && as.Tok == token.DEFINE && len(as.Lhs) == 1 && len(as.Rhs) == 1 {
				if i, ok := as.Lhs[0].(*ast.Ident); ok {
					if _, isLit := as.Rhs[0].(*ast.FuncLit); isLit {
						cnt := 0
						ast.Inspect(fd.Body, func(n ast.Node) bool {
							if j, ok := n.(*ast.Ident); ok && j.Name == i.Name {
								cnt++
							}
							return true
						})
						if cnt == 1 {
							fd.Body.List = append(append([]ast.Stmt{}, fd.Body.List[:k]...), fd.Body.List[k+1:]...)
							removed = true
							break
						}
					}
				}
			}
		}
		if !removed {
			break
		}
	}
}

func guardBody(path string, fd *ast.FuncDecl, call *ast.CallExpr, exitOn bool, closures map[string]*ast.FuncLit, callerNames map[string]bool) []ast.Stmt {
	h, ok := call.Fun.(*ast.Ident)
	if !ok || call.Ellipsis != token.NoPos {
		return nil
	}
	var ftype *ast.FuncType
	var body *ast.BlockStmt
	if lit := closures[h.Name]; lit != nil {
		// a private copy of the literal
		e, err := parser.ParseExprFrom(fset, h.Name+" (closure)", printNode(lit), 0)
		if err != nil {
			return nil
		}
		cp := e.(*ast.FuncLit)
		ftype, body = cp.Type, cp.Body
	} else {
		f := parse(path)
		for _, d := range f.Decls {
			if hd, ok := d.(*ast.FuncDecl); ok && hd.Recv == nil && hd.Name.Name == h.Name && !hd.Name.IsExported() && hd.Body != nil {
				if hd.Type.Results != nil && len(hd.Type.Results.List) == 1 && len(hd.Type.Results.List[0].Names) == 0 && src(hd.Type.Results.List[0].Type) == "bool" {
					ftype, body = hd.Type, hd.Body
				}
			}
		}
	}
	if body == nil {
		return nil
	}
	params := []string{}
	for _, p := range ftype.Params.List {
		if len(p.Names) == 0 {
			return nil
		}
		for _, n := range p.Names {
			params = append(params, n.Name)
		}
	}
	if len(params) != len(call.Args) {
		return nil
	}
	// parameter uses and assignments
	occ := map[string]int{}
	assigned := map[string]bool{}
	ast.Inspect(body, func(n ast.Node) bool {
		switch y := n.(type) {
		case *ast.Ident:
			occ[y.Name]++
		case *ast.AssignStmt:
			for _, l := range y.Lhs {
				if i, ok := l.(*ast.Ident); ok {
					assigned[i.Name] = true
					if y.Tok == token.DEFINE && callerNames[i.Name] {
						assigned["!clash"] = true
					}
				}
			}
		case *ast.ValueSpec:
			for _, i := range y.Names {
				if callerNames[i.Name] {
					assigned["!clash"] = true
				}
			}
		}
		return true
	})
	if assigned["!clash"] {
		return nil
	}
	ren := map[string]string{}
	subst := map[string]ast.Expr{}
	for k, p := range params {
		if assigned[p] {
			return nil
		}
		if i, ok := call.Args[k].(*ast.Ident); ok {
			ren[p] = i.Name
		} else if occ[p] == 1 {
			subst[p] = call.Args[k]
		} else if occ[p] != 0 {
			return nil
		}
	}
	ast.Inspect(body, func(n ast.Node) bool {
		if i, ok := n.(*ast.Ident); ok {
			if to, ok := ren[i.Name]; ok {
				i.Name = to
			}
		}
		return true
	})
	if len(subst) > 0 {
		mapExprs(body, func(e ast.Expr) ast.Expr {
			if i, ok := e.(*ast.Ident); ok {
				if to, ok := subst[i.Name]; ok {
					return to
				}
			}
			return e
		})
	}
	// T: returns become exits or fall-throughs
	giveUp := false
	var terminates func(list []ast.Stmt) bool // every path through list ends in a (former) return
	terminates = func(list []ast.Stmt) bool {
		if len(list) == 0 {
			return false
		}
		switch y := list[len(list)-1].(type) {
		case *ast.ReturnStmt:
			return true
		case *ast.IfStmt:
			if y.Else == nil {
				return false
			}
			eb, ok := y.Else.(*ast.BlockStmt)
			return ok && terminates(y.Body.List) && terminates(eb.List)
		case *ast.SelectStmt:
			for _, cl := range y.Body.List {
				if !terminates(cl.(*ast.CommClause).Body) {
					return false
				}
			}
			return true
		}
		return false
	}
	var T func(list []ast.Stmt, tail bool) []ast.Stmt
	T = func(list []ast.Stmt, tail bool) []ast.Stmt {
		out := []ast.Stmt{}
		for k, st := range list {
			last := k == len(list)-1
			switch y := st.(type) {
			case *ast.ReturnStmt:
				if !last || !tail || len(y.Results) != 1 {
					giveUp = true
					return out
				}
				switch src(y.Results[0]) {
				case "true", "false":
					if (src(y.Results[0]) == "true") == exitOn {
						out = append(out, &ast.ReturnStmt{})
					}
				default:
					c := y.Results[0]
					if !exitOn {
						c = &ast.UnaryExpr{Op: token.NOT, X: c}
					}
					out = append(out, &ast.IfStmt{Cond: c, Body: &ast.BlockStmt{List: []ast.Stmt{&ast.ReturnStmt{}}}})
				}
				return out
			case *ast.IfStmt:
				hasRet := false
				ast.Inspect(y, func(n ast.Node) bool {
					switch n.(type) {
					case *ast.FuncLit:
						return false
					case *ast.ReturnStmt:
						hasRet = true
					}
					return true
				})
				if !hasRet {
					out = append(out, st)
					continue
				}
				if y.Init != nil && !last {
					// the init's variables are scoped to the if: keep the statement form, rest goes to else
				}
				if y.Else == nil && terminates(y.Body.List) {
					rest := T(list[k+1:], tail)
					y.Body.List = T(y.Body.List, tail)
					if len(rest) > 0 {
						y.Else = &ast.BlockStmt{List: rest}
					}
					out = append(out, y)
					return out
				}
				if last {
					y.Body.List = T(y.Body.List, tail)
					if eb, ok := y.Else.(*ast.BlockStmt); ok {
						eb.List = T(eb.List, tail)
					} else if y.Else != nil {
						giveUp = true
					}
					out = append(out, y)
					return out
				}
				giveUp = true
				return out
			case *ast.SelectStmt:
				hasRet := false
				ast.Inspect(y, func(n ast.Node) bool {
					if _, ok := n.(*ast.ReturnStmt); ok {
						hasRet = true
					}
					return true
				})
				if hasRet {
					if !last || !tail {
						giveUp = true
						return out
					}
					for _, cl := range y.Body.List {
						cc := cl.(*ast.CommClause)
						cc.Body = T(cc.Body, true)
					}
				}
				out = append(out, st)
			default:
				ast.Inspect(st, func(n ast.Node) bool {
					switch n.(type) {
					case *ast.FuncLit:
						return false
					case *ast.ReturnStmt:
						giveUp = true
					}
					return true
				})
				out = append(out, st)
			}
		}
		return out
	}
	res := T(body.List, true)
	if giveUp {
		return nil
	}
	if len(res) == 0 {
		res = []ast.Stmt{&ast.EmptyStmt{}}
	}
	return res
}

func printNode(n ast.Node) string {
	var sb strings.Builder
	format.Node(&sb, fset, n)
	return sb.String()
}

// `name := func(…) {…}` at the top level of the function that is never mentioned again
func dropUnusedClosures(fd *ast.FuncDecl) {
	blocks := []*ast.BlockStmt{fd.Body}
	ast.Inspect(fd.Body, func(n ast.Node) bool {
		if l, ok := n.(*ast.FuncLit); ok {
			blocks = append(blocks, l.Body)
		}
		return true
	})
	for _, blk := range blocks {
		for {
			removed := false
			for k, st := range blk.List {
				as, ok := st.(*ast.AssignStmt)
				if !ok || as.Tok != token.DEFINE || len(as.Lhs) != 1 || len(as.Rhs) != 1 {
					continue
				}
				i, ok := as.Lhs[0].(*ast.Ident)
				if _, isLit := as.Rhs[0].(*ast.FuncLit); !ok || !isLit {
					continue
				}
				cnt := 0
				ast.Inspect(blk, func(n ast.Node) bool {
					if j, ok := n.(*ast.Ident); ok && j.Name == i.Name {
						cnt++
					}
					return true
				})
				if cnt == 1 {
					blk.List = append(append([]ast.Stmt{}, blk.List[:k]...), blk.List[k+1:]...)
					removed = true
					break
				}
			}
			if !removed {
				break
			}
		}
	}
}

// `for h(a…) { B }` as the last statement of a function body is `for { if !h(a…) { return }; B }` (leaving the loop
// ends the function); `i := e; for { B; i++ }` directly before with B free of continue/break (outside nested loops and
// literals) is `for i := e; ; i++ { B }`.
func normaliseCondLoops(fd *ast.FuncDecl) {
	var doBody func(b *ast.BlockStmt)
	doBody = func(b *ast.BlockStmt) {
		n := len(b.List)
		if n == 0 {
			return
		}
		fs, ok := b.List[n-1].(*ast.ForStmt)
		if !ok {
			return
		}
		if fs.Init == nil && fs.Post == nil && fs.Cond != nil {
			if c, ok := fs.Cond.(*ast.CallExpr); ok {
				if _, isId := c.Fun.(*ast.Ident); isId {
					guard := &ast.IfStmt{Cond: &ast.UnaryExpr{Op: token.NOT, X: c}, Body: &ast.BlockStmt{List: []ast.Stmt{&ast.ReturnStmt{}}}}
					fs.Body.List = append([]ast.Stmt{guard}, fs.Body.List...)
					fs.Cond = nil
				}
			}
		}
		if fs.Init == nil && fs.Post == nil && fs.Cond == nil && n >= 2 && len(fs.Body.List) >= 1 {
			as, ok := b.List[n-2].(*ast.AssignStmt)
			inc, ok2 := fs.Body.List[len(fs.Body.List)-1].(*ast.IncDecStmt)
			if ok && ok2 && as.Tok == token.DEFINE && len(as.Lhs) == 1 && len(as.Rhs) == 1 && inc.Tok == token.INC && src(inc.X) == src(as.Lhs[0]) {
				jumps := false
				for _, s := range fs.Body.List {
					ast.Inspect(s, func(m ast.Node) bool {
						switch m.(type) {
						case *ast.FuncLit, *ast.ForStmt, *ast.RangeStmt:
							return false
						case *ast.BranchStmt:
							jumps = true
						}
						return true
					})
				}
				if !jumps {
					fs.Init, fs.Post = as, inc
					fs.Body.List = fs.Body.List[:len(fs.Body.List)-1]
					b.List = append(append([]ast.Stmt{}, b.List[:n-2]...), fs)
				}
			}
		}
	}
	ast.Inspect(fd, func(n ast.Node) bool {
		switch y := n.(type) {
		case *ast.FuncLit:
			doBody(y.Body)
		case *ast.FuncDecl:
			doBody(y.Body)
		}
		return true
	})
}
