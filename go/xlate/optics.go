package main

import (
	"fmt"
	"go/ast"
	"go/token"
	"regexp"
	"sort"
	"strings"
)

// family optics: optics/iso.go optics/shape.go optics/lens.go
//
// Pure (state-passing) reading of the expression-bodied optics wrappers over the
// abstract `Lens S A := {get : S → A, put : S → A → S}` of Golem.Model.Optics:
//
//   - `Put(*S, A) *S` mutates through its pointer and returns it, so `x.Put(p, v)` is the new
//     state `x.put p v`; in statement position it rebinds the variable behind `p` / `&va`.
//   - struct types whose fields are lenses / functions become Lean structures,
//     their methods become definitions `T.Put`, `T.Get`, `T.Forward`, `T.Inverse`;
//   - a void method returns the final state of the pointer parameters it wrote through;
//   - `*new(B)` is `default` under `[Inhabited B]`; a conversion `B(a)` between type parameters is
//     `GoConv.conv` under `[GoConv A B]`; `ForProduct1[S, A](attr...)` (reflective, C01-C03) is an
//     explicit lens parameter.
//
// Nested calls stay nested, so Go's evaluation order (innermost first) is the term structure.
func init() { families["optics"] = optics }

var (
	opStructs = regexp.MustCompile(`^(fmap|cmap|codec|iso|join|shape[2-9])$`)
	opFuncs   = regexp.MustCompile(`^(Getter|Setter|BiMap|BiMapS|BiMapB|BiMapI|BiMapF|Iso|Join)$`)
)

type opField struct {
	name string
	typ  ast.Expr
}

type opStruct struct {
	name   string
	tps    []string
	fields []opField
}

type opCtx struct {
	what     string
	structs  map[string]*opStruct
	funcs    map[string]*ast.FuncDecl // package-level functions by name (all files)
	tp       map[string]bool          // type parameters in scope
	env      map[string]ast.Expr      // value identifiers in scope -> Go type
	ptr      map[string]bool          // pointer parameters
	mutated  map[string]bool
	inhabit  map[string]bool
	convs    map[string]bool // "A B"
	extern   []string        // extra explicit parameters (reflective constructors)
	externOK map[string]bool
}

func (c *opCtx) fail(n ast.Node, format string, args ...any) {
	fail(fset.Position(n.Pos()), "%s: %s", c.what, fmt.Sprintf(format, args...))
}

// typ translates a Go type expression.
func (c *opCtx) typ(e ast.Expr) string {
	switch x := e.(type) {
	case *ast.Ident:
		if c.tp[x.Name] {
			return x.Name
		}
	case *ast.StarExpr:
		return c.typ(x.X)
	case *ast.ParenExpr:
		return c.typ(x.X)
	case *ast.FuncType:
		if x.Params != nil && x.Results != nil && len(x.Results.List) == 1 && len(x.Results.List[0].Names) == 0 && x.TypeParams == nil {
			parts := []string{}
			for _, p := range x.Params.List {
				n := len(p.Names)
				if n == 0 {
					n = 1
				}
				for i := 0; i < n; i++ {
					parts = append(parts, c.typ(p.Type))
				}
			}
			if len(parts) > 0 {
				return "(" + strings.Join(append(parts, c.typ(x.Results.List[0].Type)), " → ") + ")"
			}
		}
	case *ast.IndexListExpr:
		if h, ok := x.X.(*ast.Ident); ok {
			args := []string{}
			for _, a := range x.Indices {
				args = append(args, c.typ(a))
			}
			switch {
			case h.Name == "Lens" && len(args) == 2, h.Name == "Isomorphism" && len(args) == 2:
				return "(" + h.Name + " " + strings.Join(args, " ") + ")"
			case c.structs[h.Name] != nil && len(args) == len(c.structs[h.Name].tps):
				return "(" + id(h.Name) + " " + strings.Join(args, " ") + ")"
			}
		}
	}
	c.fail(e, "unsupported type %s", src(e))
	return ""
}

// typeOf gives the Go type of an identifier or of a field selector on an identifier of one of
// the package's own struct types (with the struct's type parameters as declared).
func (c *opCtx) typeOf(e ast.Expr) ast.Expr {
	switch x := e.(type) {
	case *ast.Ident:
		return c.env[x.Name]
	case *ast.SelectorExpr:
		base := c.typeOf(x.X)
		if base == nil {
			return nil
		}
		if il, ok := base.(*ast.IndexListExpr); ok {
			if h, ok := il.X.(*ast.Ident); ok {
				if st := c.structs[h.Name]; st != nil {
					// only when instantiated at the declared parameters in declared order
					for i, a := range il.Indices {
						ai, ok := a.(*ast.Ident)
						if !ok || i >= len(st.tps) || ai.Name != st.tps[i] {
							return nil
						}
					}
					for _, f := range st.fields {
						if f.name == x.Sel.Name {
							return f.typ
						}
					}
				}
			}
		}
	}
	return nil
}

func isNamed(t ast.Expr, name string) bool {
	if il, ok := t.(*ast.IndexListExpr); ok {
		if h, ok := il.X.(*ast.Ident); ok {
			return h.Name == name
		}
	}
	return false
}

// place translates the pointer argument of Put/Get: a pointer parameter `s`, or `&local`, or a
// nested Put call (which returns the pointer it was given).
func (c *opCtx) place(e ast.Expr) string {
	switch x := e.(type) {
	case *ast.Ident:
		if c.ptr[x.Name] {
			return id(x.Name)
		}
	case *ast.UnaryExpr:
		if i, ok := x.X.(*ast.Ident); ok && x.Op == token.AND && c.env[i.Name] != nil && !c.ptr[i.Name] {
			return id(i.Name)
		}
	case *ast.CallExpr:
		if sel, ok := x.Fun.(*ast.SelectorExpr); ok && sel.Sel.Name == "Put" {
			return c.expr(e)
		}
	}
	c.fail(e, "unsupported pointer argument %s", src(e))
	return ""
}

// placeVar names the variable a statement-level Put writes through.
func (c *opCtx) placeVar(e ast.Expr) string {
	switch x := e.(type) {
	case *ast.Ident:
		if c.ptr[x.Name] {
			return x.Name
		}
	case *ast.UnaryExpr:
		if i, ok := x.X.(*ast.Ident); ok && x.Op == token.AND && c.env[i.Name] != nil && !c.ptr[i.Name] {
			return i.Name
		}
	}
	c.fail(e, "statement-level Put through %s", src(e))
	return ""
}

func (c *opCtx) expr(e ast.Expr) string {
	switch x := e.(type) {
	case *ast.ParenExpr:
		return c.expr(x.X)
	case *ast.Ident:
		if c.env[x.Name] != nil {
			return id(x.Name)
		}
	case *ast.SelectorExpr:
		if c.typeOf(x) != nil {
			return c.expr(x.X) + "." + id(x.Sel.Name)
		}
	case *ast.StarExpr: // *new(B)
		if call, ok := x.X.(*ast.CallExpr); ok && len(call.Args) == 1 {
			if f, ok := call.Fun.(*ast.Ident); ok && f.Name == "new" {
				if t, ok := call.Args[0].(*ast.Ident); ok && c.tp[t.Name] {
					c.inhabit[t.Name] = true
					return "(default : " + t.Name + ")"
				}
			}
		}
	case *ast.FuncLit:
		return c.funcLit(x)
	case *ast.CompositeLit:
		return c.composite(x)
	case *ast.CallExpr:
		return c.call(x)
	}
	c.fail(e, "unsupported expression %s", src(e))
	return ""
}

func (c *opCtx) funcLit(x *ast.FuncLit) string {
	if x.Type.Params == nil || len(x.Type.Params.List) != 1 || len(x.Type.Params.List[0].Names) != 1 ||
		x.Type.Results == nil || len(x.Type.Results.List) != 1 {
		c.fail(x, "unsupported closure %s", src(x))
	}
	p := x.Type.Params.List[0]
	name := p.Names[0].Name
	if c.env[name] != nil {
		c.fail(x, "closure parameter %s shadows an outer name", name)
	}
	c.env[name] = p.Type
	body := c.expr(singleReturn(x.Body, c.what+" closure"))
	delete(c.env, name)
	return fmt.Sprintf("(fun (%s : %s) => (%s : %s))", id(name), c.typ(p.Type), body, c.typ(x.Type.Results.List[0].Type))
}

func (c *opCtx) composite(x *ast.CompositeLit) string {
	il, ok := x.Type.(*ast.IndexListExpr)
	if !ok {
		c.fail(x, "unsupported literal %s", src(x))
	}
	h, ok := il.X.(*ast.Ident)
	st := c.structs[h.Name]
	if !ok || st == nil || len(x.Elts) != len(st.fields) {
		c.fail(x, "literal %s is not a complete literal of a translated struct", src(x))
	}
	parts := make([]string, len(st.fields))
	seen := map[string]bool{}
	for i, el := range x.Elts {
		fname, val := st.fields[i].name, el
		if kv, ok := el.(*ast.KeyValueExpr); ok {
			k, ok := kv.Key.(*ast.Ident)
			if !ok {
				c.fail(el, "unsupported literal key")
			}
			fname, val = k.Name, kv.Value
		}
		idx := -1
		for j, f := range st.fields {
			if f.name == fname {
				idx = j
			}
		}
		if idx < 0 || seen[fname] {
			c.fail(el, "bad field %s in literal", fname)
		}
		seen[fname] = true
		parts[idx] = id(fname) + " := " + c.expr(val)
	}
	return "({ " + strings.Join(parts, ", ") + " } : " + c.typ(x.Type) + ")"
}

func (c *opCtx) call(x *ast.CallExpr) string {
	switch f := x.Fun.(type) {
	case *ast.SelectorExpr:
		if x.Ellipsis != token.NoPos {
			c.fail(x, "variadic spread in %s", src(x))
		}
		if t := c.typeOf(f.X); t != nil && isNamed(t, "Lens") {
			recv := c.expr(f.X)
			switch {
			case f.Sel.Name == "Get" && len(x.Args) == 1:
				return "(" + recv + ".get " + c.place(x.Args[0]) + ")"
			case f.Sel.Name == "Put" && len(x.Args) == 2:
				p := c.place(x.Args[0])
				return "(" + recv + ".put " + p + " " + c.expr(x.Args[1]) + ")"
			}
		}
		if t := c.typeOf(f); t != nil {
			if _, ok := t.(*ast.FuncType); ok && len(x.Args) >= 1 {
				return c.apply(c.expr(f), x.Args)
			}
		}
	case *ast.Ident:
		if x.Ellipsis != token.NoPos {
			c.fail(x, "variadic spread in %s", src(x))
		}
		if t := c.env[f.Name]; t != nil {
			if _, ok := t.(*ast.FuncType); ok && len(x.Args) >= 1 {
				return c.apply(id(f.Name), x.Args)
			}
		}
		if c.tp[f.Name] && len(x.Args) == 1 { // conversion B(a) between type parameters
			if a, ok := x.Args[0].(*ast.Ident); ok {
				if at, ok := c.env[a.Name].(*ast.Ident); ok && c.tp[at.Name] {
					c.convs[at.Name+" "+f.Name] = true
					return "(GoConv.conv " + id(a.Name) + " : " + f.Name + ")"
				}
			}
		}
		if fd := c.funcs[f.Name]; fd != nil && opFuncs.MatchString(f.Name) && len(typeParams(fd)) > 0 {
			// call of a translated package function, type arguments inferred
			n := 0
			for _, p := range fd.Type.Params.List {
				n += len(p.Names)
			}
			if n == len(x.Args) {
				return c.apply(id(f.Name), x.Args)
			}
		}
	case *ast.IndexListExpr: // ForProduct1[S, A](attr...)
		if h, ok := f.X.(*ast.Ident); ok && h.Name == "ForProduct1" && len(f.Indices) == 2 && len(x.Args) == 1 && x.Ellipsis != token.NoPos {
			fd := c.funcs["ForProduct1"]
			if fd == nil || fd.Type.Results == nil || len(fd.Type.Results.List) != 1 {
				c.fail(x, "ForProduct1 is not declared as expected")
			}
			tps := typeParams(fd)
			res, ok := fd.Type.Results.List[0].Type.(*ast.IndexListExpr)
			if !ok || len(tps) != 2 || !isNamed(res, "Lens") || len(res.Indices) != 2 || src(res.Indices[0]) != tps[0] || src(res.Indices[1]) != tps[1] {
				c.fail(x, "ForProduct1 does not return Lens over its two type parameters")
			}
			if a, ok := x.Args[0].(*ast.Ident); !ok || c.env[a.Name] == nil {
				c.fail(x, "unsupported argument of ForProduct1")
			}
			name := "forProduct1"
			if !c.externOK[name] {
				c.externOK[name] = true
				c.extern = append(c.extern, fmt.Sprintf("(%s : Lens %s %s)", name, c.typ(f.Indices[0]), c.typ(f.Indices[1])))
			}
			return name
		}
	}
	c.fail(x, "unsupported call %s", src(x))
	return ""
}

func (c *opCtx) apply(head string, args []ast.Expr) string {
	parts := []string{head}
	for _, a := range args {
		parts = append(parts, c.expr(a))
	}
	return "(" + strings.Join(parts, " ") + ")"
}

// body translates a statement list to `let` lines and a final expression.
func (c *opCtx) body(b *ast.BlockStmt, results int) []string {
	lines := []string{}
	for i, st := range b.List {
		switch s := st.(type) {
		case *ast.AssignStmt:
			// p = X.Put(p, v): Put returns the pointer it was given, so this is the statement `X.Put(p, v)`
			if s.Tok == token.ASSIGN && len(s.Lhs) == 1 && len(s.Rhs) == 1 {
				if call, ok := s.Rhs[0].(*ast.CallExpr); ok {
					if sel, ok := call.Fun.(*ast.SelectorExpr); ok && sel.Sel.Name == "Put" && len(call.Args) == 2 {
						if l, ok := s.Lhs[0].(*ast.Ident); ok {
							if a0, ok := call.Args[0].(*ast.Ident); ok && a0.Name == l.Name && c.ptr[l.Name] {
								c.mutated[l.Name] = true
								lines = append(lines, fmt.Sprintf("let %s := %s", id(l.Name), c.expr(call)))
								continue
							}
						}
					}
				}
			}
			if s.Tok != token.DEFINE || len(s.Lhs) != 1 || len(s.Rhs) != 1 {
				c.fail(st, "unsupported assignment %s", src(st))
			}
			l, ok := s.Lhs[0].(*ast.Ident)
			if !ok || c.env[l.Name] != nil || l.Name == "_" {
				c.fail(st, "unsupported assignment target in %s", src(st))
			}
			rhs := c.expr(s.Rhs[0])
			// type of the new local: only `X.Get(p)` on a lens is needed
			var lt ast.Expr
			if call, ok := s.Rhs[0].(*ast.CallExpr); ok {
				if sel, ok := call.Fun.(*ast.SelectorExpr); ok && sel.Sel.Name == "Get" {
					if t, ok := c.typeOf(sel.X).(*ast.IndexListExpr); ok && len(t.Indices) == 2 {
						lt = t.Indices[1]
					}
				}
			}
			// … or `X.f(v)` where f is a function-typed field
			if lt == nil {
				if call, ok := s.Rhs[0].(*ast.CallExpr); ok {
					if ft, ok := c.typeOf(call.Fun).(*ast.FuncType); ok && ft.Results != nil && len(ft.Results.List) == 1 && len(ft.Results.List[0].Names) <= 1 {
						lt = ft.Results.List[0].Type
					}
				}
			}
			if lt == nil {
				c.fail(st, "cannot type local %s", l.Name)
			}
			c.env[l.Name] = lt
			lines = append(lines, fmt.Sprintf("let %s := %s", id(l.Name), rhs))
		case *ast.DeclStmt:
			// var zero B   (the zero value: `default`, as for *new(B))
			if gd, ok := s.Decl.(*ast.GenDecl); ok && gd.Tok == token.VAR && len(gd.Specs) == 1 {
				if vs, ok := gd.Specs[0].(*ast.ValueSpec); ok && len(vs.Names) == 1 && len(vs.Values) == 0 && vs.Type != nil {
					if ti, ok := vs.Type.(*ast.Ident); ok && c.tp[ti.Name] && c.env[vs.Names[0].Name] == nil {
						c.inhabit[ti.Name] = true
						c.env[vs.Names[0].Name] = vs.Type
						lines = append(lines, fmt.Sprintf("let %s : %s := default", id(vs.Names[0].Name), ti.Name))
						continue
					}
				}
			}
			c.fail(st, "unsupported statement %s", src(st))
		case *ast.ExprStmt:
			call, ok := s.X.(*ast.CallExpr)
			if !ok {
				c.fail(st, "unsupported statement %s", src(st))
			}
			sel, ok := call.Fun.(*ast.SelectorExpr)
			if !ok || sel.Sel.Name != "Put" || len(call.Args) != 2 {
				c.fail(st, "unsupported statement %s", src(st))
			}
			v := c.placeVar(call.Args[0])
			if c.ptr[v] {
				c.mutated[v] = true
			}
			lines = append(lines, fmt.Sprintf("let %s := %s", id(v), c.expr(call)))
		case *ast.ReturnStmt:
			if i != len(b.List)-1 || len(s.Results) != results || results == 0 {
				c.fail(st, "unsupported return %s", src(st))
			}
			parts := []string{}
			for _, r := range s.Results {
				if ri, ok := r.(*ast.Ident); ok && c.ptr[ri.Name] {
					parts = append(parts, id(ri.Name))
					continue
				}
				parts = append(parts, c.expr(r))
			}
			if len(parts) == 1 {
				return append(lines, parts[0])
			}
			return append(lines, "("+strings.Join(parts, ", ")+")")
		default:
			c.fail(st, "unsupported statement %s", src(st))
		}
	}
	if results != 0 {
		c.fail(b, "missing return")
	}
	return lines
}

func optics(files []string) string {
	structs := map[string]*opStruct{}
	funcs := map[string]*ast.FuncDecl{}
	methods := map[string][]*ast.FuncDecl{}
	order := []string{}
	for _, path := range files {
		f := parse(path)
		expandExprMacros(f, nil)
		for _, d := range f.Decls {
			switch x := d.(type) {
			case *ast.GenDecl:
				for _, sp := range x.Specs {
					ts, ok := sp.(*ast.TypeSpec)
					if !ok || !opStructs.MatchString(ts.Name.Name) {
						continue
					}
					stt, ok := ts.Type.(*ast.StructType)
					if !ok || ts.TypeParams == nil {
						fail(fset.Position(ts.Pos()), "%s is not a generic struct", ts.Name.Name)
					}
					st := &opStruct{name: ts.Name.Name}
					for _, f := range ts.TypeParams.List {
						for _, n := range f.Names {
							st.tps = append(st.tps, n.Name)
						}
					}
					for _, f := range stt.Fields.List {
						if len(f.Names) == 0 {
							fail(fset.Position(f.Pos()), "%s: embedded field", st.name)
						}
						for _, n := range f.Names {
							st.fields = append(st.fields, opField{n.Name, f.Type})
						}
					}
					if structs[st.name] != nil {
						fail(fset.Position(ts.Pos()), "%s declared twice", st.name)
					}
					structs[st.name] = st
					order = append(order, st.name)
				}
			case *ast.FuncDecl:
				if x.Recv == nil {
					funcs[x.Name.Name] = x
					continue
				}
				if len(x.Recv.List) != 1 {
					continue
				}
				rt := x.Recv.List[0].Type
				if il, ok := rt.(*ast.IndexListExpr); ok {
					if h, ok := il.X.(*ast.Ident); ok && opStructs.MatchString(h.Name) {
						methods[h.Name] = append(methods[h.Name], x)
					}
				} else if _, ok := rt.(*ast.StarExpr); ok {
					if il, ok := rt.(*ast.StarExpr).X.(*ast.IndexListExpr); ok {
						if h, ok := il.X.(*ast.Ident); ok && opStructs.MatchString(h.Name) {
							fail(fset.Position(x.Pos()), "%s.%s has a pointer receiver", h.Name, x.Name.Name)
						}
					}
				}
			}
		}
	}
	need := []string{"fmap", "cmap", "codec", "iso", "join"}
	for n := 2; n <= 9; n++ {
		need = append(need, fmt.Sprintf("shape%d", n))
	}
	for _, n := range need {
		if structs[n] == nil {
			panic(untranslatable{"struct " + n + " not found"})
		}
	}
	var sb strings.Builder
	sb.WriteString(header(strings.Join(files, " ")))
	sb.WriteString("import Golem.Model.Optics\nset_option linter.unusedVariables false\nnamespace Golem.Gen.Optics\nopen Golem.Model.Optics (Lens Isomorphism GoConv)\n\n")
	digest := []string{}

	newCtx := func(what string, tps []string) *opCtx {
		c := &opCtx{what: what, structs: structs, funcs: funcs, tp: map[string]bool{}, env: map[string]ast.Expr{}, ptr: map[string]bool{},
			mutated: map[string]bool{}, inhabit: map[string]bool{}, convs: map[string]bool{}, externOK: map[string]bool{}}
		for _, t := range tps {
			c.tp[t] = true
		}
		return c
	}
	classes := func(c *opCtx) string {
		out := []string{}
		ks := []string{}
		for k := range c.inhabit {
			ks = append(ks, k)
		}
		sort.Strings(ks)
		for _, k := range ks {
			out = append(out, "[Inhabited "+k+"]")
		}
		ks = ks[:0]
		for k := range c.convs {
			ks = append(ks, k)
		}
		sort.Strings(ks)
		for _, k := range ks {
			out = append(out, "[GoConv "+k+"]")
		}
		if len(out) == 0 {
			return ""
		}
		return " " + strings.Join(out, " ")
	}

	// structures
	for _, name := range order {
		st := structs[name]
		c := newCtx("type "+name, st.tps)
		fmt.Fprintf(&sb, "structure %s (%s : Type) where\n", id(name), strings.Join(st.tps, " "))
		for _, f := range st.fields {
			fmt.Fprintf(&sb, "  %s : %s\n", id(f.name), c.typ(f.typ))
		}
		sb.WriteString("\n")
	}

	// methods
	type sig struct{ classes, params, ret string }
	for _, name := range order {
		st := structs[name]
		ms := inlineMethodHelpers(methods[name], map[string]bool{"Put": true, "Get": true, "Forward": true, "Inverse": true})
		sort.SliceStable(ms, func(i, j int) bool { return ms[i].Pos() < ms[j].Pos() })
		sigs := map[string]sig{}
		rawSig := map[string][]string{}
		for _, fd := range ms {
			what := name + "." + fd.Name.Name
			il := fd.Recv.List[0].Type.(*ast.IndexListExpr)
			tps := []string{}
			for i, a := range il.Indices {
				ai, ok := a.(*ast.Ident)
				if !ok || i >= len(st.tps) || ai.Name != st.tps[i] {
					fail(fset.Position(fd.Pos()), "%s: receiver type parameters differ from the declaration", what)
				}
				tps = append(tps, ai.Name)
			}
			if len(tps) != len(st.tps) || len(fd.Recv.List[0].Names) != 1 || fd.Body == nil {
				fail(fset.Position(fd.Pos()), "%s: unsupported receiver", what)
			}
			c := newCtx(what, tps)
			recv := fd.Recv.List[0].Names[0].Name
			c.env[recv] = il
			params := []string{fmt.Sprintf("(%s : %s %s)", id(recv), id(name), strings.Join(tps, " "))}
			ptypes := []string{}
			ptrOrder := []string{}
			for _, p := range fd.Type.Params.List {
				if len(p.Names) == 0 {
					fail(fset.Position(p.Pos()), "%s: unnamed parameter", what)
				}
				for _, n := range p.Names {
					if c.env[n.Name] != nil {
						fail(fset.Position(p.Pos()), "%s: duplicate name %s", what, n.Name)
					}
					c.env[n.Name] = p.Type
					if _, ok := p.Type.(*ast.StarExpr); ok {
						c.ptr[n.Name] = true
						ptrOrder = append(ptrOrder, n.Name)
					}
					params = append(params, fmt.Sprintf("(%s : %s)", id(n.Name), c.typ(p.Type)))
					ptypes = append(ptypes, c.typ(p.Type))
				}
			}
			results := []string{}
			if fd.Type.Results != nil {
				for _, r := range fd.Type.Results.List {
					if len(r.Names) > 0 {
						fail(fset.Position(r.Pos()), "%s: named results", what)
					}
					results = append(results, c.typ(r.Type))
				}
			}
			lines := c.body(fd.Body, len(results))
			ret := strings.Join(results, " × ")
			if len(results) == 0 {
				outs, outT := []string{}, []string{}
				for _, p := range ptrOrder {
					if c.mutated[p] {
						outs = append(outs, id(p))
						outT = append(outT, c.typ(c.env[p]))
					}
				}
				if len(outs) == 0 {
					fail(fset.Position(fd.Pos()), "%s: void method writes through no pointer parameter", what)
				}
				ret = strings.Join(outT, " × ")
				if len(outs) == 1 {
					lines = append(lines, outs[0])
				} else {
					lines = append(lines, "("+strings.Join(outs, ", ")+")")
				}
			}
			cl := classes(c)
			fmt.Fprintf(&sb, "def %s.%s {%s : Type}%s %s : %s :=\n", id(name), fd.Name.Name, strings.Join(tps, " "), cl, strings.Join(params, " "), ret)
			for _, l := range lines {
				sb.WriteString("  " + l + "\n")
			}
			sb.WriteString("\n")
			sigs[fd.Name.Name] = sig{cl, strings.Join(ptypes, ","), ret}
			rawSig[fd.Name.Name] = ptypes
			digest = append(digest, fmt.Sprintf("-- %s := %s", what, src(fd.Body)))
		}
		tpl := strings.Join(st.tps, " ")
		g, p := sigs["Get"], sigs["Put"]
		if name[0] != 's' { // wrappers: interface adaptors
			if gp, pp := rawSig["Get"], rawSig["Put"]; len(gp) == 1 && len(pp) == 2 && pp[0] == gp[0] && p.ret == gp[0] && g.ret == pp[1] {
				cl := g.classes
				if p.classes != "" && p.classes != g.classes {
					cl += p.classes
				}
				fmt.Fprintf(&sb, "def %s.toLens {%s : Type}%s (x : %s %s) : Lens %s %s :=\n  { get := fun s => x.Get s, put := fun s v => x.Put s v }\n\n",
					id(name), tpl, cl, id(name), tpl, gp[0], g.ret)
			} else if name != "iso" {
				panic(untranslatable{name + ": Get/Put do not have the Lens signature"})
			}
			if fw, iv := rawSig["Forward"], rawSig["Inverse"]; name == "iso" {
				f, i := sigs["Forward"], sigs["Inverse"]
				if len(fw) != 2 || len(iv) != 2 || fw[0] != iv[1] || fw[1] != iv[0] || f.ret != fw[1] || i.ret != iv[1] {
					panic(untranslatable{"iso: Forward/Inverse do not write exactly through their second parameter"})
				}
				fmt.Fprintf(&sb, "def iso.toIsomorphism {%s : Type} (x : iso %s) : Isomorphism %s %s :=\n  { forward := fun s t => x.Forward s t, inverse := fun t s => x.Inverse t s }\n\n",
					tpl, tpl, fw[0], fw[1])
			}
		} else if _, ok := sigs["Get"]; !ok || sigs["Put"].ret == "" {
			panic(untranslatable{name + ": Get/Put missing"})
		}
	}

	// constructors
	fnames := []string{"Getter", "Setter", "BiMap", "BiMapS", "BiMapB", "BiMapI", "BiMapF", "Iso", "Join"}
	for _, n := range fnames {
		if funcs[n] == nil {
			panic(untranslatable{"function " + n + " not found"})
		}
	}
	emitted := map[string]bool{}
	var emit func(n string)
	emit = func(n string) {
		if emitted[n] {
			return
		}
		emitted[n] = true
		fd := funcs[n]
		if strings.HasPrefix(n, "BiMap") && n != "BiMap" {
			emit("BiMap")
		}
		tps := typeParams(fd)
		c := newCtx(n, tps)
		params := []string{}
		variadic := false
		for _, p := range fd.Type.Params.List {
			for _, pn := range p.Names {
				if _, ok := p.Type.(*ast.Ellipsis); ok {
					// `attr ...string`: only ever forwarded to the reflective ForProduct1
					c.env[pn.Name] = p.Type
					variadic = true
					continue
				}
				c.env[pn.Name] = p.Type
				params = append(params, fmt.Sprintf("(%s : %s)", id(pn.Name), c.typ(p.Type)))
			}
		}
		_ = variadic
		if fd.Type.Results == nil || len(fd.Type.Results.List) != 1 {
			fail(fset.Position(fd.Pos()), "%s: expected one result", n)
		}
		e := singleReturn(fd.Body, n)
		// result type: the struct actually built (the Go result is the interface it implements)
		var rt string
		switch x := e.(type) {
		case *ast.CompositeLit:
			rt = c.typ(x.Type)
		case *ast.CallExpr:
			if h, ok := x.Fun.(*ast.Ident); ok && h.Name == "BiMap" && n != "BiMap" {
				rs := fd.Type.Results.List[0].Type.(*ast.IndexListExpr)
				if !isNamed(rs, "Lens") || len(rs.Indices) != 2 || len(tps) != 3 {
					fail(fset.Position(fd.Pos()), "%s: unexpected result type", n)
				}
				rt = fmt.Sprintf("(codec %s %s %s)", tps[0], tps[1], tps[2])
			}
		}
		if rt == "" {
			fail(fset.Position(fd.Pos()), "%s: body is neither a struct literal nor a BiMap call", n)
		}
		body := c.expr(e)
		all := append(append([]string{}, c.extern...), params...)
		fmt.Fprintf(&sb, "def %s {%s : Type}%s %s : %s :=\n  %s\n\n", id(n), strings.Join(tps, " "), classes(c), strings.Join(all, " "), rt, body)
		digest = append(digest, fmt.Sprintf("-- %s := %s", n, src(e)))
	}
	for _, n := range fnames {
		emit(n)
	}
	sb.WriteString("end Golem.Gen.Optics\n\n-- digest (replay reports only)\n" + strings.Join(digest, "\n") + "\n")
	return sb.String()
}
