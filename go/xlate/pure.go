package main

import (
	"fmt"
	"go/ast"
	"go/token"
	"os"
	"path/filepath"
	"strconv"
	"strings"
)

// family pure: pure/types.go pure/semigroup/semigroup.go pure/monoid/monoid.go pure/eq/eq.go pure/ord/ord.go
// (any order on the command line; emitted in that dependency order) -> Gen/Pure.lean
//
// Accepted fragment (anything else is "untranslatable", exit 3):
//
//	type I[T any] interface { M(T, T) R; pkg.J[T]; N() T }      -> structure pkg_I (μ) (T) with one field per method
//	                                                               (embedded interfaces flattened), M : T → T → μ R, N : Unit → μ T
//	type S[A, B any] struct { I[A]; pkg.F[A, B]; x T }          -> structure pkg_S (μ) (A B) (embedded field = type's base name)
//	type F[T any] func(T, T) R                                   -> abbrev pkg_F (μ) (T) := T → T → μ R
//	type m[T comparable|pure.AnyOrderable] string ; type O int   -> abbrev pkg_m (T) := String ; abbrev pkg_O := Int
//	const ( LT O = -1 ... )                                      -> def pkg_LT : pkg_O := -1
//	const ( Int = m[int]("..") ... )                             -> def pkg_Int : pkg_m Int := ".."
//	func (r R[T]) M(a, b T) X { return e }                       -> def pkg_R_M {T} [class] (r : R) (a b : T) : μ X := do <ANF of e>
//	func (R[T]) M(a, b T) X { switch { case c: return v ... default: return v } }   -> if-chain
//	func F[T any](p ...) I[T] { return s[T]{f: e, ...} }         -> def pkg_F ... : pkg_I μ T := pkg_s_as_I { f := e, ... }   (no call: pure)
//
// Expressions.  Every Go CALL becomes a monadic bind of an arbitrary monad μ, in Go's evaluation
// order (arguments left to right, innermost first, the outermost call of a `return` in tail
// position); user-supplied functions and interface methods are Kleisli arrows `… → μ R`.
// Things that are not calls stay pure: parameters, constants, field selection `m.empty`,
// conversions `pkg.F[T](x)` (a type ascription), composite literals, and the built-in
// comparisons, which go through the classes of Model/GoOrd:
//
//	a == b  ->  goEq a b        a < b  ->  goLt a b        a > b  ->  goLt b a   (operands SWAPPED: Go defines x > y as y < x)
//
// A type parameter constrained by `comparable` gets `[GoEq T]`, by `pure.AnyOrderable` `[GoOrd T]`,
// by `any` nothing.  A value of concrete type C used where interface I is expected goes through
// the generated method-set packaging `pkg_C_as_I` (own methods first, else methods promoted from an
// embedded interface field — Go's depth-1 promotion).  `int` -> Int, `string` -> GoString, `bool` -> Bool.
func init() { families["pure"] = pureFamily }

var purePkgOrder = []string{"pure", "semigroup", "monoid", "eq", "ord"}

type pTParam struct {
	name, class string // class: "", "GoEq", "GoOrd"
}

type pMethodSig struct {
	name   string
	params []ast.Expr // flattened parameter types
	result ast.Expr
	pkg    *pPkg // package the signature's type expressions are written in
	env    map[string]string
}

type pField struct {
	name string
	typ  ast.Expr
}

type pType struct {
	pkg     *pPkg
	name    string
	tparams []pTParam
	kind    string // iface | struct | func | basic
	spec    *ast.TypeSpec
	fields  []pField        // struct
	methods []*ast.FuncDecl // own methods (concrete types)
	sigs    []pMethodSig    // iface: flattened method set (filled lazily)
	basic   string          // Lean type of the underlying basic type
	fn      *ast.FuncType   // func kind
	usesMu  bool
}

type pPkg struct {
	name    string
	file    *ast.File
	path    string
	imports map[string]string
	types   map[string]*pType
	order   []*pType
	consts  map[string]*pType // const name -> its (basic) type, for plain constants
}

type pWorld struct {
	pkgs map[string]*pPkg
}

// a resolved type: declared type + Lean renderings of its arguments, or a builtin / type parameter / func literal
type pRes struct {
	decl *pType
	args []string
	lean string        // full Lean rendering
	fn   *ast.FuncType // for func literals / func kinds (with env for substitution)
	fenv map[string]string
	fpkg *pPkg
}

func (t *pType) lname() string { return t.pkg.name + "_" + t.name }

func pos(n ast.Node) token.Position { return fset.Position(n.Pos()) }

func pureFamily(files []string) string {
	w := &pWorld{pkgs: map[string]*pPkg{}}
	for _, path := range files {
		f := parsePackageDir(path)
		p := &pPkg{name: f.Name.Name, file: f, path: path, imports: map[string]string{}, types: map[string]*pType{}, consts: map[string]*pType{}}
		if _, dup := w.pkgs[p.name]; dup {
			panic(untranslatable{"two files of package " + p.name + " (one file per package expected)"})
		}
		for _, im := range f.Imports {
			ip, _ := strconv.Unquote(im.Path.Value)
			local := filepath.Base(ip)
			if im.Name != nil {
				local = im.Name.Name
			}
			p.imports[local] = filepath.Base(ip)
		}
		w.pkgs[p.name] = p
	}
	for _, n := range purePkgOrder {
		if _, ok := w.pkgs[n]; !ok {
			panic(untranslatable{"missing source file of package " + n})
		}
	}
	if len(w.pkgs) != len(purePkgOrder) {
		panic(untranslatable{"unexpected package among the inputs"})
	}
	// pass 1: type declarations and method attachment
	for _, n := range purePkgOrder {
		w.collect(w.pkgs[n])
	}
	var sb strings.Builder
	sb.WriteString(header(strings.Join(files, " ")))
	sb.WriteString("import Golem.Model.GoOrd\nnamespace Golem.Gen.Pure\nopen Golem.Model.GoOrd\n\nset_option linter.unusedVariables false\n\nvariable {μ : Type → Type} [Monad μ]\n\n")
	digest := []string{}
	for _, n := range purePkgOrder {
		p := w.pkgs[n]
		fmt.Fprintf(&sb, "/-! ## package %s (%s) -/\n\n", p.name, p.path)
		w.emitPkg(p, &sb, &digest)
	}
	sb.WriteString("end Golem.Gen.Pure\n\n-- digest (replay reports only)\n" + strings.Join(digest, "\n") + "\n")
	return sb.String()
}

// ---------------------------------------------------------------- collection

func (w *pWorld) collect(p *pPkg) {
	for _, d := range p.file.Decls {
		gd, ok := d.(*ast.GenDecl)
		if !ok || gd.Tok != token.TYPE {
			continue
		}
		for _, s := range gd.Specs {
			ts := s.(*ast.TypeSpec)
			if p.name == "pure" && ts.Name.Name != "ContraMap" {
				// pure/types.go is read for the one type the other packages use
				fail(pos(ts), "package pure: unexpected type %s (only ContraMap is translated)", ts.Name.Name)
			}
			if ts.Assign != token.NoPos {
				fail(pos(ts), "type alias %s", ts.Name.Name)
			}
			t := &pType{pkg: p, name: ts.Name.Name, spec: ts}
			if ts.TypeParams != nil {
				for _, f := range ts.TypeParams.List {
					cl := w.constraintClass(p, f.Type)
					for _, n := range f.Names {
						t.tparams = append(t.tparams, pTParam{n.Name, cl})
					}
				}
			}
			switch u := ts.Type.(type) {
			case *ast.InterfaceType:
				t.kind, t.usesMu = "iface", true
			case *ast.StructType:
				t.kind, t.usesMu = "struct", true
				for _, f := range u.Fields.List {
					if f.Tag != nil {
						fail(pos(f), "struct tag")
					}
					if len(f.Names) == 0 {
						t.fields = append(t.fields, pField{baseName(f.Type), f.Type})
					}
					for _, n := range f.Names {
						t.fields = append(t.fields, pField{n.Name, f.Type})
					}
				}
			case *ast.FuncType:
				t.kind, t.usesMu, t.fn = "func", true, u
			case *ast.Ident:
				t.kind = "basic"
				switch u.Name {
				case "string":
					t.basic = "String"
				case "int":
					t.basic = "Int"
				default:
					fail(pos(ts), "type %s: unsupported underlying type %s", ts.Name.Name, u.Name)
				}
			default:
				fail(pos(ts), "type %s: unsupported declaration %s", ts.Name.Name, src(ts.Type))
			}
			p.types[t.name] = t
			p.order = append(p.order, t)
		}
	}
	for _, d := range p.file.Decls {
		fd, ok := d.(*ast.FuncDecl)
		if !ok || fd.Recv == nil {
			continue
		}
		rt := fd.Recv.List[0].Type
		name := baseName(rt)
		t, ok := p.types[name]
		if !ok || t.kind == "iface" {
			fail(pos(fd), "method %s on unknown receiver type %s", fd.Name.Name, src(rt))
		}
		if _, isStar := rt.(*ast.StarExpr); isStar {
			fail(pos(fd), "pointer receiver")
		}
		t.methods = append(t.methods, fd)
	}
}

func baseName(e ast.Expr) string {
	switch x := e.(type) {
	case *ast.Ident:
		return x.Name
	case *ast.SelectorExpr:
		return x.Sel.Name
	case *ast.IndexExpr:
		return baseName(x.X)
	case *ast.IndexListExpr:
		return baseName(x.X)
	}
	fail(pos(e), "cannot name type %s", src(e))
	return ""
}

func (w *pWorld) constraintClass(p *pPkg, e ast.Expr) string {
	switch src(e) {
	case "any":
		return ""
	case "comparable":
		return "GoEq"
	}
	if s, ok := e.(*ast.SelectorExpr); ok {
		if x, ok := s.X.(*ast.Ident); ok && p.imports[x.Name] == "pure" && s.Sel.Name == "AnyOrderable" {
			return "GoOrd"
		}
	}
	fail(pos(e), "unsupported type constraint %s", src(e))
	return ""
}

// ---------------------------------------------------------------- types

// resolve a type expression written in package p under the type-parameter environment env
// (Go type parameter name -> Lean type).
func (w *pWorld) resolve(p *pPkg, e ast.Expr, env map[string]string) pRes {
	typeArgs := func(list []ast.Expr) []string {
		out := []string{}
		for _, a := range list {
			out = append(out, w.resolve(p, a, env).lean)
		}
		return out
	}
	named := func(q *pPkg, name string, args []string, at ast.Expr) pRes {
		t, ok := q.types[name]
		if !ok {
			fail(pos(at), "unknown type %s.%s", q.name, name)
		}
		if len(args) != len(t.tparams) {
			fail(pos(at), "type %s: %d type arguments for %d parameters", name, len(args), len(t.tparams))
		}
		parts := []string{t.lname()}
		if t.usesMu {
			parts = append(parts, "μ")
		}
		parts = append(parts, args...)
		l := strings.Join(parts, " ")
		if len(parts) > 1 {
			l = "(" + l + ")"
		}
		r := pRes{decl: t, args: args, lean: l}
		if t.kind == "func" {
			r.fn, r.fpkg, r.fenv = t.fn, t.pkg, t.bind(args)
		}
		return r
	}
	switch x := e.(type) {
	case *ast.ParenExpr:
		return w.resolve(p, x.X, env)
	case *ast.Ident:
		if l, ok := env[x.Name]; ok {
			return pRes{lean: l}
		}
		switch x.Name {
		case "bool":
			return pRes{lean: "Bool"}
		case "int":
			return pRes{lean: "Int"}
		case "string":
			return pRes{lean: "GoString"}
		}
		return named(p, x.Name, nil, e)
	case *ast.SelectorExpr:
		return named(w.imported(p, x.X), x.Sel.Name, nil, e)
	case *ast.IndexExpr:
		return w.generic(p, x.X, typeArgs([]ast.Expr{x.Index}), named, e)
	case *ast.IndexListExpr:
		return w.generic(p, x.X, typeArgs(x.Indices), named, e)
	case *ast.FuncType:
		return pRes{lean: "(" + w.funcLean(p, x, env) + ")", fn: x, fpkg: p, fenv: env}
	}
	fail(pos(e), "unsupported type %s", src(e))
	return pRes{}
}

func (w *pWorld) generic(p *pPkg, head ast.Expr, args []string, named func(*pPkg, string, []string, ast.Expr) pRes, at ast.Expr) pRes {
	switch h := head.(type) {
	case *ast.Ident:
		return named(p, h.Name, args, at)
	case *ast.SelectorExpr:
		return named(w.imported(p, h.X), h.Sel.Name, args, at)
	}
	fail(pos(at), "unsupported generic type %s", src(at))
	return pRes{}
}

func (w *pWorld) imported(p *pPkg, x ast.Expr) *pPkg {
	id, ok := x.(*ast.Ident)
	if !ok {
		fail(pos(x), "unsupported qualifier %s", src(x))
	}
	q, ok := w.pkgs[p.imports[id.Name]]
	if !ok {
		fail(pos(x), "package %s is not among the translated sources", id.Name)
	}
	return q
}

func (t *pType) bind(args []string) map[string]string {
	env := map[string]string{}
	for i, tp := range t.tparams {
		env[tp.name] = args[i]
	}
	return env
}

func flatParams(fl *ast.FieldList) []ast.Expr {
	out := []ast.Expr{}
	if fl == nil {
		return out
	}
	for _, f := range fl.List {
		n := len(f.Names)
		if n == 0 {
			n = 1
		}
		if _, variadic := f.Type.(*ast.Ellipsis); variadic {
			fail(pos(f), "variadic parameter")
		}
		for i := 0; i < n; i++ {
			out = append(out, f.Type)
		}
	}
	return out
}

func oneResult(ft *ast.FuncType, what string) ast.Expr {
	if ft.Results == nil || len(ft.Results.List) != 1 || len(ft.Results.List[0].Names) > 0 {
		fail(pos(ft), "%s: exactly one unnamed result expected", what)
	}
	return ft.Results.List[0].Type
}

// `func(T, T) R` as a Kleisli arrow `T → T → μ R` (`Unit → μ R` without parameters).
func (w *pWorld) funcLean(p *pPkg, ft *ast.FuncType, env map[string]string) string {
	if ft.TypeParams != nil {
		fail(pos(ft), "generic function type")
	}
	parts := []string{}
	for _, pt := range flatParams(ft.Params) {
		parts = append(parts, w.resolve(p, pt, env).lean)
	}
	if len(parts) == 0 {
		parts = append(parts, "Unit")
	}
	parts = append(parts, "μ "+w.resolve(p, oneResult(ft, "function type"), env).lean)
	return strings.Join(parts, " → ")
}

// flattened method set of an interface type, signatures expressed under env
func (w *pWorld) ifaceSigs(t *pType, env map[string]string) []pMethodSig {
	out := []pMethodSig{}
	for _, f := range t.spec.Type.(*ast.InterfaceType).Methods.List {
		if len(f.Names) == 0 { // embedded interface
			r := w.resolve(t.pkg, f.Type, env)
			if r.decl == nil || r.decl.kind != "iface" {
				fail(pos(f), "interface %s embeds a non-interface %s", t.name, src(f.Type))
			}
			out = append(out, w.ifaceSigs(r.decl, r.decl.bind(r.args))...)
			continue
		}
		ft, ok := f.Type.(*ast.FuncType)
		if !ok {
			fail(pos(f), "interface %s: unsupported element", t.name)
		}
		for _, n := range f.Names {
			out = append(out, pMethodSig{name: n.Name, params: flatParams(ft.Params), result: oneResult(ft, n.Name), pkg: t.pkg, env: env})
		}
	}
	return out
}

func (w *pWorld) sigLean(s pMethodSig) string {
	parts := []string{}
	for _, pt := range s.params {
		parts = append(parts, w.resolve(s.pkg, pt, s.env).lean)
	}
	if len(parts) == 0 {
		parts = append(parts, "Unit")
	}
	parts = append(parts, "μ "+w.resolve(s.pkg, s.result, s.env).lean)
	return strings.Join(parts, " → ")
}

func (t *pType) selfEnv() map[string]string {
	env := map[string]string{}
	for _, tp := range t.tparams {
		env[tp.name] = tp.name
	}
	return env
}

func (t *pType) selfArgs() []string {
	out := []string{}
	for _, tp := range t.tparams {
		out = append(out, tp.name)
	}
	return out
}

func binders(tps []pTParam) string {
	if len(tps) == 0 {
		return ""
	}
	names, classes := []string{}, []string{}
	for _, tp := range tps {
		names = append(names, tp.name)
		if tp.class != "" {
			classes = append(classes, fmt.Sprintf("[%s %s]", tp.class, tp.name))
		}
	}
	s := " {" + strings.Join(names, " ") + " : Type}"
	if len(classes) > 0 {
		s += " " + strings.Join(classes, " ")
	}
	return s
}

func (t *pType) selfLean() string {
	parts := []string{t.lname()}
	if t.usesMu {
		parts = append(parts, "μ")
	}
	parts = append(parts, t.selfArgs()...)
	if len(parts) == 1 {
		return parts[0]
	}
	return "(" + strings.Join(parts, " ") + ")"
}

// ---------------------------------------------------------------- emission

func (w *pWorld) emitPkg(p *pPkg, sb *strings.Builder, digest *[]string) {
	// 1. types
	for _, t := range p.order {
		tpb := ""
		if len(t.tparams) > 0 {
			tpb = " (" + strings.Join(t.selfArgs(), " ") + " : Type)"
		}
		mu := ""
		if t.usesMu {
			mu = " (μ : Type → Type)"
		}
		switch t.kind {
		case "iface":
			fmt.Fprintf(sb, "/-- interface %s.%s -/\nstructure %s%s%s where\n", p.name, t.name, t.lname(), mu, tpb)
			sigs := w.ifaceSigs(t, t.selfEnv())
			if len(sigs) == 0 {
				fail(pos(t.spec), "empty interface %s", t.name)
			}
			for _, s := range sigs {
				fmt.Fprintf(sb, "  %s : %s\n", id(s.name), w.sigLean(s))
			}
		case "struct":
			fmt.Fprintf(sb, "/-- struct %s.%s -/\nstructure %s%s%s where\n", p.name, t.name, t.lname(), mu, tpb)
			for _, f := range t.fields {
				fmt.Fprintf(sb, "  %s : %s\n", id(f.name), strip(w.resolve(p, f.typ, t.selfEnv()).lean))
			}
		case "func":
			fmt.Fprintf(sb, "/-- type %s.%s %s -/\nabbrev %s%s%s := %s\n", p.name, t.name, cmt(src(t.fn)), t.lname(), mu, tpb, w.funcLean(p, t.fn, t.selfEnv()))
		case "basic":
			fmt.Fprintf(sb, "/-- type %s.%s %s -/\nabbrev %s%s := %s\n", p.name, t.name, src(t.spec.Type), t.lname(), tpb, t.basic)
		}
		sb.WriteString("\n")
	}
	// 2. plain constants (typed by a basic non-generic type of this package), 5. instance constants
	var late strings.Builder
	for _, d := range p.file.Decls {
		gd, ok := d.(*ast.GenDecl)
		if !ok {
			continue
		}
		switch gd.Tok {
		case token.IMPORT, token.TYPE:
			continue
		case token.VAR:
			// `var _ I = x` only asserts at compile time that x implements I
			blank := true
			for _, s := range gd.Specs {
				for _, n := range s.(*ast.ValueSpec).Names {
					if n.Name != "_" {
						blank = false
					}
				}
			}
			if blank {
				continue
			}
			fail(pos(gd), "package-level var")
		}
		for _, s := range gd.Specs {
			vs := s.(*ast.ValueSpec)
			if len(vs.Names) != 1 || len(vs.Values) != 1 {
				fail(pos(vs), "constant declaration must be `Name [Type] = value` (no iota / implicit repetition)")
			}
			name, val := vs.Names[0].Name, vs.Values[0]
			typ := vs.Type
			if lit, ok := val.(*ast.BasicLit); ok && typ != nil && lit.Kind == token.STRING {
				// `Name T = "s"` is `Name = T("s")`
				val = &ast.CallExpr{Fun: typ, Args: []ast.Expr{lit}}
				typ = nil
			}
			if typ != nil {
				r := w.resolve(p, typ, map[string]string{})
				if r.decl == nil || r.decl.kind != "basic" || r.decl.basic != "Int" {
					fail(pos(vs), "constant %s: unsupported type %s", name, src(typ))
				}
				fmt.Fprintf(sb, "def %s_%s : %s := %s\n\n", p.name, name, r.lean, intLit(val))
				p.consts[name] = r.decl
				*digest = append(*digest, fmt.Sprintf("-- %s.%s := %s", p.name, name, src(val)))
				continue
			}
			c, ok := val.(*ast.CallExpr)
			if !ok || len(c.Args) != 1 {
				fail(pos(vs), "constant %s: unsupported value %s", name, src(val))
			}
			r := w.resolve(p, c.Fun, map[string]string{})
			lit, isLit := c.Args[0].(*ast.BasicLit)
			if r.decl == nil || r.decl.kind != "basic" || r.decl.basic != "String" || !isLit || lit.Kind != token.STRING {
				fail(pos(vs), "constant %s: expected a conversion of a string literal to a marker type", name)
			}
			fmt.Fprintf(&late, "def %s_%s : %s := %s\n\n", p.name, name, strip(r.lean), lit.Value)
			*digest = append(*digest, fmt.Sprintf("-- %s.%s := %s", p.name, name, src(val)))
		}
	}
	// 3. methods
	for _, t := range p.order {
		for _, fd := range t.methods {
			w.emitMethod(t, fd, sb)
			*digest = append(*digest, fmt.Sprintf("-- %s.%s.%s := %s", p.name, t.name, fd.Name.Name, src(fd.Body)))
		}
	}
	// 4. method-set packaging: concrete type -> interface of the same package, when satisfied
	for _, t := range p.order {
		if t.kind == "iface" {
			continue
		}
		for _, it := range p.order {
			if it.kind == "iface" {
				w.emitAs(t, it, sb)
			}
		}
	}
	// 4'. functions, callees before callers (a constructor may delegate to another function of the package)
	fdecl := map[string]*ast.FuncDecl{}
	forder := []string{}
	for _, d := range p.file.Decls {
		if fd, ok := d.(*ast.FuncDecl); ok && fd.Recv == nil {
			fdecl[fd.Name.Name] = fd
			forder = append(forder, fd.Name.Name)
		}
	}
	state := map[string]int{} // 1 = being emitted, 2 = done
	var emit func(name string)
	emit = func(name string) {
		if state[name] == 2 {
			return
		}
		fd := fdecl[name]
		if state[name] == 1 {
			fail(pos(fd), "%s: recursive function", name)
		}
		state[name] = 1
		if fd.Body != nil {
			ast.Inspect(fd.Body, func(n ast.Node) bool {
				if c, ok := n.(*ast.CallExpr); ok {
					var h *ast.Ident
					switch f := c.Fun.(type) {
					case *ast.Ident:
						h = f
					case *ast.IndexExpr:
						h, _ = f.X.(*ast.Ident)
					case *ast.IndexListExpr:
						h, _ = f.X.(*ast.Ident)
					}
					if h != nil && fdecl[h.Name] != nil {
						emit(h.Name)
					}
				}
				return true
			})
		}
		w.emitFunc(p, fd, sb)
		*digest = append(*digest, fmt.Sprintf("-- %s.%s := %s", p.name, fd.Name.Name, src(fd.Body)))
		state[name] = 2
	}
	for _, n := range forder {
		emit(n)
	}
	sb.WriteString(late.String())
}

// cmt makes Go source text safe inside a Lean block comment.
func cmt(s string) string {
	return strings.ReplaceAll(strings.ReplaceAll(s, "-/", "- /"), "/-", "/ -")
}

func strip(s string) string {
	if strings.HasPrefix(s, "(") && strings.HasSuffix(s, ")") {
		return s[1 : len(s)-1]
	}
	return s
}

func intLit(e ast.Expr) string {
	switch x := e.(type) {
	case *ast.BasicLit:
		if x.Kind == token.INT {
			return x.Value
		}
	case *ast.UnaryExpr:
		if l, ok := x.X.(*ast.BasicLit); ok && x.Op == token.SUB && l.Kind == token.INT {
			return "-" + l.Value
		}
	}
	fail(pos(e), "unsupported constant value %s", src(e))
	return ""
}

// scope entry: a variable and its resolved type
type pVar struct {
	lean string
	typ  pRes
}

type pScope struct {
	w    *pWorld
	p    *pPkg
	env  map[string]string
	vars map[string]pVar
}

// typeOfValue: parameters and (chains of) field selections on them
func (s *pScope) typeOf(e ast.Expr) (string, pRes, bool) {
	switch x := e.(type) {
	case *ast.ParenExpr:
		return s.typeOf(x.X)
	case *ast.Ident:
		if v, ok := s.vars[x.Name]; ok {
			return v.lean, v.typ, true
		}
		if ct, ok := s.p.consts[x.Name]; ok {
			return s.p.name + "_" + x.Name, pRes{decl: ct, lean: ct.lname()}, true
		}
	case *ast.SelectorExpr:
		l, t, ok := s.typeOf(x.X)
		if ok && t.decl != nil && t.decl.kind == "struct" {
			for _, f := range t.decl.fields {
				if f.name == x.Sel.Name {
					return l + "." + id(f.name), s.w.resolve(t.decl.pkg, f.typ, t.decl.bind(t.args)), true
				}
			}
		}
	}
	return "", pRes{}, false
}

// atoms of the ANF: variables, constants, field selections, built-in comparisons of atoms
func (s *pScope) atom(e ast.Expr) (string, bool) {
	if l, _, ok := s.typeOf(e); ok {
		return l, true
	}
	switch x := e.(type) {
	case *ast.ParenExpr:
		return s.atom(x.X)
	case *ast.BinaryExpr:
		a, ok1 := s.atom(x.X)
		b, ok2 := s.atom(x.Y)
		if !ok1 || !ok2 {
			return "", false
		}
		_, ta, _ := s.typeOf(x.X)
		_, tb, _ := s.typeOf(x.Y)
		if ta.lean == "" || ta.lean != tb.lean {
			fail(pos(e), "comparison %s: operands must be variables of the same type", src(e))
		}
		switch x.Op {
		case token.EQL:
			return fmt.Sprintf("(goEq %s %s)", a, b), true
		case token.LSS:
			return fmt.Sprintf("(goLt %s %s)", a, b), true
		case token.GTR: // x > y  is  y < x
			return fmt.Sprintf("(goLt %s %s)", b, a), true
		}
		fail(pos(e), "unsupported operator in %s", src(e))
	}
	return "", false
}

// head of a call: a function-typed variable/field, or a method of an interface-typed variable/field
func (s *pScope) head(e ast.Expr, nargs int) string {
	if l, t, ok := s.typeOf(e); ok {
		if t.fn == nil {
			fail(pos(e), "call of %s which is not of function type", src(e))
		}
		if len(flatParams(t.fn.Params)) != nargs {
			fail(pos(e), "call of %s: wrong number of arguments", src(e))
		}
		return l
	}
	if sel, ok := e.(*ast.SelectorExpr); ok {
		if l, t, ok := s.typeOf(sel.X); ok && t.decl != nil && t.decl.kind == "iface" {
			for _, sig := range s.w.ifaceSigs(t.decl, t.decl.bind(t.args)) {
				if sig.name == sel.Sel.Name {
					if len(sig.params) != nargs {
						fail(pos(e), "call of %s: wrong number of arguments", src(e))
					}
					return l + "." + id(sig.name)
				}
			}
		}
	}
	fail(pos(e), "unsupported call head %s (only function-typed parameters/fields and interface methods may be called)", src(e))
	return ""
}

// result type of a call whose head is a function-typed parameter/field or an interface method
func (s *pScope) callResult(c *ast.CallExpr) (pRes, bool) {
	if _, t, ok := s.typeOf(c.Fun); ok && t.fn != nil && t.fn.Results != nil && len(t.fn.Results.List) == 1 {
		return s.w.resolve(t.fpkg, t.fn.Results.List[0].Type, t.fenv), true
	}
	if sel, ok := c.Fun.(*ast.SelectorExpr); ok {
		if _, t, ok := s.typeOf(sel.X); ok && t.decl != nil && t.decl.kind == "iface" {
			for _, sig := range s.w.ifaceSigs(t.decl, t.decl.bind(t.args)) {
				if sig.name == sel.Sel.Name {
					return s.w.resolve(sig.pkg, sig.result, sig.env), true
				}
			}
		}
	}
	return pRes{}, false
}

// monadic translation of `return e`
func (s *pScope) ret(e ast.Expr, indent string) string {
	// up-front check of every call in e: head kind and arity (fails closed)
	var walk func(ast.Expr)
	walk = func(x ast.Expr) {
		switch c := x.(type) {
		case *ast.ParenExpr:
			walk(c.X)
		case *ast.CallExpr:
			_ = s.head(c.Fun, len(c.Args))
			for _, arg := range c.Args {
				walk(arg)
			}
		}
	}
	walk(e)
	a := &anf{atom: s.atom}
	a.head = func(h ast.Expr) string {
		if l, _, ok := s.typeOf(h); ok {
			return l
		}
		sel := h.(*ast.SelectorExpr)
		l, _, _ := s.typeOf(sel.X)
		return l + "." + id(sel.Sel.Name)
	}
	lines := a.ret(e)
	return indent + strings.Join(lines, "\n"+indent) + "\n"
}

func (w *pWorld) emitMethod(t *pType, fd *ast.FuncDecl, sb *strings.Builder) {
	p := t.pkg
	what := t.name + "." + fd.Name.Name
	if fd.Type.TypeParams != nil {
		fail(pos(fd), "%s: generic method", what)
	}
	recv := fd.Recv.List[0]
	// receiver type arguments name the type parameters inside the method
	var rargs []ast.Expr
	switch rt := recv.Type.(type) {
	case *ast.IndexExpr:
		rargs = []ast.Expr{rt.Index}
	case *ast.IndexListExpr:
		rargs = rt.Indices
	case *ast.Ident:
	default:
		fail(pos(recv), "%s: unsupported receiver %s", what, src(recv.Type))
	}
	if len(rargs) != len(t.tparams) {
		fail(pos(recv), "%s: receiver type arguments do not match the declaration", what)
	}
	env := map[string]string{}
	tps := []pTParam{}
	for i, a := range rargs {
		n, ok := a.(*ast.Ident)
		if !ok {
			fail(pos(a), "%s: receiver type argument must be an identifier", what)
		}
		env[n.Name] = n.Name
		tps = append(tps, pTParam{n.Name, t.tparams[i].class})
	}
	sc := &pScope{w: w, p: p, env: env, vars: map[string]pVar{}}
	args := []string{}
	for _, tp := range tps {
		args = append(args, tp.name)
	}
	self := pRes{decl: t, args: args}
	{
		parts := []string{t.lname()}
		if t.usesMu {
			parts = append(parts, "μ")
		}
		parts = append(parts, args...)
		self.lean = strings.Join(parts, " ")
		if t.kind == "func" {
			self.fn, self.fpkg, self.fenv = t.fn, p, t.bind(args)
		}
	}
	params := []string{}
	if len(recv.Names) == 1 && recv.Names[0].Name != "_" {
		sc.vars[recv.Names[0].Name] = pVar{id(recv.Names[0].Name), self}
		params = append(params, fmt.Sprintf("(%s : %s)", id(recv.Names[0].Name), self.lean))
	} else {
		params = append(params, fmt.Sprintf("(_ : %s)", self.lean))
	}
	for _, f := range fd.Type.Params.List {
		r := w.resolve(p, f.Type, env)
		if len(f.Names) == 0 {
			fail(pos(f), "%s: unnamed parameter", what)
		}
		names := []string{}
		for _, n := range f.Names {
			sc.vars[n.Name] = pVar{id(n.Name), r}
			names = append(names, id(n.Name))
		}
		params = append(params, fmt.Sprintf("(%s : %s)", strings.Join(names, " "), strip(r.lean)))
	}
	sinkResultVar(fd)
	res := w.resolve(p, oneResult(fd.Type, what), env)
	fmt.Fprintf(sb, "/-- %s: %s -/\ndef %s_%s%s %s : μ %s := do\n", what, cmt(src(fd.Body)), t.lname(), fd.Name.Name, binders(tps), strings.Join(params, " "), res.lean)
	sb.WriteString(sc.body(fd.Body, what))
	sb.WriteString("\n")
}

// body: `return e` or `switch { case c: return e ... default: return e }`
func (s *pScope) body(b *ast.BlockStmt, what string) string {
	// leading `x := f(…)` statements: one monadic bind each (Go evaluates them in order, before the rest); the local's
	// type is the callee's result type
	prefix := ""
	for b != nil && len(b.List) >= 2 {
		as, ok := b.List[0].(*ast.AssignStmt)
		if !ok || as.Tok != token.DEFINE || len(as.Lhs) != 1 || len(as.Rhs) != 1 {
			break
		}
		l, ok1 := as.Lhs[0].(*ast.Ident)
		call, ok2 := as.Rhs[0].(*ast.CallExpr)
		if !ok1 || !ok2 || l.Name == "_" {
			break
		}
		if _, dup := s.vars[l.Name]; dup {
			fail(pos(as), "%s: local %s shadows a name in scope", what, l.Name)
		}
		res, ok := s.callResult(call)
		if !ok {
			fail(pos(as), "%s: cannot type the local %s", what, l.Name)
		}
		lines := s.ret(call, "  ")
		lines = strings.TrimRight(lines, "\n")
		k := strings.LastIndex(lines, "\n")
		// the last line is the call in tail position: bind it to the local
		prefix += lines[:k+1] + "  let " + id(l.Name) + " ← " + strings.TrimSpace(lines[k+1:]) + "\n"
		s.vars[l.Name] = pVar{lean: id(l.Name), typ: res}
		b = &ast.BlockStmt{Lbrace: b.Lbrace, List: b.List[1:]}
	}
	if prefix != "" {
		return prefix + s.body(b, what)
	}
	// `if c1 { return e1 }; if c2 { return e2 }; return e3` is the tagless switch with a default
	if b != nil && len(b.List) >= 2 {
		if last, ok := b.List[len(b.List)-1].(*ast.ReturnStmt); ok {
			sw := &ast.SwitchStmt{Switch: b.Pos(), Body: &ast.BlockStmt{Lbrace: b.Pos()}}
			okAll := true
			for _, st := range b.List[:len(b.List)-1] {
				is, ok := st.(*ast.IfStmt)
				if !ok || is.Init != nil || is.Else != nil || len(is.Body.List) != 1 {
					okAll = false
					break
				}
				if _, ok := is.Body.List[0].(*ast.ReturnStmt); !ok {
					okAll = false
					break
				}
				sw.Body.List = append(sw.Body.List, &ast.CaseClause{Case: is.Pos(), List: []ast.Expr{is.Cond}, Body: is.Body.List})
			}
			if okAll {
				sw.Body.List = append(sw.Body.List, &ast.CaseClause{Case: last.Pos(), Body: []ast.Stmt{last}})
				b = &ast.BlockStmt{Lbrace: b.Pos(), List: []ast.Stmt{sw}}
			}
		}
	}
	if b == nil || len(b.List) != 1 {
		fail(pos(b), "%s: body must be one return or one tagless switch", what)
	}
	switch st := b.List[0].(type) {
	case *ast.ReturnStmt:
		if len(st.Results) != 1 {
			fail(pos(st), "%s: single-value return expected", what)
		}
		return s.ret(st.Results[0], "  ")
	case *ast.SwitchStmt:
		if st.Init != nil || st.Tag != nil {
			fail(pos(st), "%s: only a tagless switch without init is supported", what)
		}
		var out strings.Builder
		n := len(st.Body.List)
		for i, cc := range st.Body.List {
			c := cc.(*ast.CaseClause)
			if len(c.Body) != 1 {
				fail(pos(c), "%s: case body must be one return", what)
			}
			r, ok := c.Body[0].(*ast.ReturnStmt)
			if !ok || len(r.Results) != 1 {
				fail(pos(c), "%s: case body must be one single-value return", what)
			}
			if c.List == nil { // default
				if i != n-1 {
					fail(pos(c), "%s: default must be the last clause", what)
				}
				if i == 0 {
					return s.ret(r.Results[0], "  ")
				}
				out.WriteString("  else\n" + s.ret(r.Results[0], "    "))
				return out.String()
			}
			if len(c.List) != 1 {
				fail(pos(c), "%s: one condition per case expected", what)
			}
			cond, ok := s.atom(c.List[0])
			if !ok {
				fail(pos(c), "%s: unsupported case condition %s (calls are not allowed here)", what, src(c.List[0]))
			}
			kw := "  if "
			if i > 0 {
				kw = "  else if "
			}
			out.WriteString(kw + cond + " then\n" + s.ret(r.Results[0], "    "))
		}
		fail(pos(st), "%s: switch without default (falls off the end)", what)
	}
	fail(pos(b), "%s: unsupported statement", what)
	return ""
}

// method-set packaging of concrete type t as interface it (same package), if satisfied
func (w *pWorld) emitAs(t, it *pType, sb *strings.Builder) {
	if len(it.tparams) != 1 && len(it.tparams) != len(t.tparams) {
		return
	}
	// the interface's type arguments are inferred from the first method: try every own type
	// parameter for a one-parameter interface, the identity for equal arity.
	candidates := [][]string{}
	if len(it.tparams) == len(t.tparams) {
		candidates = append(candidates, t.selfArgs())
	}
	if len(it.tparams) == 1 {
		for _, a := range t.selfArgs() {
			candidates = append(candidates, []string{a})
		}
	}
	for _, iargs := range candidates {
		sigs := w.ifaceSigs(it, it.bind(iargs))
		fields := []string{}
		okAll := true
		for _, sig := range sigs {
			want := w.sigLean(sig)
			vars := []string{}
			for i := range sig.params {
				vars = append(vars, fmt.Sprintf("x%d", i+1))
			}
			lam := "fun " + strings.Join(vars, " ") + " => "
			app := " " + strings.Join(vars, " ")
			if len(vars) == 0 {
				lam, app = "fun _ => ", ""
			}
			found := ""
			for _, m := range t.methods { // own method
				if m.Name.Name == sig.name && w.methodLean(t, m) == want {
					found = fmt.Sprintf("%s%s_%s v%s", lam, t.lname(), m.Name.Name, app)
				}
			}
			own := false
			for _, m := range t.methods {
				own = own || m.Name.Name == sig.name
			}
			// an own method of that name shadows the promoted one (Go: depth 0 beats depth 1)
			if found == "" && !own && t.kind == "struct" { // promoted from an embedded interface field
				for _, f := range t.fields {
					if f.name != baseName(f.typ) {
						continue
					}
					r := w.resolve(t.pkg, f.typ, t.selfEnv())
					if r.decl == nil || r.decl.kind != "iface" {
						continue
					}
					for _, fs := range w.ifaceSigs(r.decl, r.decl.bind(r.args)) {
						if fs.name == sig.name && w.sigLean(fs) == want {
							if len(vars) == 0 {
								found = fmt.Sprintf("fun _ => v.%s.%s ()", id(f.name), id(sig.name))
							} else {
								found = fmt.Sprintf("%sv.%s.%s%s", lam, id(f.name), id(sig.name), app)
							}
						}
					}
				}
			}
			if found == "" {
				okAll = false
				break
			}
			fields = append(fields, fmt.Sprintf("%s := %s", id(sig.name), found))
		}
		if !okAll {
			continue
		}
		parts := []string{it.lname(), "μ"}
		parts = append(parts, iargs...)
		fmt.Fprintf(sb, "/-- a %s.%s used as a %s.%s (method set: own methods, else promoted from embedded interfaces) -/\ndef %s_as_%s%s (v : %s) : %s :=\n  { %s }\n\n",
			t.pkg.name, t.name, it.pkg.name, it.name, t.lname(), it.name, binders(t.tparams), strip(t.selfLean()), strings.Join(parts, " "), strings.Join(fields, ", "))
		return
	}
}

// Lean signature (without receiver) of a declared method, for method-set matching
func (w *pWorld) methodLean(t *pType, fd *ast.FuncDecl) string {
	env := map[string]string{}
	recv := fd.Recv.List[0]
	var rargs []ast.Expr
	switch rt := recv.Type.(type) {
	case *ast.IndexExpr:
		rargs = []ast.Expr{rt.Index}
	case *ast.IndexListExpr:
		rargs = rt.Indices
	}
	for i, a := range rargs {
		if n, ok := a.(*ast.Ident); ok && i < len(t.tparams) {
			env[n.Name] = t.tparams[i].name
		}
	}
	return w.sigLean(pMethodSig{name: fd.Name.Name, params: flatParams(fd.Type.Params), result: oneResult(fd.Type, fd.Name.Name), pkg: t.pkg, env: env})
}

// pure value expressions of constructor functions: parameters, conversions, composite literals
func (s *pScope) value(e ast.Expr) (string, pRes) {
	if l, t, ok := s.typeOf(e); ok {
		return l, t
	}
	switch x := e.(type) {
	case *ast.ParenExpr:
		return s.value(x.X)
	case *ast.CallExpr: // conversion T(x), or a call of another constructor function of this package
		if v, t, ok := s.ctorCall(x); ok {
			return v, t
		}
		if len(x.Args) != 1 || x.Ellipsis != token.NoPos {
			fail(pos(e), "unsupported call %s in a constructor (only conversions are pure)", src(e))
		}
		if _, _, isVal := s.typeOf(x.Fun); isVal {
			fail(pos(e), "call %s in a constructor function", src(e))
		}
		target := s.w.resolve(s.p, x.Fun, s.env)
		if target.decl == nil || target.decl.kind != "func" {
			fail(pos(e), "conversion to %s: only conversions to named function types are supported", src(x.Fun))
		}
		v, vt := s.value(x.Args[0])
		want := s.w.funcLean(target.fpkg, target.fn, target.fenv)
		have := ""
		if vt.fn != nil {
			have = s.w.funcLean(vt.fpkg, vt.fn, vt.fenv)
		}
		if have != want {
			fail(pos(e), "conversion %s: underlying types differ (%s vs %s)", src(e), have, want)
		}
		return fmt.Sprintf("(%s : %s)", v, strip(target.lean)), target
	case *ast.CompositeLit:
		t := s.w.resolve(s.p, x.Type, s.env)
		if t.decl == nil || t.decl.kind != "struct" {
			fail(pos(e), "composite literal of non-struct type %s", src(x.Type))
		}
		seen := map[string]bool{}
		parts := []string{}
		for _, el := range x.Elts {
			kv, ok := el.(*ast.KeyValueExpr)
			if !ok {
				fail(pos(el), "composite literal %s: keyed fields expected", src(e))
			}
			k, ok := kv.Key.(*ast.Ident)
			if !ok {
				fail(pos(el), "composite literal key %s", src(kv.Key))
			}
			var ft *pField
			for i := range t.decl.fields {
				if t.decl.fields[i].name == k.Name {
					ft = &t.decl.fields[i]
				}
			}
			if ft == nil || seen[k.Name] {
				fail(pos(el), "composite literal: unknown or repeated field %s", k.Name)
			}
			seen[k.Name] = true
			v, vt := s.value(kv.Value)
			want := s.w.resolve(t.decl.pkg, ft.typ, t.decl.bind(t.args))
			parts = append(parts, fmt.Sprintf("%s := %s", id(k.Name), s.coerce(v, vt, want, kv.Value)))
		}
		if len(seen) != len(t.decl.fields) {
			fail(pos(e), "composite literal %s leaves fields at their zero value", src(e))
		}
		return fmt.Sprintf("({ %s } : %s)", strings.Join(parts, ", "), strip(t.lean)), t
	}
	fail(pos(e), "unsupported expression %s in a constructor function", src(e))
	return "", pRes{}
}

// h(a1, …, an) / h[T…](a1, …, an) where h is a top-level function of the same package (functions are emitted callees first): the Lean application, arguments coerced to the parameter types. Type arguments are
// the explicit ones, or — when left to inference — the caller's type parameters of the same names.
func (s *pScope) ctorCall(x *ast.CallExpr) (string, pRes, bool) {
	if x.Ellipsis != token.NoPos {
		return "", pRes{}, false
	}
	var h *ast.Ident
	var targs []ast.Expr
	switch f := x.Fun.(type) {
	case *ast.Ident:
		h = f
	case *ast.IndexExpr:
		h, _ = f.X.(*ast.Ident)
		targs = []ast.Expr{f.Index}
	case *ast.IndexListExpr:
		h, _ = f.X.(*ast.Ident)
		targs = f.Indices
	}
	if h == nil {
		return "", pRes{}, false
	}
	var fd *ast.FuncDecl
	for _, d := range s.p.file.Decls {
		if g, ok := d.(*ast.FuncDecl); ok && g.Recv == nil && g.Name.Name == h.Name && g.Body != nil {
			fd = g
		}
	}
	if fd == nil {
		return "", pRes{}, false
	}
	env := map[string]string{}
	tps := []string{}
	if fd.Type.TypeParams != nil {
		for _, f := range fd.Type.TypeParams.List {
			for _, n := range f.Names {
				tps = append(tps, n.Name)
			}
		}
	}
	if targs != nil {
		if len(targs) != len(tps) {
			return "", pRes{}, false
		}
		for i, t := range tps {
			env[t] = s.w.resolve(s.p, targs[i], s.env).lean
		}
	} else {
		for _, t := range tps {
			if s.env[t] == "" {
				fail(pos(x), "call %s: type arguments left to inference (only when the caller has type parameters of the same names)", src(x))
			}
			env[t] = s.env[t]
		}
	}
	n := 0
	args := []string{}
	for _, f := range fd.Type.Params.List {
		want := s.w.resolve(s.p, f.Type, env)
		for range f.Names {
			if n >= len(x.Args) {
				return "", pRes{}, false
			}
			v, vt := s.value(x.Args[n])
			args = append(args, s.coerce(v, vt, want, x.Args[n]))
			n++
		}
	}
	if n != len(x.Args) {
		return "", pRes{}, false
	}
	res := s.w.resolve(s.p, oneResult(fd.Type, h.Name), env)
	return fmt.Sprintf("(%s_%s %s)", s.p.name, h.Name, strings.Join(args, " ")), res, true
}

func (s *pScope) coerce(v string, have, want pRes, at ast.Expr) string {
	if strip(have.lean) == strip(want.lean) {
		return v
	}
	if want.decl != nil && want.decl.kind == "iface" && have.decl != nil && have.decl.kind != "iface" && have.decl.pkg == want.decl.pkg {
		// packaging def exists iff the method set is satisfied; Lean re-checks the instantiation
		return fmt.Sprintf("(%s_as_%s %s)", have.decl.lname(), want.decl.name, v)
	}
	if want.decl != nil && want.decl.kind == "iface" && have.decl != nil && have.decl.kind != "iface" {
		fail(pos(at), "value of type %s used as interface %s of another package (no packaging generated)", have.lean, want.lean)
	}
	fail(pos(at), "type mismatch: %s used as %s", have.lean, want.lean)
	return ""
}

func (w *pWorld) emitFunc(p *pPkg, fd *ast.FuncDecl, sb *strings.Builder) {
	what := fd.Name.Name
	env := map[string]string{}
	tps := []pTParam{}
	if fd.Type.TypeParams != nil {
		for _, f := range fd.Type.TypeParams.List {
			cl := w.constraintClass(p, f.Type)
			for _, n := range f.Names {
				env[n.Name] = n.Name
				tps = append(tps, pTParam{n.Name, cl})
			}
		}
	}
	sc := &pScope{w: w, p: p, env: env, vars: map[string]pVar{}}
	params := []string{}
	for _, f := range fd.Type.Params.List {
		if _, variadic := f.Type.(*ast.Ellipsis); variadic {
			fail(pos(f), "%s: variadic parameter", what)
		}
		r := w.resolve(p, f.Type, env)
		if len(f.Names) == 0 {
			fail(pos(f), "%s: unnamed parameter", what)
		}
		for _, n := range f.Names {
			sc.vars[n.Name] = pVar{id(n.Name), r}
			params = append(params, fmt.Sprintf("(%s : %s)", id(n.Name), strip(r.lean)))
		}
	}
	res := w.resolve(p, oneResult(fd.Type, what), env)
	literalFromAssignments(fd)
	e := singleReturn(fd.Body, what)
	v, vt := sc.value(e)
	fmt.Fprintf(sb, "/-- %s: %s -/\ndef %s_%s%s %s : %s :=\n  %s\n\n", what, cmt(src(fd.Body)), p.name, what, binders(tps), strings.Join(params, " "), strip(res.lean), sc.coerce(v, vt, res, e))
}

// `var m T; m.f1 = e1; …; m.fk = ek; return m` (every statement of that form, each field at most once, no ei mentioning
// m) is `return T{f1: e1, …, fk: ek}`; fields left out stay at their zero value and are rejected by the literal rule.
func literalFromAssignments(fd *ast.FuncDecl) {
	b := fd.Body.List
	if len(b) < 3 {
		return
	}
	ds, ok := b[0].(*ast.DeclStmt)
	if !ok {
		return
	}
	gd, ok := ds.Decl.(*ast.GenDecl)
	if !ok || gd.Tok != token.VAR || len(gd.Specs) != 1 {
		return
	}
	vs, ok := gd.Specs[0].(*ast.ValueSpec)
	if !ok || len(vs.Names) != 1 || len(vs.Values) != 0 || vs.Type == nil {
		return
	}
	m := vs.Names[0].Name
	r, ok := b[len(b)-1].(*ast.ReturnStmt)
	if !ok || len(r.Results) != 1 || src(r.Results[0]) != m {
		return
	}
	elts := []ast.Expr{}
	seen := map[string]bool{}
	for _, st := range b[1 : len(b)-1] {
		as, ok := st.(*ast.AssignStmt)
		if !ok || as.Tok != token.ASSIGN || len(as.Lhs) != 1 || len(as.Rhs) != 1 {
			return
		}
		sel, ok := as.Lhs[0].(*ast.SelectorExpr)
		if !ok || src(sel.X) != m || seen[sel.Sel.Name] {
			return
		}
		bad := false
		ast.Inspect(as.Rhs[0], func(n ast.Node) bool {
			if i, ok := n.(*ast.Ident); ok && i.Name == m {
				bad = true
			}
			return true
		})
		if bad {
			return
		}
		seen[sel.Sel.Name] = true
		elts = append(elts, &ast.KeyValueExpr{Key: ast.NewIdent(sel.Sel.Name), Value: as.Rhs[0]})
	}
	fd.Body.List = []ast.Stmt{&ast.ReturnStmt{Results: []ast.Expr{&ast.CompositeLit{Type: vs.Type, Elts: elts}}}}
}

// A result variable that is assigned and returned at the end is the returns it stands for:
//
//	func … (o T) { o = E0; switch { case c1: o = E1 … }; return [o] }
//	func … T     { o := E0; switch { case c1: o = E1 … }; return o }
//
// become `switch { case c1: return E1 …; default: return E0 }` (an if/else-if chain likewise). Each branch is exactly
// one assignment of the variable; conditions and values must not mention it.
func sinkResultVar(fd *ast.FuncDecl) {
	if fd.Body == nil || fd.Type.Results == nil || len(fd.Type.Results.List) != 1 || len(fd.Body.List) < 2 {
		return
	}
	rf := fd.Type.Results.List[0]
	list := fd.Body.List
	last, ok := list[len(list)-1].(*ast.ReturnStmt)
	if !ok {
		return
	}
	o := ""
	named := false
	if len(rf.Names) == 1 {
		o, named = rf.Names[0].Name, true
		if len(last.Results) == 1 {
			if i, ok := last.Results[0].(*ast.Ident); !ok || i.Name != o {
				return
			}
		} else if len(last.Results) != 0 {
			return
		}
	} else if len(rf.Names) == 0 && len(last.Results) == 1 {
		i, ok := last.Results[0].(*ast.Ident)
		if !ok {
			return
		}
		o = i.Name
	} else {
		return
	}
	mentions := func(n ast.Node) bool {
		found := false
		ast.Inspect(n, func(m ast.Node) bool {
			if i, ok := m.(*ast.Ident); ok && i.Name == o {
				found = true
			}
			return true
		})
		return found
	}
	assigned := func(st ast.Stmt, define bool) ast.Expr {
		as, ok := st.(*ast.AssignStmt)
		if !ok || len(as.Lhs) != 1 || len(as.Rhs) != 1 || (as.Tok != token.ASSIGN && !(define && as.Tok == token.DEFINE)) {
			return nil
		}
		if i, ok := as.Lhs[0].(*ast.Ident); !ok || i.Name != o || mentions(as.Rhs[0]) {
			return nil
		}
		return as.Rhs[0]
	}
	mid := list[:len(list)-1]
	var cur ast.Expr
	if e := assigned(mid[0], !named); e != nil {
		cur = e
		mid = mid[1:]
	} else if !named {
		return // the variable's declaration is not understood
	}
	if len(mid) != 1 {
		return
	}
	ret := func(e ast.Expr) []ast.Stmt { return []ast.Stmt{&ast.ReturnStmt{Results: []ast.Expr{e}}} }
	switch st := mid[0].(type) {
	case *ast.SwitchStmt:
		if st.Init != nil || st.Tag != nil {
			return
		}
		clauses := []ast.Stmt{}
		hasDefault := false
		for _, cc := range st.Body.List {
			c := cc.(*ast.CaseClause)
			for _, e := range c.List {
				if mentions(e) {
					return
				}
			}
			if c.List == nil {
				hasDefault = true
			}
			var e ast.Expr
			if len(c.Body) == 0 {
				e = cur
			} else if len(c.Body) == 1 {
				e = assigned(c.Body[0], false)
			}
			if e == nil {
				return
			}
			clauses = append(clauses, &ast.CaseClause{Case: c.Case, List: c.List, Body: ret(e)})
		}
		if !hasDefault {
			if cur == nil {
				return
			}
			clauses = append(clauses, &ast.CaseClause{Case: last.Pos(), Body: ret(cur)})
		}
		st.Body.List = clauses
		fd.Body.List = []ast.Stmt{st}
	case *ast.IfStmt:
		out := []ast.Stmt{}
		var is ast.Stmt = st
		for is != nil {
			x, ok := is.(*ast.IfStmt)
			if !ok {
				// final else block
				b, ok := is.(*ast.BlockStmt)
				if !ok || len(b.List) != 1 {
					return
				}
				e := assigned(b.List[0], false)
				if e == nil {
					return
				}
				cur = e
				break
			}
			if x.Init != nil || mentions(x.Cond) || len(x.Body.List) != 1 {
				return
			}
			e := assigned(x.Body.List[0], false)
			if e == nil {
				return
			}
			out = append(out, &ast.IfStmt{If: x.If, Cond: x.Cond, Body: &ast.BlockStmt{Lbrace: x.Body.Lbrace, List: ret(e)}})
			is = x.Else
		}
		if cur == nil {
			return
		}
		out = append(out, &ast.ReturnStmt{Return: last.Pos(), Results: []ast.Expr{cur}})
		fd.Body.List = out
	default:
		return
	}
	if named {
		rf.Names = nil
	}
}

// A directory stands for its package: the declarations (and imports) of all its non-test files, as one file.
func parsePackageDir(path string) *ast.File {
	st, err := os.Stat(path)
	if err != nil || !st.IsDir() {
		return parse(path)
	}
	ents, err := os.ReadDir(path)
	if err != nil {
		panic(untranslatable{"cannot read " + path})
	}
	var merged *ast.File
	for _, e := range ents {
		n := e.Name()
		if !strings.HasSuffix(n, ".go") || strings.HasSuffix(n, "_test.go") {
			continue
		}
		f := parse(filepath.Join(path, n))
		if merged == nil {
			merged = f
			continue
		}
		if f.Name.Name != merged.Name.Name {
			panic(untranslatable{"two packages in " + path})
		}
		merged.Decls = append(merged.Decls, f.Decls...)
		merged.Imports = append(merged.Imports, f.Imports...)
	}
	if merged == nil {
		panic(untranslatable{"no source file in " + path})
	}
	return merged
}
