package main

import (
	"fmt"
	"go/ast"
	"go/token"
	"sort"
	"strings"
)

// family cfg:  pipe/unbound.go  ->  Gen/PipeNewCFG.lean
//
// Compiles the pump goroutine of `pipe.New` to a control-flow graph over the program points of
// lean/Golem/Model/PumpCFG.lean (select / enq / deq / close / flushSend / halt):
//
//   - structured control flow (for, for-range over a channel, for with the condition `mq.head != nil`, select with
//     arm bodies, if, break / continue with and without labels, return) becomes edges; `defer close(ch)` is the
//     chain every `return` runs through;
//   - calls of local closures (`flush := func() {…}`) and of unexported functions of the same file are inlined
//     (parameters renamed to the argument identifiers); a bool-returning helper used as an `if` condition is inlined
//     with one continuation per result; `go f(args)` resolves the same way;
//   - `x, ok := <-ch` — as a statement or as a select arm — is merged with the `if !ok { … }` that follows it into
//     one receive edge pair (value / closed-and-drained), `for x := range ch` is the same receive with the loop exit as
//     its closed edge;
//   - `enq(&x, mq)`, `deq(mq)`, `close(ch)`, the blocking `ch <- head(mq)` and the arm `case emit(ch, mq) <- head(mq):`
//     are the primitive nodes; `if mq.head != nil`-headed loops followed by the blocking send become `flushSend`;
//   - the graph is minimised (partition refinement: program points with the same kind, labels and successor classes are
//     identified — e.g. the inlined copies of `flush(); return`) and numbered breadth-first from the entry with a
//     fixed successor order (select arms: Done, receive, send; then default).
//
// Anything else is outside the fragment (the family then fails closed).
func init() { families["cfg"] = cfgFamily }

type cNode struct {
	kind string // select | enq | deq | close | sendhead | branch | goto | halt | flushsend
	ch   string
	arms []cArm
	dflt int // -1: none
	next int
	a, b int // branch: then/else ; flushsend: sent/empty
	cond string
}

type cArm struct {
	kind   string // done | recv | sendhead
	ch     string
	t1, t2 int
}

type cBuilder struct {
	nodes   []*cNode
	chName  map[string]string // Go identifier -> inp | eg
	mq      string
	closure map[string]*ast.FuncLit
	file    string
	depth   int
}

type cEnv struct {
	brk, cont  int               // innermost loop
	labels     map[string][2]int // label -> (break, continue)
	ret        int               // where `return` goes (deferred chain / caller continuation)
	retBool    *[2]int           // inside a bool helper: return true / return false
	selectExit int               // unlabeled break inside a select arm
	inSelect   bool
	recvVar    string // the variable DECLARED by the receive that dominates this point (what `enq(&x, mq)` may take the address of)
}

func (b *cBuilder) add(n *cNode) int {
	b.nodes = append(b.nodes, n)
	return len(b.nodes) - 1
}

func cfail(n ast.Node, format string, args ...any) {
	fail(fset.Position(n.Pos()), "cfg: %s", fmt.Sprintf(format, args...))
}

func (b *cBuilder) chOf(e ast.Expr) string {
	if i, ok := e.(*ast.Ident); ok {
		if c, ok := b.chName[i.Name]; ok {
			return c
		}
	}
	cfail(e, "not one of the two channels: %s", src(e))
	return ""
}

func (b *cBuilder) isMq(e ast.Expr) bool {
	i, ok := e.(*ast.Ident)
	return ok && i.Name == b.mq
}

// head(mq)
func (b *cBuilder) isHead(e ast.Expr) bool {
	_, n, args, ok := callName(e)
	return ok && n == "head" && len(args) == 1 && b.isMq(args[0])
}

// mq.head != nil
func (b *cBuilder) isNonEmpty(e ast.Expr) bool {
	x, ok := e.(*ast.BinaryExpr)
	if !ok || x.Op != token.NEQ || !isNil(x.Y) {
		return false
	}
	s, ok := x.X.(*ast.SelectorExpr)
	return ok && s.Sel.Name == "head" && b.isMq(s.X)
}

// `v, ok := <-ch` / `v, ok = <-ch`
func (b *cBuilder) recv2(st ast.Stmt) (ch, okName, valName string, is bool) {
	as, ok := st.(*ast.AssignStmt)
	if !ok || len(as.Lhs) != 2 || len(as.Rhs) != 1 {
		return
	}
	u, ok := as.Rhs[0].(*ast.UnaryExpr)
	if !ok || u.Op != token.ARROW {
		return
	}
	o, ok := as.Lhs[1].(*ast.Ident)
	v, ok2 := as.Lhs[0].(*ast.Ident)
	if !ok || !ok2 {
		return
	}
	// the received value must live in a variable declared by this very statement: `enq(&x, mq)` keeps its address, a
	// variable shared between iterations would be overwritten under the queue
	if as.Tok != token.DEFINE {
		cfail(st, "the received value is assigned to an existing variable (its address is queued)")
	}
	return b.chOf(u.X), o.Name, v.Name, true
}

// does the statement list end with a jump (return / break / continue)?
func terminates(list []ast.Stmt) bool {
	if len(list) == 0 {
		return false
	}
	switch x := list[len(list)-1].(type) {
	case *ast.ReturnStmt:
		return true
	case *ast.BranchStmt:
		return x.Tok == token.BREAK || x.Tok == token.CONTINUE
	}
	return false
}

// compile a statement list; k is the program point reached when the list falls through
func (b *cBuilder) stmts(list []ast.Stmt, k int, env cEnv) int {
	if len(list) == 0 {
		return k
	}
	st := list[0]
	rest := func() int { return b.stmts(list[1:], k, env) }
	// x, ok := <-ch ; if !ok { A } ; REST
	if ch, okName, valName, is := b.recv2(st); is {
		if len(list) < 2 {
			cfail(st, "receive with `ok` without the test that follows it")
		}
		is2, ok := list[1].(*ast.IfStmt)
		if !ok || is2.Init != nil || is2.Else != nil || src(is2.Cond) != "!"+okName {
			cfail(list[1], "receive with `ok` must be followed by `if !%s { … }`", okName)
		}
		ev := env
		ev.recvVar = valName
		after := b.stmts(list[2:], k, ev)
		if !terminates(is2.Body.List) {
			cfail(is2, "the `!%s` branch falls through to code that uses the received value", okName)
		}
		closed := b.stmts(is2.Body.List, -1, env)
		return b.add(&cNode{kind: "select", arms: []cArm{{kind: "recv", ch: ch, t1: after, t2: closed}}, dflt: -1})
	}
	switch x := st.(type) {
	case *ast.EmptyStmt:
		return rest()
	case *ast.LabeledStmt:
		switch l := x.Stmt.(type) {
		case *ast.ForStmt:
			return b.loop(l, nil, x.Label.Name, rest(), env)
		case *ast.RangeStmt:
			return b.loop(nil, l, x.Label.Name, rest(), env)
		}
		cfail(st, "label on something that is not a loop")
	case *ast.ForStmt:
		return b.loop(x, nil, "", rest(), env)
	case *ast.RangeStmt:
		return b.loop(nil, x, "", rest(), env)
	case *ast.ReturnStmt:
		if env.retBool != nil {
			if len(x.Results) == 1 && src(x.Results[0]) == "true" {
				return env.retBool[0]
			}
			if len(x.Results) == 1 && src(x.Results[0]) == "false" {
				return env.retBool[1]
			}
			cfail(st, "bool helper: unsupported return")
		}
		if len(x.Results) != 0 {
			cfail(st, "return with values")
		}
		return env.ret
	case *ast.BranchStmt:
		switch {
		case x.Tok == token.BREAK && x.Label == nil:
			if env.inSelect {
				return env.selectExit
			}
			if env.brk < 0 {
				cfail(st, "break outside a loop")
			}
			return env.brk
		case x.Tok == token.CONTINUE && x.Label == nil:
			if env.cont < 0 {
				cfail(st, "continue outside a loop")
			}
			return env.cont
		case x.Label != nil:
			t, ok := env.labels[x.Label.Name]
			if !ok {
				cfail(st, "unknown label %s", x.Label.Name)
			}
			if x.Tok == token.BREAK {
				return t[0]
			}
			if x.Tok == token.CONTINUE {
				return t[1]
			}
		}
		cfail(st, "unsupported branch statement")
	case *ast.SendStmt:
		// ch <- *deq(mq): the head is unlinked first and then sent. The queue is private to this goroutine, so nobody can
		// tell this from `ch <- head(mq); deq(mq)` (the element waits in the goroutine's hand instead of at the head).
		if se, ok := x.Value.(*ast.StarExpr); ok {
			if _, n, args, ok := callName(se.X); ok && n == "deq" && len(args) == 1 && b.isMq(args[0]) {
				d := b.add(&cNode{kind: "deq", next: rest()})
				return b.add(&cNode{kind: "sendhead", ch: b.chOf(x.Chan), next: d})
			}
		}
		// ch <- head(mq)   (blocking)
		if !b.isHead(x.Value) {
			cfail(st, "send of something that is not head(mq)")
		}
		return b.add(&cNode{kind: "sendhead", ch: b.chOf(x.Chan), next: rest()})
	case *ast.ExprStmt:
		_, n, args, ok := callName(x.X)
		if ok {
			switch {
			case n == "enq" && len(args) == 2 && b.isMq(args[1]):
				if u, ok := args[0].(*ast.UnaryExpr); !ok || u.Op != token.AND || src(u.X) != env.recvVar || env.recvVar == "" {
					cfail(st, "enq of something that is not the address of the value just received")
				}
				return b.add(&cNode{kind: "enq", next: rest()})
			case n == "deq" && len(args) == 1 && b.isMq(args[0]):
				return b.add(&cNode{kind: "deq", next: rest()})
			case n == "close" && len(args) == 1:
				return b.add(&cNode{kind: "close", ch: b.chOf(args[0]), next: rest()})
			}
			if body := b.callee(x.X.(*ast.CallExpr), false); body != nil {
				e2 := env
				e2.ret, e2.retBool, e2.brk, e2.cont, e2.inSelect, e2.recvVar = rest(), nil, -1, -1, false, ""
				e2.labels = map[string][2]int{}
				b.depth++
				r := b.stmts(body.List, e2.ret, e2)
				b.depth--
				return r
			}
		}
	case *ast.IfStmt:
		if x.Init != nil {
			cfail(st, "if with an initialiser")
		}
		after := rest()
		thenN := b.stmts(x.Body.List, after, env)
		elseN := after
		if x.Else != nil {
			eb, ok := x.Else.(*ast.BlockStmt)
			if !ok {
				cfail(st, "else-if")
			}
			elseN = b.stmts(eb.List, after, env)
		}
		if b.isNonEmpty(x.Cond) {
			return b.add(&cNode{kind: "branch", cond: "nonempty", a: thenN, b: elseN})
		}
		// if h(args) / if !h(args) for a bool helper
		neg := false
		c := x.Cond
		if u, ok := c.(*ast.UnaryExpr); ok && u.Op == token.NOT {
			neg, c = true, u.X
		}
		if call, ok := c.(*ast.CallExpr); ok {
			if body := b.callee(call, true); body != nil {
				t, f := thenN, elseN
				if neg {
					t, f = elseN, thenN
				}
				e2 := cEnv{brk: -1, cont: -1, labels: map[string][2]int{}, ret: -1, retBool: &[2]int{t, f}}
				b.depth++
				r := b.stmts(body.List, -1, e2)
				b.depth--
				return r
			}
		}
	case *ast.SelectStmt:
		return b.sel(x, rest(), env)
	case *ast.AssignStmt:
		// flush := func() { … }   (local closure)
		if x.Tok == token.DEFINE && len(x.Lhs) == 1 && len(x.Rhs) == 1 {
			if lit, ok := x.Rhs[0].(*ast.FuncLit); ok && (lit.Type.Params == nil || len(lit.Type.Params.List) == 0) {
				b.closure[x.Lhs[0].(*ast.Ident).Name] = lit
				return rest()
			}
		}
	case *ast.DeclStmt:
		if gd, ok := x.Decl.(*ast.GenDecl); ok && gd.Tok == token.VAR {
			allPlain := true
			for _, sp := range gd.Specs {
				if vs, ok := sp.(*ast.ValueSpec); !ok || len(vs.Values) != 0 {
					allPlain = false
				}
			}
			if allPlain {
				return rest()
			}
		}
	}
	cfail(st, "unsupported statement %s", src(st))
	return -1
}

func (b *cBuilder) callee(call *ast.CallExpr, wantBool bool) *ast.BlockStmt {
	if b.depth > 8 {
		cfail(call, "call nesting too deep (recursion?)")
	}
	if h, ok := call.Fun.(*ast.Ident); ok && len(call.Args) == 0 && !wantBool {
		if lit := b.closure[h.Name]; lit != nil {
			return lit.Body
		}
	}
	return resolveCall(b.file, call, wantBool)
}

func (b *cBuilder) loop(f *ast.ForStmt, r *ast.RangeStmt, label string, after int, env cEnv) int {
	head := b.add(&cNode{kind: "goto", next: -1}) // patched below
	e2 := env
	e2.brk, e2.cont, e2.inSelect = after, head, false
	e2.labels = map[string][2]int{}
	for k, v := range env.labels {
		e2.labels[k] = v
	}
	if label != "" {
		e2.labels[label] = [2]int{after, head}
	}
	if r != nil {
		// for x := range ch { B }
		if r.Value != nil {
			cfail(r, "two-variable range")
		}
		if r.Key != nil {
			if r.Tok != token.DEFINE {
				cfail(r, "the range variable is an existing variable (its address is queued)")
			}
			e2.recvVar = src(r.Key)
		}
		body := b.stmts(r.Body.List, head, e2)
		n := b.add(&cNode{kind: "select", arms: []cArm{{kind: "recv", ch: b.chOf(r.X), t1: body, t2: after}}, dflt: -1})
		b.nodes[head].next = n
		return head
	}
	if f.Init != nil || f.Post != nil {
		cfail(f, "for with init / post statements")
	}
	body := b.stmts(f.Body.List, head, e2)
	if f.Cond == nil {
		b.nodes[head].next = body
		return head
	}
	if !b.isNonEmpty(f.Cond) {
		cfail(f, "unsupported loop condition %s", src(f.Cond))
	}
	n := b.add(&cNode{kind: "branch", cond: "nonempty", a: body, b: after})
	b.nodes[head].next = n
	return head
}

func (b *cBuilder) sel(x *ast.SelectStmt, after int, env cEnv) int {
	e2 := env
	e2.inSelect, e2.selectExit = true, after
	n := &cNode{kind: "select", dflt: -1}
	for _, cl := range x.Body.List {
		cc := cl.(*ast.CommClause)
		switch c := cc.Comm.(type) {
		case nil:
			n.dflt = b.stmts(cc.Body, after, e2)
		case *ast.ExprStmt:
			if !isCtxDone(c.X) {
				cfail(cc, "unsupported select arm %s", src(c))
			}
			n.arms = append(n.arms, cArm{kind: "done", t1: b.stmts(cc.Body, after, e2)})
		case *ast.AssignStmt:
			ch, okName, valName, is := b.recv2(c)
			if !is {
				cfail(cc, "unsupported receive arm %s", src(c))
			}
			if len(cc.Body) == 0 {
				cfail(cc, "receive arm with `ok` without the test that follows it")
			}
			is2, ok := cc.Body[0].(*ast.IfStmt)
			if !ok || is2.Init != nil || is2.Else != nil || src(is2.Cond) != "!"+okName {
				cfail(cc, "receive arm with `ok` must start with `if !%s { … }`", okName)
			}
			ev := e2
			ev.recvVar = valName
			val := b.stmts(cc.Body[1:], after, ev)
			if !terminates(is2.Body.List) {
				cfail(is2, "the `!%s` branch falls through to code that uses the received value", okName)
			}
			closed := b.stmts(is2.Body.List, -1, e2)
			n.arms = append(n.arms, cArm{kind: "recv", ch: ch, t1: val, t2: closed})
		case *ast.SendStmt:
			// case emit(ch, mq) <- head(mq):
			_, fn, args, ok := callName(c.Chan)
			if !ok || fn != "emit" || len(args) != 2 || !b.isMq(args[1]) || !b.isHead(c.Value) {
				cfail(cc, "unsupported send arm %s", src(c))
			}
			n.arms = append(n.arms, cArm{kind: "sendhead", ch: b.chOf(args[0]), t1: b.stmts(cc.Body, after, e2)})
		default:
			cfail(cc, "unsupported select arm")
		}
	}
	return b.add(n)
}

// ---------------------------------------------------------------- normalisation

func (b *cBuilder) resolve(i int) int {
	seen := map[int]bool{}
	for i >= 0 && b.nodes[i].kind == "goto" {
		if seen[i] {
			fail(fset.Position(token.NoPos), "cfg: empty infinite loop")
		}
		seen[i] = true
		i = b.nodes[i].next
	}
	return i
}

func armRank(k string) int {
	switch k {
	case "done":
		return 0
	case "recv":
		return 1
	}
	return 2
}

func (n *cNode) succs() []*int {
	out := []*int{}
	switch n.kind {
	case "select":
		for i := range n.arms {
			out = append(out, &n.arms[i].t1)
			if n.arms[i].kind == "recv" {
				out = append(out, &n.arms[i].t2)
			}
		}
		if n.dflt >= 0 {
			out = append(out, &n.dflt)
		}
	case "enq", "deq", "close", "sendhead":
		out = append(out, &n.next)
	case "branch", "flushsend":
		out = append(out, &n.a, &n.b)
	}
	return out
}

func (n *cNode) label() string {
	s := n.kind + ":" + n.ch + ":" + n.cond
	if n.kind == "select" {
		for _, a := range n.arms {
			s += "|" + a.kind + "." + a.ch
		}
		if n.dflt >= 0 {
			s += "|default"
		}
	}
	return s
}

func (b *cBuilder) normalise(entry int) ([]*cNode, int) {
	// drop gotos, sort arms
	for _, n := range b.nodes {
		for _, p := range n.succs() {
			*p = b.resolve(*p)
		}
		sort.SliceStable(n.arms, func(i, j int) bool { return armRank(n.arms[i].kind) < armRank(n.arms[j].kind) })
	}
	entry = b.resolve(entry)
	// flush loop head: branch nonempty → (sendhead ch → X) / E   becomes   flushsend ch X E
	for _, n := range b.nodes {
		if n.kind == "branch" && n.cond == "nonempty" && n.a >= 0 && b.nodes[n.a].kind == "sendhead" {
			s := b.nodes[n.a]
			n.kind, n.ch, n.cond, n.a = "flushsend", s.ch, "", s.next
		}
	}
	// partition refinement
	class := make([]int, len(b.nodes))
	ids := map[string]int{}
	for i, n := range b.nodes {
		l := n.label()
		if _, ok := ids[l]; !ok {
			ids[l] = len(ids)
		}
		class[i] = ids[l]
	}
	for {
		sig := map[string]int{}
		next := make([]int, len(b.nodes))
		for i, n := range b.nodes {
			s := fmt.Sprint(class[i])
			for _, p := range n.succs() {
				if *p < 0 {
					s += ",-"
				} else {
					s += "," + fmt.Sprint(class[*p])
				}
			}
			if _, ok := sig[s]; !ok {
				sig[s] = len(sig)
			}
			next[i] = sig[s]
		}
		same := len(sig) == len(ids)
		ids = map[string]int{}
		for k, v := range sig {
			ids[k] = v
		}
		class = next
		if same {
			break
		}
	}
	// representative per class, BFS numbering
	rep := map[int]int{}
	for i := range b.nodes {
		if _, ok := rep[class[i]]; !ok {
			rep[class[i]] = i
		}
	}
	order := []int{}
	num := map[int]int{}
	queue := []int{class[entry]}
	num[class[entry]] = 0
	for len(queue) > 0 {
		c := queue[0]
		queue = queue[1:]
		order = append(order, c)
		for _, p := range b.nodes[rep[c]].succs() {
			if *p < 0 {
				fail(fset.Position(token.NoPos), "cfg: dangling edge")
			}
			cc := class[*p]
			if _, ok := num[cc]; !ok {
				num[cc] = len(num)
				queue = append(queue, cc)
			}
		}
	}
	out := []*cNode{}
	for _, c := range order {
		n := *b.nodes[rep[c]]
		n.arms = append([]cArm{}, n.arms...)
		for _, p := range n.succs() {
			*p = num[class[*p]]
		}
		out = append(out, &n)
	}
	return out, 0
}

func leanCh(c string) string { return ".Ch." + c }

func (n *cNode) lean() string {
	switch n.kind {
	case "select":
		arms := []string{}
		for _, a := range n.arms {
			switch a.kind {
			case "done":
				arms = append(arms, fmt.Sprintf(".done %d", a.t1))
			case "recv":
				arms = append(arms, fmt.Sprintf(".recv .%s %d %d", a.ch, a.t1, a.t2))
			case "sendhead":
				arms = append(arms, fmt.Sprintf(".sendHead .%s %d", a.ch, a.t1))
			}
		}
		d := "none"
		if n.dflt >= 0 {
			d = fmt.Sprintf("(some %d)", n.dflt)
		}
		return fmt.Sprintf(".select [%s] %s", strings.Join(arms, ", "), d)
	case "enq":
		return fmt.Sprintf(".enq %d", n.next)
	case "deq":
		return fmt.Sprintf(".deq %d", n.next)
	case "close":
		return fmt.Sprintf(".close .%s %d", n.ch, n.next)
	case "flushsend":
		return fmt.Sprintf(".flushSend .%s %d %d", n.ch, n.a, n.b)
	case "halt":
		return ".halt"
	}
	fail(fset.Position(token.NoPos), "cfg: a `%s` program point survives normalisation (no counterpart in Model/PumpCFG.lean)", n.kind)
	return ""
}

func cfgFamily(files []string) string {
	if len(files) != 1 {
		panic(untranslatable{"cfg: expected pipe/unbound.go"})
	}
	f := parse(files[0])
	var sb strings.Builder
	sb.WriteString(header(files[0]))
	sb.WriteString("import Golem.Model.PumpCFG\nnamespace Golem.Gen.PipeNew\nopen Golem.Model.CFG\n\n")
	for _, d := range f.Decls {
		fd, ok := d.(*ast.FuncDecl)
		if !ok || fd.Recv != nil || fd.Name.Name != "New" || fd.Body == nil {
			continue
		}
		b := &cBuilder{chName: map[string]string{}, closure: map[string]*ast.FuncLit{}, file: files[0]}
		stmts := fd.Body.List
		ret, ok := stmts[len(stmts)-1].(*ast.ReturnStmt)
		if !ok || len(ret.Results) != 2 {
			cfail(fd, "New must end with `return <receive side>, <send side>`")
		}
		egName, inName := src(ret.Results[0]), src(ret.Results[1])
		caps := map[string]string{}
		var body *ast.BlockStmt
		var goArgs []string
		for _, st := range stmts[:len(stmts)-1] {
			switch x := st.(type) {
			case *ast.AssignStmt:
				if x.Tok == token.DEFINE && len(x.Lhs) == 1 && len(x.Rhs) == 1 {
					nm := src(x.Lhs[0])
					if r, n, args, ok := callName(x.Rhs[0]); ok && r == "" && n == "make" && len(args) == 2 {
						if _, isCh := args[0].(*ast.ChanType); isCh {
							caps[nm] = src(args[1])
							continue
						}
					}
					if strings.HasPrefix(src(x.Rhs[0]), "newq[") {
						b.mq = nm
						continue
					}
				}
			case *ast.GoStmt:
				if body != nil {
					cfail(st, "two goroutines")
				}
				if lit, ok := x.Call.Fun.(*ast.FuncLit); ok && len(x.Call.Args) == 0 {
					body = lit.Body
					continue
				}
				// go pump(ctx, in, eg, newq[T]())  : the queue may be created in the argument list
				call := *x.Call
				call.Args = append([]ast.Expr{}, x.Call.Args...)
				for i, a := range call.Args {
					if strings.HasPrefix(src(a), "newq[") {
						b.mq = "mq__"
						call.Args[i] = &ast.Ident{Name: "mq__", NamePos: a.Pos()}
					}
				}
				if bd := resolveCall(files[0], &call, false); bd != nil {
					body = bd
					for _, a := range call.Args {
						goArgs = append(goArgs, src(a))
					}
					continue
				}
			}
			cfail(st, "unsupported statement %s", src(st))
		}
		// the queue may be created by the pump itself, at the top level of its body (creating it has no other effect and
		// nothing before the statement can mention it, so where it stands among the leading statements does not matter)
		if body != nil && b.mq == "" {
			for k, st := range body.List {
				x, ok := st.(*ast.AssignStmt)
				if !ok || x.Tok != token.DEFINE || len(x.Lhs) != 1 || len(x.Rhs) != 1 || !strings.HasPrefix(src(x.Rhs[0]), "newq[") {
					continue
				}
				b.mq = src(x.Lhs[0])
				rest := append(append([]ast.Stmt{}, body.List[:k]...), body.List[k+1:]...)
				body = &ast.BlockStmt{Lbrace: body.Lbrace, List: rest, Rbrace: body.Rbrace}
				break
			}
		}
		if body == nil || b.mq == "" || caps[egName] == "" || caps[inName] == "" {
			cfail(fd, "pump goroutine, queue or one of the two channels not found")
		}
		b.chName[egName], b.chName[inName] = "eg", "inp"
		// deferred closes of the goroutine: the chain a `return` runs through
		halt := b.add(&cNode{kind: "halt"})
		chain := halt
		rest := []ast.Stmt{}
		for i, st := range body.List {
			if d, ok := st.(*ast.DeferStmt); ok {
				if _, n, args, ok := callName(d.Call); ok && n == "close" && len(args) == 1 {
					if len(rest) != 0 {
						cfail(st, "defer after other statements")
					}
					chain = b.add(&cNode{kind: "close", ch: b.chOf(args[0]), next: chain})
					continue
				}
				cfail(st, "unsupported defer")
			}
			rest = append(rest, body.List[i])
		}
		env := cEnv{brk: -1, cont: -1, labels: map[string][2]int{}, ret: chain}
		entry := b.stmts(rest, chain, env)
		nodes, _ := b.normalise(entry)
		lines := []string{}
		for i, n := range nodes {
			lines = append(lines, fmt.Sprintf("  /- %d -/ %s", i, n.lean()))
		}
		fmt.Fprintf(&sb, "/-- the pump goroutine of `pipe.New` -/\ndef graph : Graph := [\n%s ]\n\n", strings.Join(lines, ",\n"))
		fmt.Fprintf(&sb, "/-- capacities of the receive side and of the send side, as written -/\ndef caps : List String := [%q, %q]\n\n", caps[egName], caps[inName])
	}
	sb.WriteString("end Golem.Gen.PipeNew\n")
	return sb.String()
}
