module xlate

go 1.23
